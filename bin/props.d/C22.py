# C22: stage list (what ./check C22 quick|thorough runs) and manifest text. Helpers gen()/enum()/hyp()/custom() come from props.py.
SPEC = {'level': 'exploration',
 'assumptions': ['RefLedger replay (own UTXO rules) of the active chain is the reference UTXO set; own nLockTime/BIP68/maturity model; scripts are valid by construction and re-checked by TestBlockValidity',
                 'regtest node, 110-block base + funding block, histories of 6-48 operations, pools of up to a few dozen transactions',
                 'TestBlockValidity (block-validation path) is the judge for the strong clause; the mempool paths (ATMP, removeForBlock/Reorg, Expire, TrimToSize) are the code under test'],
 'stages': [{'kind': 'gen',
             'binary': 'vh_c22',
             'target': 'c22_mempool_history',
             'cases_quick': 400,
             'cases_thorough': 5000,
             'min_cases_quick': 60,
             'max_seconds_quick': 600,
             'max_seconds_thorough': 14400,
             'floors': {'reorg-with-sensitive-entry': 0.3, 'reorg-depth>=2': 0.2, 'mined-with-nonpool-txs': 0.25, 'replacement-happened': 0.1,
                        'package-accepted': 0.15, 'accepted-coinbase-spend': 0.2, 'accepted-locktime': 0.15, 'accepted-bip68': 0.15, 'time-jump': 0.2,
                        'prioritise': 0.15, 'trim': 0.15, 'pool>=10': 0.1, 'with-CTxMemPool-check': 0.15},
             'rule': 'mempool histories with reorgs; non-trivial = a reorg happened while the pool or the disconnected blocks held a time-locked or coinbase-spending transaction'}]}

META = {'level_text': 'Generated operation histories (submissions of single transactions and packages incl. RBF, TRUC, ephemeral dust, CPFP, timelocks and coinbase spends at their '
               'boundaries; blocks mined from pool subsets plus conflicting non-pool transactions; reorgs of depth 1-3 by invalidation and by competing branches; time jumps, '
               'expiry, prioritisation, trimming) on a real in-process regtest node. After every operation the pool is snapshotted and re-derived independently from its '
               'transaction list and the RefLedger UTXO set (inputs available, no double spend, fees, parent/child/ancestor/cluster answers, totals), the model\'s own next-block '
               'rules must accept every entry, and a harness-built block holding ALL pool transactions must pass TestBlockValidity on the tip. Exploration over bounded histories.',
 'technique': 'stateful property-based testing: operation histories vs an independent ledger/mempool model + differential against block validation (TestBlockValidity); CTxMemPool::check as extra monitor'}
