# C19: stage list (what ./check C19 quick|thorough runs) and manifest text. Helpers gen()/enum()/hyp()/custom() come from props.py.
SPEC = {
    "level": "exploration",
    "assumptions": [
        "keep-set model from the statement: active-chain blocks at heights >= tip-287, and every stored block at a height above a registered prune lock "
        "(lock heights tracked by the model incl. the move-back-on-disconnect rule); the code's extra 10-block lock buffer is not required",
        "regtest -fastprune (64 KiB block files), manual-prune mode; prune locks are driven through BlockManager::UpdatePruneLock directly (no real index)",
        "automatic pruning is reached through hook H2 (verif::g_min_prune_target / g_prune_buffer, guard BITCOIN_VERIF_HOOKS): targets 0.75-5 MiB, buffers "
        "0-140 kB; a pass is recognised by files disappearing during a block delivery; its stop rule is judged with the node's own per-file byte accounting; "
        "linear chain only in that mode; node out of IBD (mock clock) so that the IBD-only extra buffer is not part of the model",
        "snapshot/background-validation clause not exercised",
        "prune lock heights >= 1 (a lock at height 0 is never generated)",
    ],
    "stages": [
        gen("vh_c19", "c19_prune", 160, 3000, min_cases_quick=24, max_seconds_quick=420,
            floors={"pruned-files": 0.4, "straddling-file": 0.25, "lock": 0.3, "lock-cuts-file": 0.05, "headers-ahead": 0.1, "reorg": 0.03,
                    "auto-prune-event": 0.12, "auto-stopped-under-target": 0.03, "auto-stopped-no-eligible-file": 0.04},
            rule="300-620 block chains with generated block sizes on 64 KiB files; manual prunes around tip-288 and lock-11, locks, reorgs, headers ahead; "
                 "non-trivial = request reached into a file straddling the 288 boundary or cut by a lock"),
    ],
}

META = {
    "level_text": "Generated block-file layouts (block sizes 0.3-70 KiB on 64 KiB files, forks sharing files) on an in-process regtest node in prune mode; manual "
                  "prune requests around every boundary, prune locks registered/moved/deleted, reorgs that move locks back, headers ahead of the tip. After every "
                  "prune event a keep-set model decides which stored blocks are protected; each must still be flagged and readable from disk (block re-hashed, undo "
                  "checksum), files lose their blocks all-or-nothing, every flagged block is readable. In automatic mode (hook H2 lowers the 550 MiB floor) every pass must end "
                  "under the target or with no eligible file left, and must not go on after usage was back under the target. Exploration; the snapshot clause is "
                  "not covered.",
    "technique": "stateful property-based testing: keep-set model vs block index flags and disk reads after each prune event",
    "level_note": "trusted base: RefLedger block tree, the harness' own record of which block was stored in which file (taken from the block index before each prune)",
}
