#!/usr/bin/env python3
"""C16 crash-image stage (worker protocol of bin/check.py 'custom' stages).

  c16_worker.py --seed S --worker W --nworkers K --cases N --out DIR --tier quick|thorough [--max-seconds T]
  c16_worker.py --replay FILE.json

Per worker: build the template datadir, then for each of its workloads: generate op bytes (seeded), record the workload
under strace, validate the recorder (full replay of the trace must reproduce the real final datadir byte for byte),
enumerate cut points and power-loss variants, materialise each crash image and run the recovery oracle on it.
"""
import argparse
import base64
import hashlib
import io
import json
import os
import random
import shutil
import struct
import subprocess
import sys
import tarfile
import time

HERE = os.path.dirname(os.path.abspath(__file__))
VERIF = os.path.dirname(os.path.dirname(HERE))
sys.path.insert(0, HERE)
import crashlib  # noqa: E402

NAME = "c16_crash_images"
VH = os.path.join(VERIF, "build", "san", "vh", "vh_c16")
SUB = os.path.join("test_common bitcoin", "verif", "datadir", "regtest")


def base_env():
    e = dict(os.environ)
    e.setdefault("ASAN_OPTIONS", "detect_leaks=0:abort_on_error=0:handle_abort=0:malloc_context_size=8:quarantine_size_mb=16")
    e["ASAN_OPTIONS"] = e["ASAN_OPTIONS"].replace("detect_leaks=1", "detect_leaks=0")
    return e


def run_target(target, env, replay_file, timeout=600):
    return subprocess.run([VH, "--target", target, "--replay", replay_file], env=env, stdout=subprocess.PIPE, stderr=subprocess.PIPE,
                          timeout=timeout, text=True, errors="replace")


def classify(path):
    if path is None:
        return "none"
    if path.startswith("chainstate/"):
        return "coins-log" if path.endswith(".log") else "coins-other"
    if path.startswith("blocks/index/"):
        return "index-log" if path.endswith(".log") else "index-other"
    if path.startswith("blocks/blk"):
        return "blk"
    if path.startswith("blocks/rev"):
        return "rev"
    return "other"


def recover(image_dir, plan, tips, flushed, work, record_to=None, batch=None):
    """run the recovery oracle on an image -> (ok, oracle, msg). With record_to=(trace_path, stdout_path) the recovery itself runs
    under the strace recorder (used to place a second crash inside the recovery); batch = coins-DB batch bytes of the recovering node."""
    root = os.path.join(work, "rroot2" if record_to else "rroot")
    shutil.rmtree(root, ignore_errors=True)
    os.makedirs(root)
    tips_file = os.path.join(work, "tips.txt")
    open(tips_file, "w").write("\n".join(sorted(tips)) + "\n")
    empty = os.path.join(work, "empty.bin")
    open(empty, "wb").close()
    env = base_env()
    env.update(VH_C16_ROOT=root, VH_C16_IMAGE=image_dir, VH_C16_PLAN=plan, VH_C16_TIPS=tips_file, VH_C16_FLUSHED=flushed or "")
    if batch:
        env["VH_C16_BATCH"] = str(batch)
    if record_to:
        rc, err = crashlib.record([VH, "--target", "c16_recover", "--replay", empty], env, record_to[0], record_to[1], timeout=900)
        out = open(record_to[1], errors="replace").read()
        if rc == 0 and "REPLAY-OK" in out:
            return True, "", root
        sys.path.insert(0, os.path.join(VERIF, "bin"))
        import check
        oracle, msg = check.signature_from_stderr(err + "\n" + out)
        return False, oracle, msg
    try:
        r = run_target("c16_recover", env, empty)
    except subprocess.TimeoutExpired:
        return True, "timeout", "recovery timed out (inconclusive)"
    shutil.rmtree(root, ignore_errors=True)
    if r.returncode == 0 and "REPLAY-OK" in r.stdout:
        return True, "", r.stdout
    sys.path.insert(0, os.path.join(VERIF, "bin"))
    import check  # signature extraction shared with the orchestrator
    oracle, msg = check.signature_from_stderr(r.stderr + "\n" + r.stdout)
    return False, oracle, msg


def pack_failure(path, image_dir, plan, tips, flushed, meta):
    buf = io.BytesIO()
    with tarfile.open(fileobj=buf, mode="w:gz") as t:
        t.add(image_dir, arcname="image")
        t.add(plan, arcname="plan.bin")
    json.dump({"kind": "c16-crash-image", "tips": sorted(tips), "flushed": flushed, "meta": meta,
               "tar_gz_b64": base64.b64encode(buf.getvalue()).decode()}, open(path, "w"))


def replay(path):
    j = json.load(open(path))
    work = os.path.join(os.environ.get("TMPDIR", "/tmp"), f"c16-replay-{os.getpid()}")
    shutil.rmtree(work, ignore_errors=True)
    os.makedirs(work)
    with tarfile.open(fileobj=io.BytesIO(base64.b64decode(j["tar_gz_b64"])), mode="r:gz") as t:
        t.extractall(work)
    print("DECODED crash image:", json.dumps(j["meta"]))
    ok, oracle, msg = recover(os.path.join(work, "image"), os.path.join(work, "plan.bin"), set(j["tips"]), j["flushed"], work)
    shutil.rmtree(work, ignore_errors=True)
    if ok:
        print("REPLAY-OK")
        return 0
    print(f"ORACLE-FAIL {oracle} {msg}", file=sys.stderr)
    return 77


def gen_ops(rng, tier):
    n = rng.randrange(120, 400) if tier == "quick" else rng.randrange(200, 600)
    mode = rng.randrange(3)
    if mode == 0:
        return bytes(rng.randrange(256) for _ in range(n))
    if mode == 1:
        return bytes(rng.choice([0, 255, 1, 127, 128, 254, rng.randrange(256), rng.randrange(256)]) for _ in range(n))
    return bytes(rng.randrange(256) if rng.random() < 0.7 else rng.randrange(4) for _ in range(n))


def main():
    ap = argparse.ArgumentParser()
    ap.add_argument("--replay")
    ap.add_argument("--seed", type=int, default=1)
    ap.add_argument("--worker", type=int, default=0)
    ap.add_argument("--nworkers", type=int, default=1)
    ap.add_argument("--cases", type=int, default=300)
    ap.add_argument("--out", default=".")
    ap.add_argument("--tier", default="quick")
    ap.add_argument("--max-seconds", type=float, default=0)
    a = ap.parse_args()
    if a.replay:
        return replay(a.replay)
    t0 = time.time()
    rng = random.Random(a.seed * 1000003 + a.worker)
    work = os.path.join(os.environ.get("TMPDIR", "/tmp"), f"c16-{a.seed}-{a.worker}-{os.getpid()}")
    shutil.rmtree(work, ignore_errors=True)
    os.makedirs(work)
    stats = {"target": NAME, "worker": a.worker, "mode": "crash", "seed": a.seed, "cases": 0, "nontrivial": 0, "steps": 0,
             "distinct_nontrivial_shapes": 0, "enum_total": 0, "wall_s": 0, "stopped_by": "cases", "classes": {}, "class_cases": {}, "samples": []}
    shapes = set()

    def cls(name):
        stats["classes"][name] = stats["classes"].get(name, 0) + 1
        stats["class_cases"][name] = stats["class_cases"].get(name, 0) + 1

    def flush():
        stats["wall_s"] = round(time.time() - t0, 2)
        stats["distinct_nontrivial_shapes"] = len(shapes)
        json.dump(stats, open(os.path.join(a.out, f"stats-{NAME}-{a.worker}.json"), "w"))
        with open(os.path.join(a.out, f"shapes-{NAME}-{a.worker}.bin"), "wb") as f:
            for h in shapes:
                f.write(struct.pack("<Q", h))

    def fail(oracle, msg, image_dir, plan, tips, flushed, meta):
        pack_failure(os.path.join(a.out, f"fail-{NAME}-{a.worker}.json"), image_dir, plan, tips, flushed, meta)
        open(os.path.join(a.out, f"fail-{NAME}-{a.worker}.txt"), "w").write(f"{oracle}\n{msg}\n{json.dumps(meta)}\n")
        print(f"ORACLE-FAIL {oracle} {msg} meta={json.dumps(meta)}", file=sys.stderr)
        stats["stopped_by"] = "failure"
        flush()
        shutil.rmtree(work, ignore_errors=True)
        sys.exit(77)

    def broken(msg):
        print("BROKEN " + msg, file=sys.stderr)
        flush()
        shutil.rmtree(work, ignore_errors=True)
        sys.exit(2)

    # 1. template (clean shutdown) -----------------------------------------------------------------
    troot = os.path.join(work, "troot")
    os.makedirs(troot)
    tplan = os.path.join(work, "plan_template.bin")
    empty = os.path.join(work, "empty.bin")
    open(empty, "wb").close()
    env = base_env()
    env.update(VH_C16_ROOT=troot, VH_C16_PLAN=tplan)
    r = run_target("c16_template", env, empty)
    if r.returncode != 0:
        broken("template build failed: " + r.stderr[-2000:])
    template = os.path.join(troot, SUB)
    for junk in ("debug.log", ".lock"):
        jp = os.path.join(template, junk)
        if os.path.exists(jp):
            os.unlink(jp)
    init_sizes = {os.path.relpath(os.path.join(b, n), template): os.path.getsize(os.path.join(b, n)) for b, _, ns in os.walk(template) for n in ns}

    per_worker = max(1, a.cases // a.nworkers)
    n_workloads = 1 if a.tier == "quick" else 3
    per_workload = max(1, per_worker // n_workloads)
    for wl in range(n_workloads):
        # 2. record ------------------------------------------------------------------------------------
        wroot = os.path.join(work, f"wroot{wl}")
        shutil.rmtree(wroot, ignore_errors=True)
        os.makedirs(wroot)
        plan = os.path.join(work, f"plan{wl}.bin")
        shutil.copyfile(tplan, plan)
        opsfile = os.path.join(work, f"ops{wl}.bin")
        opsb = gen_ops(rng, a.tier)
        open(opsfile, "wb").write(opsb)
        env = base_env()
        env.update(VH_C16_ROOT=wroot, VH_C16_TEMPLATE=template, VH_C16_PLAN=plan)
        trace = os.path.join(work, f"trace{wl}.txt")
        rc, err = crashlib.record([VH, "--target", "c16_workload", "--replay", opsfile], env, trace, os.path.join(work, f"stdout{wl}.txt"))
        if rc != 0:
            broken(f"workload run failed rc={rc}: {err[-2000:]}")
        datadir = os.path.join(wroot, SUB)
        ops, marks = crashlib.parse_trace(trace, datadir, init_sizes)
        os.unlink(trace)
        # 3. recorder self-check: replaying the whole trace must give the real final directory ------------
        chk = os.path.join(work, "selfcheck")
        crashlib.build_image(template, ops, len(ops), chk)
        ign = ("debug.log", ".lock", "LOCK")
        got, want = crashlib.dir_digest(chk, ign), crashlib.dir_digest(datadir, ign)
        if got != want:
            diff = [p for p in set(got) | set(want) if got.get(p) != want.get(p)]
            broken(f"recorder self-check failed: materialised final image differs from the real datadir in {sorted(diff)[:6]}")
        shutil.rmtree(chk, ignore_errors=True)
        begin = [m for m in marks if m[1].startswith("begin ")]
        if not begin:
            broken("no MARK begin in trace")
        k0 = begin[0][0]
        base_tip = begin[0][1].split()[1]
        tip_marks = [(i, t.split()[1]) for i, t in marks if t.startswith("tip ")]
        flush_marks = [(i, t.split()[1]) for i, t in marks if t.startswith("flush ")]
        opflush = [i for i, t in marks if t.startswith("op flush") or t.startswith("op invalidate") or t.startswith("op prune")]
        opinval = [i for i, t in marks if t.startswith("op invalidate")]
        decoded = open(os.path.join(work, f"stdout{wl}.txt"), errors="replace").read()
        decoded = " ".join(l[8:] for l in decoded.splitlines() if l.startswith("DECODED "))[:600]
        # candidate cut points: after k0, at every op that changes durable state
        cand = [op.i for op in ops if op.i >= k0 and op.kind in ("w", "s", "t", "x", "r", "u", "c")] + [len(ops)]
        # windows of interest: inside a flush (between an 'op flush' marker and the following 'flush' completion marker)
        inflush = set()
        for s_i in opflush:
            ends = [i for i, _ in flush_marks if i >= s_i]
            e_i = ends[0] if ends else s_i
            inflush.update(range(s_i, e_i + 1))
        # A: every cut inside a run of coins-DB partial batches (between two chainstate log writes, or right after the first);
        # B: cuts just before a rename/unlink; C: other cuts inside a flush or at a change of file class; D: the rest
        def is_coins_w(i):
            return 0 <= i < len(ops) and ops[i].kind == "w" and classify(ops[i].path) == "coins-log"
        cand_set = set(cand)
        A = [k for k in cand if is_coins_w(k - 1) and (is_coins_w(k) or (k in inflush))]
        B = [k for k in cand if k < len(ops) and ops[k].kind in ("r", "u") and k not in set(A)]
        seen = set(A) | set(B)
        C = [k for k in cand if k not in seen and (k in inflush or (0 < k < len(ops) and classify(ops[k - 1].path) != classify(ops[k].path)))]
        seen |= set(C)
        D = [k for k in cand if k not in seen]
        for lst in (A, B, C, D):
            rng.shuffle(lst)
        budget = max(4, per_workload // 2)  # ~2 images per cut
        nA = min(len(A), max(2, budget // 2))
        nB = min(len(B), max(1, budget // 8))
        nC = min(len(C), max(1, (budget - nA - nB) * 2 // 3))
        nD = min(len(D), max(1, budget - nA - nB - nC))
        chosen = A[:nA] + B[:nB] + C[:nC] + D[:nD]
        stats["classes"]["coins-batch-window-cuts-available"] = stats["classes"].get("coins-batch-window-cuts-available", 0) + len(A)
        if a.tier == "thorough" and a.cases >= 100000:
            chosen = cand  # exhaustive over cut points
        stats["classes"]["ops-in-trace"] = stats["classes"].get("ops-in-trace", 0) + len(ops)
        stats["classes"]["cut-points-available"] = stats["classes"].get("cut-points-available", 0) + len(cand)
        img = os.path.join(work, "image")
        second_level_left = 1 if a.tier == "quick" else 4
        ign = ("debug.log", ".lock", "LOCK")
        # take the coins-batch cuts first so that the second-level exploration gets its chance within the time budget
        chosen.sort(key=lambda kk: 0 if is_coins_w(kk - 1) else 1)
        for k in chosen:
            if a.max_seconds and time.time() - t0 > a.max_seconds:
                stats["stopped_by"] = "time"
                break
            tips = {base_tip} | {h for i, h in tip_marks if i < k}
            fl = [(i, h) for i, h in flush_marks if i < k]
            flushed = fl[-1][1] if fl else base_tip
            last_flush_i = fl[-1][0] if fl else -1
            # the work bound of the statement is about crashes, not about the operator invalidating blocks: if the workload
            # invalidated a block after the last completed flush and before the cut, the tip's work was lowered on purpose and the
            # bound is not asserted for this image (counted)
            if any(last_flush_i < i < k for i in opinval):
                flushed = ""
                cls("work-clause-skipped:invalidate-after-last-flush")
            U = crashlib.unsynced_writes(ops, k)
            variants = [("kill", frozenset(), None)]
            if U:
                js = sorted({0, len(U) // 2, len(U) - 1})
                j = rng.choice(js)
                variants.append((f"power:j={j}/{len(U)}", frozenset(U[j:]), None))
                big = [i for i in U if len(ops[i].data) > 512]
                if big and rng.random() < 0.5:
                    ti = rng.choice(big)
                    keep = 512 * rng.randrange(1, (len(ops[ti].data) + 511) // 512)
                    later = frozenset(i for i in U if i > ti)
                    variants.append((f"power-torn:{ti}@{keep}", later, (ti, keep)))
            for mode, drop, tear in variants:
                crashlib.build_image(template, ops, k, img, drop, tear)
                prev_c = classify(ops[k - 1].path) if k > 0 else "none"
                next_c = classify(ops[k].path) if k < len(ops) else "end"
                meta = {"workload_seed": [a.seed, a.worker, wl], "ops_hex": opsb.hex(), "cut": k, "of": len(ops), "mode": mode,
                        "window": f"{prev_c}->{next_c}", "in_flush": k in inflush, "unsynced_writes": len(U), "workload": decoded}
                ok, oracle, msg = recover(img, plan, tips, flushed, work)
                stats["cases"] += 1
                stats["steps"] += 1
                nontrivial = (k in inflush) or prev_c != next_c or mode != "kill"
                cls("mode:" + mode.split(":")[0])
                cls("window:" + meta["window"])
                if k in inflush:
                    cls("cut-inside-flush")
                if is_coins_w(k - 1):
                    cls("cut-after-coins-batch")
                if nontrivial:
                    stats["nontrivial"] += 1
                    shapes.add(int.from_bytes(hashlib.sha256(f"{a.seed}/{a.worker}/{wl}/{k}/{mode}".encode()).digest()[:8], "little"))
                if len(stats["samples"]) < 4 and (nontrivial or not stats["samples"]):
                    stats["samples"].append({"index": stats["cases"], "len": len(opsb), "nontrivial": nontrivial, "decoded": json.dumps({x: meta[x] for x in meta if x != "ops_hex"})})
                if not ok:
                    fail(oracle, msg, img, plan, tips, flushed, meta)
                if oracle == "timeout":
                    cls("recovery-timeout-inconclusive")
                # fault SEQUENCES: a second crash while the node recovers from this image (the flush that ends ReplayBlocks)
                if mode == "kill" and is_coins_w(k - 1) and second_level_left > 0:
                    second_level_left -= 1
                    tr2, so2 = os.path.join(work, "trace2.txt"), os.path.join(work, "stdout2.txt")
                    ok2, oracle2, root2 = recover(img, plan, tips, flushed, work, record_to=(tr2, so2), batch=rng.choice([120, 300, 900]))
                    if not ok2:
                        fail(oracle2, root2, img, plan, tips, flushed, dict(meta, mode=mode + "+recovery-with-small-batches"))
                    dd2 = os.path.join(root2, SUB)
                    sizes1 = {os.path.relpath(os.path.join(b, n), img): os.path.getsize(os.path.join(b, n)) for b, _, ns in os.walk(img) for n in ns}
                    ops2, marks2 = crashlib.parse_trace(tr2, dd2, sizes1)
                    os.unlink(tr2)
                    chk2 = os.path.join(work, "selfcheck2")
                    crashlib.build_image(img, ops2, len(ops2), chk2)
                    if crashlib.dir_digest(chk2, ign) != crashlib.dir_digest(dd2, ign):
                        broken("recorder self-check failed for a recorded recovery run")
                    shutil.rmtree(chk2, ignore_errors=True)
                    shutil.rmtree(os.path.join(work, "rroot2"), ignore_errors=True)
                    def is_coins_w2(i):
                        return 0 <= i < len(ops2) and ops2[i].kind == "w" and classify(ops2[i].path) == "coins-log"
                    cuts2 = [j for j in range(1, len(ops2) + 1) if is_coins_w2(j - 1)]
                    rng.shuffle(cuts2)
                    others2 = [j for j in range(1, len(ops2)) if ops2[j].kind in ("w", "r", "u", "s") and not is_coins_w2(j - 1)]
                    rng.shuffle(others2)
                    img2 = os.path.join(work, "image2")
                    for k2 in cuts2[:6] + others2[:2]:
                        crashlib.build_image(img, ops2, k2, img2)
                        meta2 = dict(meta, mode="kill+kill-during-recovery", cut2=k2, of2=len(ops2), coins_batches_in_recovery=len(cuts2))
                        ok3, oracle3, msg3 = recover(img2, plan, tips, flushed, work)
                        stats["cases"] += 1
                        stats["steps"] += 1
                        stats["nontrivial"] += 1
                        cls("mode:double-crash")
                        if is_coins_w2(k2 - 1):
                            cls("second-cut-after-recovery-coins-batch")
                        shapes.add(int.from_bytes(hashlib.sha256(f"{a.seed}/{a.worker}/{wl}/{k}/{k2}/double".encode()).digest()[:8], "little"))
                        if not ok3:
                            fail(oracle3, msg3, img2, plan, tips, flushed, meta2)
            if stats["cases"] % 10 == 0:
                flush()
    flush()
    shutil.rmtree(work, ignore_errors=True)
    return 0


if __name__ == "__main__":
    try:
        rc = main()
    except SystemExit:
        raise
    except Exception:  # a bug in the recorder/builder is a broken run, never a violation
        import traceback
        traceback.print_exc()
        print("BROKEN worker exception", file=sys.stderr)
        rc = 2
    sys.exit(rc)
