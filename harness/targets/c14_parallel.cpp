// C14 — Parallel validation gives the same results as serial validation, without races.
//
// One case = a short block sequence (fan-out block + 1..3 test blocks, each valid or carrying EXACTLY ONE defect) that is
// delivered to a fresh regtest node under a threaded configuration (script-check workers x prevout fetchers x scheduler
// thread, seeded yield injection through kits/schedhook.h / hook H1), optionally under a second threaded configuration,
// and finally under the serial reference configuration (0 workers, 0 fetchers, immediate signals, no yields).
// Oracle (differential against the serial run): per block the same accept/reject, the same reject-reason CATEGORY
// (script failure vs. anything else; which failing input is named may legitimately differ) and the same hash_serialized of
// the UTXO set after the block. Exactly one defect per block is essential: with two defects of different categories the
// serial code reports the first in block order while the parallel code reports non-script defects first - legitimately.
// In the tsan tree ThreadSanitizer + DEBUG_LOCKORDER watch the very same runs (a report kills the process: oracle abort:tsan:...).
#include <engine/verif.h>
#include <kits/chainsim.h>
#include <kits/schedhook.h>

#include <test/util/script.h>

#include <algorithm>
#include <map>
#include <set>

using namespace verif;

// ThreadSanitizer defaults for this binary (ignored by the ASan build). A report ends the process at once, so the input of
// the failing case is the driver's current-case file.
extern "C" const char* __tsan_default_options() { return "halt_on_error=1:second_deadlock_stack=1:exitcode=66:report_signal_unsafe=0"; }

namespace {

struct Cfg {
    int workers{0};
    int fetchers{0};
    bool sched_thread{false};
    bool Threaded() const { return workers > 0 || fetchers > 0 || sched_thread; }
    std::string Str() const { return "w" + std::to_string(workers) + "/f" + std::to_string(fetchers) + (sched_thread ? "/sched" : ""); }
};

enum class Defect { NONE, SCRIPT, SCRIPT2, MISSING, DOUBLE, IMMATURE, BELOWOUT, CBAMOUNT };
const char* DefectName(Defect d)
{
    switch (d) {
    case Defect::NONE: return "none";
    case Defect::SCRIPT: return "bad-script";
    case Defect::SCRIPT2: return "two-bad-scripts";
    case Defect::MISSING: return "missing-input";
    case Defect::DOUBLE: return "double-spend-in-block";
    case Defect::IMMATURE: return "immature-coinbase";
    case Defect::BELOWOUT: return "in-below-out";
    case Defect::CBAMOUNT: return "coinbase-overpays";
    }
    return "?";
}
bool IsScriptDefect(Defect d) { return d == Defect::SCRIPT || d == Defect::SCRIPT2; }

struct PoolCoin {
    COutPoint op;
    RefCoin coin;
};

struct Planned {
    std::shared_ptr<const CBlock> block;
    Defect defect{Defect::NONE};
    int bad_tx{-1};  //!< index among the non-coinbase txs of the (first) defective tx, -1 if none / block level
    int ntx{0};      //!< non-coinbase txs
    int nin{0};      //!< inputs of non-coinbase txs
    int chained{0};  //!< inputs spending outputs created earlier in the same block
};

struct BlockRes {
    bool connected{false};
    bool have_verdict{false};
    bool valid{false};
    std::string reason;
    bool script_cat{false};
    uint256 utxo;
};

struct Rng { // local splitmix stream seeded from the case bytes: bulk choices (which coin, which template) that need no shrinking
    uint64_t x;
    uint64_t next() { return x = sched::Mix(x); }
    size_t below(size_t n) { return n <= 1 ? 0 : size_t(next() % n); }
};

const std::vector<SpkType> SPEND_TYPES{SpkType::ANYONE_P2WSH, SpkType::P2WPKH, SpkType::P2TR, SpkType::P2PKH, SpkType::P2SH_P2WPKH, SpkType::P2PK, SpkType::BARE_TRUE};

/** Make input `j` of `tx` fail script verification (never anything else: the prevout is untouched). */
void CorruptInput(CMutableTransaction& tx, size_t j, const RefCoin& coin, unsigned mode)
{
    CTxIn& in = tx.vin[j];
    if (coin.spk == (CScript() << OP_TRUE)) { // bare OP_TRUE cannot fail through its (empty) scriptSig data: make the scriptSig itself fail
        in.scriptSig = CScript() << OP_RETURN;
        return;
    }
    if (!in.scriptWitness.stack.empty()) {
        auto& el = in.scriptWitness.stack[0]; // the signature (P2WPKH, P2TR key path, P2SH-P2WPKH) or the witness script (anyone-can-spend P2WSH)
        switch (mode % 3) {
        case 0: if (!el.empty()) el[el.size() / 2] ^= 0x01; else el.push_back(0x01); break;
        case 1: if (el.size() > 1) el.pop_back(); else el.push_back(0x00); break;
        default: in.scriptWitness.stack.clear(); break; // "witness program was passed an empty witness"
        }
        return;
    }
    // legacy P2PKH / P2PK: scriptSig = <sig> [<pubkey>]
    std::vector<unsigned char> raw(in.scriptSig.begin(), in.scriptSig.end());
    if (raw.size() < 12 || mode % 3 == 2) {
        in.scriptSig = CScript(); // nothing on the stack
    } else {
        raw[10 + (mode % 2) * 20] ^= 0x04; // inside r (or s) of the DER signature
        in.scriptSig = CScript(raw.begin(), raw.end());
    }
}

struct Planner {
    ChainSim& sim;
    Src& s;
    Stats& st;
    Rng rng;
    std::vector<PoolCoin> avail;   //!< spendable coins as of the planned tip (valid blocks only)
    uint256 tip;                   //!< planned tip: last block expected to connect
    int tip_height{0};
    std::vector<uint256> base;

    CScript OutScript() { return sim.keys.Script(SPEND_TYPES[rng.below(SPEND_TYPES.size())], rng.below(8)); }

    PoolCoin BaseCoinbase(int height)
    {
        const auto& b = sim.block_store.at(base.at(height - 1));
        return PoolCoin{COutPoint(b->vtx[0]->GetHash(), 0), RefCoin{b->vtx[0]->vout[0].nValue, b->vtx[0]->vout[0].scriptPubKey, height, true}};
    }

    /** sign; the harness' templates are satisfiable by construction */
    void Sign(CMutableTransaction& tx, const std::vector<PoolCoin>& ins)
    {
        std::map<COutPoint, RefCoin> spent;
        for (auto& c : ins) spent[c.op] = c.coin;
        bool ok = sim.keys.Sign(tx, spent);
        VCHECK(ok, "c14.generator-sign", "harness could not sign its own template");
    }

    /** the fan-out block at height 105: 1..3 txs, each spending one mature base coinbase into many outputs of mixed templates */
    Planned FanOut(unsigned want_outputs)
    {
        unsigned ntx = 1 + std::min<unsigned>(2, want_outputs / 150);
        std::vector<CTransactionRef> txs;
        std::vector<PoolCoin> created;
        for (unsigned t = 0; t < ntx; ++t) {
            PoolCoin cb = BaseCoinbase(1 + t);
            unsigned nout = std::max<unsigned>(1, want_outputs / ntx);
            CMutableTransaction tx;
            tx.version = 2;
            tx.vin.emplace_back(cb.op);
            CAmount each = cb.coin.value / nout;
            for (unsigned k = 0; k < nout; ++k) tx.vout.emplace_back(each, OutScript());
            Sign(tx, {cb});
            CTransactionRef ref = MakeTransactionRef(tx);
            for (unsigned k = 0; k < nout; ++k) created.push_back(PoolCoin{COutPoint(ref->GetHash(), k), RefCoin{each, tx.vout[k].scriptPubKey, tip_height + 1, false}});
            txs.push_back(ref);
        }
        BlockSpec spec;
        spec.prev = tip;
        spec.txs = txs;
        spec.fees = 0; // the remainder of the division is left as unclaimed fee
        spec.extra_nonce = 7;
        Planned p;
        p.block = sim.Build(spec);
        p.ntx = int(ntx);
        p.nin = int(ntx);
        tip = p.block->GetHash();
        tip_height++;
        avail = created;
        return p;
    }

    /** a test block on the planned tip */
    Planned TestBlock(unsigned target_inputs, Defect defect, unsigned pos_mode, unsigned blockno)
    {
        struct In { bool external; PoolCoin coin; size_t tx; uint32_t out; };
        struct Recipe { std::vector<In> ins; unsigned nout; };
        std::vector<Recipe> recipes;
        std::vector<PoolCoin> pool = avail;
        std::vector<std::pair<size_t, uint32_t>> fresh; // (recipe, output) created in this block and not yet spent in it
        std::vector<PoolCoin> spent_external;
        unsigned used = 0, chained = 0;
        while (used < target_inputs && (!pool.empty() || !fresh.empty()) && recipes.size() < 220) {
            Recipe r;
            unsigned nin = 1 + unsigned(rng.below(4));
            if (rng.below(16) == 0) nin = 8 + unsigned(rng.below(56)); // occasionally one wide transaction
            nin = std::min(nin, target_inputs - used);
            for (unsigned k = 0; k < nin; ++k) {
                if (!fresh.empty() && !recipes.empty() && rng.below(4) == 0) {
                    size_t j = rng.below(fresh.size());
                    r.ins.push_back(In{false, {}, fresh[j].first, fresh[j].second});
                    fresh.erase(fresh.begin() + j);
                    chained++;
                } else if (!pool.empty()) {
                    size_t j = rng.below(pool.size());
                    r.ins.push_back(In{true, pool[j], 0, 0});
                    spent_external.push_back(pool[j]);
                    pool[j] = pool.back();
                    pool.pop_back();
                }
            }
            if (r.ins.empty()) break;
            r.nout = 1 + unsigned(rng.below(3));
            used += unsigned(r.ins.size());
            for (uint32_t o = 0; o < r.nout; ++o) fresh.emplace_back(recipes.size(), o);
            recipes.push_back(std::move(r));
        }
        Planned p;
        p.defect = defect;
        p.ntx = int(recipes.size());
        p.chained = int(chained);
        if (recipes.empty()) { p.defect = defect = Defect::NONE; }
        // position of the defective transaction
        size_t bad = 0, bad2 = 0;
        if (defect != Defect::NONE && defect != Defect::CBAMOUNT) {
            size_t n = recipes.size();
            switch (pos_mode % 4) {
            case 0: bad = n - 1; break;                 // last
            case 1: bad = 0; break;                     // first
            case 2: bad = n / 2; break;                 // middle
            default: bad = s.index(n); break;           // anywhere
            }
            if (defect == Defect::DOUBLE && bad == 0) bad = n > 1 ? 1 : 0;
            if (defect == Defect::DOUBLE && n < 2) p.defect = defect = Defect::MISSING; // nothing earlier to double-spend
            if (defect == Defect::SCRIPT2) {
                if (n < 2) p.defect = defect = Defect::SCRIPT;
                else { bad2 = (bad + 1 + rng.below(n - 1)) % n; }
            }
            p.bad_tx = int(bad);
        }
        // materialise in block order
        std::vector<CTransactionRef> txs;
        std::vector<std::vector<PoolCoin>> outs_of(recipes.size());
        CAmount fees = 0;
        int height = tip_height + 1;
        for (size_t t = 0; t < recipes.size(); ++t) {
            const Recipe& r = recipes[t];
            std::vector<PoolCoin> ins;
            for (auto& in : r.ins) ins.push_back(in.external ? in.coin : outs_of[in.tx].at(in.out));
            const bool is_bad = defect != Defect::NONE && defect != Defect::CBAMOUNT && t == bad;
            if (is_bad && defect == Defect::DOUBLE) {
                // an external coin already spent by an earlier transaction of this block
                std::vector<PoolCoin> earlier;
                for (size_t u = 0; u < t; ++u) for (auto& in : recipes[u].ins) if (in.external) earlier.push_back(in.coin);
                if (earlier.empty()) { p.defect = defect = Defect::MISSING; }
                else ins.push_back(earlier[rng.below(earlier.size())]);
            }
            if (is_bad && defect == Defect::IMMATURE) ins.push_back(BaseCoinbase(104 - int(rng.below(60)))); // 2..64 confirmations: immature
            if (is_bad && defect == Defect::MISSING) {
                // replace one input by an outpoint that never existed (anyone-can-spend witness, so only the lookup can fail)
                uint256 h;
                for (int i = 0; i < 4; ++i) { uint64_t v = rng.next(); memcpy(h.begin() + 8 * i, &v, 8); }
                size_t j = rng.below(ins.size());
                ins[j] = PoolCoin{COutPoint(Txid::FromUint256(h), uint32_t(rng.below(3))), RefCoin{ins[j].coin.value, P2WSH_OP_TRUE, 50, false}};
            }
            CAmount in_total = 0;
            for (auto& c : ins) in_total += c.coin.value;
            CAmount fee = in_total > 20000 ? CAmount(rng.below(3) * 500) : 0;
            CMutableTransaction tx;
            tx.version = 2;
            for (auto& c : ins) tx.vin.emplace_back(c.op);
            CAmount rest = in_total - fee;
            for (unsigned o = 0; o < r.nout; ++o) {
                CAmount v = (o + 1 == r.nout) ? rest : rest / CAmount(r.nout - o);
                rest -= v;
                tx.vout.emplace_back(v, OutScript());
            }
            if (is_bad && defect == Defect::BELOWOUT) { tx.vout.back().nValue += fee + 1; }
            Sign(tx, ins);
            if ((is_bad && IsScriptDefect(defect)) || (defect == Defect::SCRIPT2 && t == bad2)) {
                size_t j = (t == bad) ? s.index(tx.vin.size()) : rng.below(tx.vin.size());
                CorruptInput(tx, j, ins[j].coin, unsigned(rng.below(3)) + (t == bad ? 0u : 1u));
            }
            CTransactionRef ref = MakeTransactionRef(tx);
            for (uint32_t o = 0; o < tx.vout.size(); ++o) outs_of[t].push_back(PoolCoin{COutPoint(ref->GetHash(), o), RefCoin{tx.vout[o].nValue, tx.vout[o].scriptPubKey, height, false}});
            if (!(is_bad && defect == Defect::BELOWOUT)) fees += fee;
            p.nin += int(tx.vin.size());
            txs.push_back(ref);
        }
        BlockSpec spec;
        spec.prev = tip;
        spec.txs = txs;
        spec.fees = fees;
        if (defect == Defect::CBAMOUNT) spec.fees = fees + 1;
        spec.extra_nonce = 100 + blockno;
        p.block = sim.Build(spec);
        if (defect == Defect::NONE) {
            // the block is expected to connect: its unspent outputs and the untouched coins form the new pool
            std::set<COutPoint> spent_in_block;
            for (auto& tx : txs) for (auto& in : tx->vin) spent_in_block.insert(in.prevout);
            std::vector<PoolCoin> next;
            for (auto& c : avail) if (!spent_in_block.count(c.op)) next.push_back(c);
            for (auto& v : outs_of) for (auto& c : v) if (!spent_in_block.count(c.op)) next.push_back(c);
            avail = std::move(next);
            tip = p.block->GetHash();
            tip_height++;
        }
        return p;
    }
};

std::vector<BlockRes> Deliver(ChainSim& sim, const std::vector<Planned>& plan, bool register_blocks)
{
    std::vector<BlockRes> out;
    for (auto& pb : plan) {
        if (register_blocks) sim.Register(pb.block);
        BlockRes r;
        auto d = sim.Deliver(pb.block);
        r.connected = sim.TipHash() == pb.block->GetHash();
        r.have_verdict = d.verdict.has_value();
        if (d.verdict) {
            r.valid = d.verdict->IsValid();
            r.reason = d.verdict->GetRejectReason();
            r.script_cat = r.reason.rfind("block-script-verify-flag-failed", 0) == 0 || r.reason.rfind("mandatory-script-verify-flag-failed", 0) == 0;
        }
        r.utxo = sim.UtxoHash();
        out.push_back(r);
    }
    return out;
}

Cfg PickCfg(Src& s)
{
    Cfg c;
    c.workers = s.pick<int>({2, 1, 3, 4, 0, 8, 16});   // 16 is clamped by the node to MAX_SCRIPTCHECK_THREADS (15)
    c.fetchers = s.pick<int>({0, 2, 1, 3, 4, 8, 16});
    c.sched_thread = s.chance(40);
    if (c.workers == 0 && c.fetchers == 0) c.fetchers = 2;
    return c;
}

std::string Bucket(int n)
{
    if (n <= 1) return std::to_string(n);
    if (n <= 4) return "2-4";
    return "8+";
}

void Body(Src& s, Stats& st, bool tsan_variant)
{
    // -- configuration and schedule seed first (replay files carry them in their first bytes)
    Cfg a = PickCfg(s);
    uint64_t sched_seed = s.range<uint64_t>(0, UINT64_MAX);
    unsigned intensity = s.pick<unsigned>({24, 0, 6, 64, 160});
    bool second_cfg = s.chance(56) && !tsan_variant; // a node costs seconds under ThreadSanitizer: one threaded run + the reference
    Cfg c2 = second_cfg ? PickCfg(s) : Cfg{};
    // -- scenario shape
    unsigned nblocks = s.range<unsigned>(1, 3);
    unsigned fan = s.pick<unsigned>({12, 40, 6, 120, 260, 420});
    uint64_t bulk = s.range<uint64_t>(0, UINT64_MAX);

    std::vector<Planned> plan;
    std::vector<std::vector<BlockRes>> runs;
    std::vector<Cfg> cfgs{a};
    if (second_cfg) cfgs.push_back(c2);
    cfgs.push_back(Cfg{}); // serial reference, always last
    uint64_t hook_points = 0, yields = 0;
    for (size_t ci = 0; ci < cfgs.size(); ++ci) {
        const Cfg& cfg = cfgs[ci];
        ChainSimOpts o;
        o.worker_threads = cfg.workers;
        o.prevout_threads = cfg.fetchers;
        o.immediate_signals = !cfg.sched_thread;
        o.min_validation_cache = true; // fresh node: the caches are empty anyway (their behaviour is C13's); setting them up is slow under TSan
        auto t0 = std::chrono::steady_clock::now();
        auto sim = std::make_unique<ChainSim>(o);
        auto base = sim->LoadBase(104);
        auto t1 = std::chrono::steady_clock::now();
        if (ci == 0) {
            Planner pl{*sim, s, st, Rng{bulk}, {}, base.back(), 104, base};
            plan.push_back(pl.FanOut(fan));
            for (unsigned b = 0; b < nblocks; ++b) {
                unsigned target = s.pick<unsigned>({6, 3, 16, 40, 90, 200, 400});
                Defect d = s.pick<Defect>({Defect::NONE, Defect::SCRIPT, Defect::SCRIPT, Defect::NONE, Defect::MISSING, Defect::DOUBLE, Defect::SCRIPT2,
                                           Defect::IMMATURE, Defect::BELOWOUT, Defect::CBAMOUNT});
                unsigned pos_mode = s.range<unsigned>(0, 3);
                plan.push_back(pl.TestBlock(target, d, pos_mode, b));
            }
        }
        if (cfg.Threaded()) sched::Arm(sched_seed + ci, intensity);
        runs.push_back(Deliver(*sim, plan, /*register_blocks=*/ci != 0));
        if (cfg.Threaded()) {
            hook_points += sched::RepoPoints();
            yields += sched::Taken();
            sched::Disarm();
        }
        auto t2 = std::chrono::steady_clock::now();
        sim.reset(); // joins every worker; two nodes cannot coexist in one process
        if (getenv("VH_TIMING")) fprintf(stderr, "timing cfg=%s setup=%.3f plan+deliver=%.3f teardown=%.3f\n", cfg.Str().c_str(), std::chrono::duration<double>(t1 - t0).count(),
                                         std::chrono::duration<double>(t2 - t1).count(), std::chrono::duration<double>(std::chrono::steady_clock::now() - t2).count());
    }
    // -- oracle
    const auto& ref = runs.back();
    for (size_t i = 0; i < plan.size(); ++i) {
        const Planned& pb = plan[i];
        const bool expect_ok = pb.defect == Defect::NONE;
        st.steps++;
        VCHECK(ref[i].connected == expect_ok, "c14.generator-expectation", "serial run disagrees with the construction: block", i, DefectName(pb.defect),
               "connected", ref[i].connected, "reason", ref[i].reason);
        if (!expect_ok) {
            VCHECK(ref[i].have_verdict && !ref[i].valid && ref[i].script_cat == IsScriptDefect(pb.defect), "c14.generator-expectation",
                   "serial reject category is not the constructed one: block", i, DefectName(pb.defect), "reason", ref[i].reason);
        }
        for (size_t ci = 0; ci + 1 < runs.size(); ++ci) {
            const BlockRes& r = runs[ci][i];
            st.steps += 3;
            VCHECK(r.connected == ref[i].connected && r.have_verdict == ref[i].have_verdict && r.valid == ref[i].valid, "c14.verdict-differs", "block", i, "defect",
                   DefectName(pb.defect), "cfg", cfgs[ci].Str(), "connected", r.connected, "valid", r.valid, "reason", r.reason, "| serial connected", ref[i].connected,
                   "valid", ref[i].valid, "reason", ref[i].reason);
            VCHECK(r.script_cat == ref[i].script_cat, "c14.reason-category-differs", "block", i, "defect", DefectName(pb.defect), "cfg", cfgs[ci].Str(), "reason", r.reason,
                   "| serial", ref[i].reason);
            VCHECK(r.utxo == ref[i].utxo, "c14.utxo-differs", "block", i, "defect", DefectName(pb.defect), "cfg", cfgs[ci].Str(), r.utxo.ToString(), "| serial", ref[i].utxo.ToString());
            if (!ref[i].valid && r.reason == ref[i].reason) st.cls("reject-reason-identical");
            else if (!ref[i].valid) st.cls("reject-reason-string-differs(same category)");
        }
    }
    // -- accounting
    int maxw = 0, maxf = 0;
    for (size_t ci = 0; ci + 1 < cfgs.size(); ++ci) {
        maxw = std::max(maxw, cfgs[ci].workers);
        maxf = std::max(maxf, cfgs[ci].fetchers);
        st.cls("cfg workers=" + Bucket(cfgs[ci].workers) + " fetchers=" + Bucket(cfgs[ci].fetchers));
        if (cfgs[ci].sched_thread) st.cls("scheduler-thread");
        st.mix(uint64_t(cfgs[ci].workers * 32 + cfgs[ci].fetchers));
        st.note("cfg ", cfgs[ci].Str());
    }
    bool deep = false;
    for (size_t i = 1; i < plan.size(); ++i) {
        const Planned& pb = plan[i];
        st.cls(std::string("defect:") + DefectName(pb.defect));
        if (pb.bad_tx >= 0) st.cls(pb.bad_tx == 0 ? "defect-in-first-tx" : (pb.bad_tx == pb.ntx - 1 ? "defect-in-last-tx" : "defect-in-middle-tx"));
        if (pb.nin >= 128) st.cls("inputs>=128");
        if (pb.chained) st.cls("in-block-chain");
        if (pb.ntx >= 4 && (pb.defect == Defect::NONE || pb.defect == Defect::CBAMOUNT || pb.bad_tx >= 1)) deep = true;
        if (pb.ntx >= 4 && IsScriptDefect(pb.defect) && pb.bad_tx >= 1) st.cls("bad-script-after-first-batch");
        st.mix(uint64_t(pb.defect)); st.mix(uint64_t(std::min(pb.ntx, 64))); st.mix(uint64_t(pb.nin / 16));
        st.mix(uint64_t(pb.bad_tx < 0 ? 9 : (pb.bad_tx == 0 ? 0 : (pb.bad_tx == pb.ntx - 1 ? 2 : 1))));
        st.note("block ", i, ": ", DefectName(pb.defect), " ntx=", pb.ntx, " nin=", pb.nin, " chained=", pb.chained, " bad_tx=", pb.bad_tx, " -> serial ",
                ref[i].connected ? "connected" : ref[i].reason);
    }
    if (hook_points) st.cls("H1-points-hit");
    if (yields) st.cls("yield-taken");
    st.note("yields=", yields, " repo-points=", hook_points, " intensity=", intensity);
    // non-trivial: >= 2 script-check workers, a test block with >= 4 transactions that is valid or has its defect after the first
    // transaction (= after the first batch added to the check queue); when hook H1 is compiled in, at least one injected yield was taken.
    st.nontrivial = maxw >= 2 && deep && (!sched::HookAvailable() || intensity == 0 || yields > 0);
    if (maxw >= 2) st.cls("workers>=2");
    if (maxf >= 2) st.cls("fetchers>=2");
}

} // namespace

#define C14_RULE                                                                                                                                         \
    "fan-out block (6..420 outputs of 7 script templates) + 1..3 test blocks of 3..400 inputs (multi-input txs, in-block chains), each valid or with "    \
    "exactly one defect {one bad script at first/middle/last/any tx, two bad scripts, missing input, in-block double spend, immature coinbase, "         \
    "in<out, coinbase overpays}; delivered under (script workers, prevout fetchers) in {0,1,2,3,4,8,16}^2 x {scheduler thread} with seeded yield "        \
    "injection (hook H1 if present) and under the serial reference; oracle: same accept/reject, same reject category (script vs other), same "           \
    "hash_serialized after every block. non-trivial = >=2 script workers and a test block with >=4 txs that is valid or has its defect after the "       \
    "first tx (first batch), and (with H1) >=1 injected yield taken; distinct = configuration + per-block (defect, tx count, inputs/16, position)"

VERIF_TARGET(c14_parallel, nullptr, 44, 96, C14_RULE) { Body(s, st, false); }
// same body under another name: the ThreadSanitizer stage (build/tsan) keeps its own evidence entry, work directory and corpus
VERIF_TARGET(c14_parallel_tsan, nullptr, 44, 96, C14_RULE) { Body(s, st, true); }
