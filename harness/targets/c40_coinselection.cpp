// C40 — Coin selection returns a valid, sufficient subset of the offered coins.
// Oracle (all numbers come from the harness' own model of the pool: value, input size, own fee formula):
//   * every returned coin is one of the offered coins, at most once;
//   * the selection amount (effective value; raw value when the fee is subtracted from the outputs, as the callers do)
//     covers the target; BnB: does not exceed target + cost_of_change; CoinGrinder / SRD: covers the documented change budget;
//   * own weight (4 x input bytes) <= max_selection_weight;
//   * when BnB / CoinGrinder report a complete search (pools <= 16 groups): brute force over all 2^n subsets finds no subset
//     satisfying the same constraints with a strictly lower waste (documented formula) / strictly lower weight.
#include <engine/verif.h>

#include <consensus/amount.h>
#include <policy/feerate.h>
#include <policy/policy.h>
#include <primitives/transaction.h>
#include <random.h>
#include <uint256.h>
#include <util/translation.h>
#include <wallet/coinselection.h>

#include <algorithm>
#include <map>
#include <memory>
#include <set>
#include <vector>

using namespace wallet;

namespace {

/** own fee formula: rate is satoshi per 1000 vbytes, rounded up to the next satoshi */
int64_t ref_fee(int64_t rate_kvb, int64_t bytes)
{
    __int128 x = (__int128)rate_kvb * bytes;
    return int64_t((x + 999) / 1000);
}

struct MCoin {
    int64_t value{0};
    int bytes{0};
    int64_t fee{0};   //!< at the effective feerate
    int64_t ltfee{0}; //!< at the long-term feerate
    COutPoint op;
    size_t group{0};
    int64_t eff() const { return value - fee; }
};

struct MGroup {
    std::vector<size_t> coins; //!< indices into the coin table
    int64_t amount{0};         //!< selection amount (effective value, or raw value under subtract-fee-from-outputs)
    int64_t eff{0};
    int64_t weight{0};
    int64_t waste{0};          //!< sum(fee - long-term fee)
};

struct Pool {
    std::vector<MCoin> coins;
    std::vector<MGroup> groups;
    std::map<COutPoint, size_t> by_op;
};

constexpr size_t BF_MAX = 16;
// brute-force tables, allocated once per process (1<<16 entries each); contents are fully rewritten per use
std::vector<int64_t> g_amt, g_wgt, g_wst;

void fill_tables(const Pool& p)
{
    size_t n = p.groups.size();
    size_t N = size_t{1} << n;
    if (g_amt.size() < (size_t{1} << BF_MAX)) { g_amt.resize(size_t{1} << BF_MAX); g_wgt.resize(size_t{1} << BF_MAX); g_wst.resize(size_t{1} << BF_MAX); }
    g_amt[0] = g_wgt[0] = g_wst[0] = 0;
    for (size_t m = 1; m < N; ++m) {
        size_t low = size_t(__builtin_ctzll(m));
        size_t rest = m & (m - 1);
        g_amt[m] = g_amt[rest] + p.groups[low].amount;
        g_wgt[m] = g_wgt[rest] + p.groups[low].weight;
        g_wst[m] = g_wst[rest] + p.groups[low].waste;
    }
}

struct Picked {
    bool ok{false};
    std::string err;
    int64_t amount{0}, weight{0}, waste{0};
    size_t ncoins{0};
    uint32_t mask{0};       //!< groups touched
    bool whole_groups{true};
};

const int64_t RATES[] = {0, 1000, 1001, 2500, 3000, 10000, 10001, 30000, 30001, 100000, 999, 253};
const int BYTES[] = {68, 58, 91, 148, 41, 272, 69, 110, 1000};

} // namespace

namespace {
void run_case(verif::Src& s, verif::Stats& st, const int mode)
{
    const bool literal = mode == 1;      // compare with ALL feasible subsets
    const bool literal_tie = mode == 2;  // compare with the minimal feasible subsets, also in the tie-under-weight-limit corner
    // ------------------------------------------------------------------ parameters
    unsigned n = 1 + s.range<unsigned>(0, 19);
    bool sffo = s.chance(40);
    int64_t eff_rate = RATES[s.index(std::size(RATES))];
    if (s.chance(40)) eff_rate = s.range<int64_t>(0, 200000);
    unsigned lt_mode = s.range<unsigned>(0, 4); // 0: lower (high-fee regime) 1: equal 2: higher (low-fee regime) 3: independent 4: just below/above
    int64_t lt_rate = 0;
    switch (lt_mode) {
    case 0: lt_rate = eff_rate / 3; break;
    case 1: lt_rate = eff_rate; break;
    case 2: lt_rate = eff_rate * 3 + 1000; break;
    case 3: lt_rate = RATES[s.index(std::size(RATES))]; break;
    default: lt_rate = std::max<int64_t>(0, eff_rate + s.range<int>(-2, 2)); break;
    }
    int64_t unit = s.pick<int64_t>({1000, 1, 10, 100000, 1000000});
    const bool allow_ties = !s.chance(90); // tie-free pools: BnB optimality is comparable under a binding weight limit as well
    bool grid = allow_ties && !s.chance(80); // effective values are multiples of `unit` (ties / exact matches) vs raw values

    FastRandomContext rng{uint256{uint8_t(s.range<unsigned>(0, 255))}};
    CoinSelectionParams params{rng};
    params.m_effective_feerate = CFeeRate{eff_rate};
    params.m_long_term_feerate = CFeeRate{lt_rate};
    params.m_subtract_fee_outputs = sffo;

    // ------------------------------------------------------------------ pool
    Pool pool;
    std::vector<OutputGroup> positive, mixed;
    auto make_coin = [&](int64_t value, int bytes, size_t gi) {
        MCoin c;
        c.value = value; c.bytes = bytes; c.fee = ref_fee(eff_rate, bytes); c.ltfee = ref_fee(lt_rate, bytes); c.group = gi;
        uint256 h; // distinct deterministic outpoints
        uint32_t k = uint32_t(pool.coins.size() + 1);
        h.data()[0] = uint8_t(k); h.data()[1] = uint8_t(k >> 8); h.data()[31] = 0xc4;
        c.op = COutPoint(Txid::FromUint256(h), uint32_t(k % 3));
        pool.by_op[c.op] = pool.coins.size();
        pool.coins.push_back(c);
        return pool.coins.size() - 1;
    };
    std::vector<std::shared_ptr<COutput>> outputs;
    auto to_output = [&](const MCoin& c) {
        CTxOut txo(c.value, CScript() << OP_TRUE);
        return std::make_shared<COutput>(c.op, txo, /*depth=*/1, c.bytes, /*solvable=*/true, /*safe=*/true, /*time=*/0, /*from_me=*/false, params.m_effective_feerate);
    };
    bool any_clone = false, any_tie_diff_weight = false, any_multi = false;
    for (unsigned gi = 0; gi < n; ++gi) {
        MGroup g;
        unsigned ncoin = s.chance(40) ? s.range<unsigned>(2, 3) : 1;
        if (ncoin > 1) any_multi = true;
        for (unsigned k = 0; k < ncoin; ++k) {
            int bytes = BYTES[s.index(std::size(BYTES))];
            int64_t want; // desired selection amount of this coin (> 0, caller contract)
            unsigned vm = pool.coins.empty() ? 0 : s.range<unsigned>(0, 7);
            if (!allow_ties && (vm == 5 || vm == 6)) vm = 0;
            const MCoin* prev = pool.coins.empty() ? nullptr : &pool.coins[s.index(pool.coins.size())];
            if (vm == 5 && prev) { // exact clone
                bytes = prev->bytes; want = sffo ? prev->value : prev->eff(); any_clone = true;
            } else if (vm == 6 && prev) { // same amount, different size (tie broken by waste / weight)
                want = sffo ? prev->value : prev->eff(); if (bytes != prev->bytes) any_tie_diff_weight = true;
            } else if (vm == 7 && prev) { // near duplicate
                want = (sffo ? prev->value : prev->eff()) + s.range<int>(-1, 1);
            } else if (grid) {
                want = unit * (1 + s.range<int64_t>(0, 40));
            } else {
                want = 1 + s.range<int64_t>(0, unit * 64);
            }
            if (want < 1) want = 1;
            int64_t value = sffo ? want : want + ref_fee(eff_rate, bytes);
            size_t ci = make_coin(value, bytes, gi);
            g.coins.push_back(ci);
        }
        for (size_t ci : g.coins) {
            const MCoin& c = pool.coins[ci];
            g.eff += c.eff(); g.weight += 4 * int64_t(c.bytes); g.waste += c.fee - c.ltfee;
            g.amount += sffo ? c.value : c.eff();
        }
        pool.groups.push_back(g);
        OutputGroup og(params);
        for (size_t ci : g.coins) og.Insert(to_output(pool.coins[ci]), /*ancestors=*/0, /*cluster_count=*/0);
        // the pool the algorithms see must describe the same coins as the model (effective value = value - ceil(rate*size), weight = 4*size)
        st.steps++;
        VCHECK(og.GetSelectionAmount() == g.amount && og.m_weight == g.weight && og.fee - og.long_term_fee == g.waste && og.effective_value == g.eff,
               "c40.pool-accounting", "group", gi, "amount", og.GetSelectionAmount(), g.amount, "weight", og.m_weight, g.weight, "waste", og.fee - og.long_term_fee, g.waste);
        positive.push_back(og);
        mixed.push_back(og);
    }
    // Knapsack is called with the "mixed" groups, which may hold coins of non-positive effective value (spend.cpp: GroupOutputs / ChooseSelectionResult)
    std::vector<MGroup> mixed_extra;
    if (!sffo && eff_rate > 0 && s.chance(48)) {
        unsigned extra = s.range<unsigned>(1, 2);
        for (unsigned k = 0; k < extra; ++k) {
            int bytes = BYTES[s.index(std::size(BYTES))];
            int64_t fee = ref_fee(eff_rate, bytes);
            int64_t value = std::max<int64_t>(1, fee - s.range<int64_t>(0, std::min<int64_t>(fee, 50)));
            MGroup g;
            size_t ci = make_coin(value, bytes, pool.groups.size() + mixed_extra.size());
            g.coins.push_back(ci);
            const MCoin& c = pool.coins[ci];
            g.eff = c.eff(); g.amount = c.eff(); g.weight = 4 * int64_t(c.bytes); g.waste = c.fee - c.ltfee;
            mixed_extra.push_back(g);
            OutputGroup og(params);
            og.Insert(to_output(c), 0, 0);
            mixed.push_back(og);
        }
        st.cls("knapsack-nonpositive-coins");
    }

    bool amount_tie = false;
    {
        std::set<int64_t> amts;
        for (auto& g : pool.groups) if (!amts.insert(g.amount).second) amount_tie = true;
    }
    auto dump_pool = [&]() {
        std::string d;
        for (size_t gi = 0; gi < pool.groups.size(); ++gi) {
            d += strprintf(" g%u[", gi);
            for (size_t ci : pool.groups[gi].coins) d += strprintf("amt=%d size=%d fee=%d ltfee=%d;", sffo ? pool.coins[ci].value : pool.coins[ci].eff(), pool.coins[ci].bytes, pool.coins[ci].fee, pool.coins[ci].ltfee);
            d += "]";
        }
        return d;
    };
    int64_t total_amount = 0, total_weight = 0;
    for (auto& g : pool.groups) { total_amount += g.amount; total_weight += g.weight; }

    // ------------------------------------------------------------------ constraints
    int change_output_size = s.pick<int>({31, 43, 22, 34, 32});
    int change_spend_size = s.pick<int>({68, 58, 91, 148});
    int64_t change_fee = ref_fee(eff_rate, change_output_size);
    int64_t discard_rate = s.pick<int64_t>({3000, 10000, 1000});
    int64_t cost_of_change;
    switch (s.range<unsigned>(0, 4)) {
    case 0: cost_of_change = change_fee + ref_fee(discard_rate, change_spend_size); break; // as CreateTransactionInternal computes it
    case 1: cost_of_change = 0; break;
    case 2: cost_of_change = unit; break;
    case 3: cost_of_change = unit * s.range<int64_t>(1, 5) - 1; break;
    default: cost_of_change = s.range<int64_t>(0, 3 * unit); break;
    }
    int64_t change_target;
    switch (s.range<unsigned>(0, 4)) {
    case 0: change_target = CHANGE_LOWER + change_fee; break;
    case 1: change_target = change_fee + CHANGE_LOWER + s.range<int64_t>(0, CHANGE_UPPER - CHANGE_LOWER); break;
    case 2: change_target = unit * s.range<int64_t>(0, 6); break;
    case 3: change_target = 1; break;
    default: change_target = s.range<int64_t>(0, std::max<int64_t>(1, total_amount / 2)); break;
    }
    // target
    uint32_t seed_mask = 0;
    int64_t seed_amount = 0, seed_weight = 0;
    for (unsigned gi = 0; gi < n; ++gi) if (s.chance(110)) { seed_mask |= 1u << gi; seed_amount += pool.groups[gi].amount; seed_weight += pool.groups[gi].weight; }
    if (seed_mask == 0) { seed_mask = 1; seed_amount = pool.groups[0].amount; seed_weight = pool.groups[0].weight; }
    int64_t target;
    unsigned tmode = s.range<unsigned>(0, 9);
    const int64_t srd_budget = CHANGE_LOWER + change_fee;
    switch (tmode) {
    case 0: target = seed_amount; break;
    case 1: target = seed_amount - cost_of_change; break;
    case 2: target = seed_amount - cost_of_change + s.range<int>(-1, 1); break;
    case 3: target = seed_amount - change_target + s.range<int>(-1, 1); break;
    case 4: target = seed_amount + s.range<int>(-2, 2); break;
    case 5: target = total_amount + s.range<int>(-2, 2); break;
    case 6: target = total_amount - cost_of_change + s.range<int>(-1, 1); break;
    case 7: target = total_amount - s.pick<int64_t>({change_target, srd_budget}) + s.range<int>(-1, 1); break;
    case 8: target = seed_amount - srd_budget + s.range<int>(-1, 1); break;
    default: target = 1 + s.range<int64_t>(0, std::max<int64_t>(1, total_amount)); break;
    }
    if (target < 1) target = 1 + s.range<int64_t>(0, std::max<int64_t>(1, total_amount / 2));
    int64_t max_weight;
    unsigned wmode = s.range<unsigned>(0, 5);
    switch (wmode) {
    case 0: case 1: max_weight = MAX_STANDARD_TX_WEIGHT - 4 * 200; break; // not binding for these pools
    case 2: max_weight = seed_weight; break;
    case 3: max_weight = seed_weight + 4 * s.range<int>(-30, 30); break;
    case 4: max_weight = total_weight * s.range<int>(1, 9) / 10; break;
    default: max_weight = total_weight - 1; break;
    }
    if (max_weight < 1) max_weight = 1; // ChooseSelectionResult refuses max_selection_weight <= 0 before calling any algorithm
    const bool weight_binding = max_weight < total_weight;

    const char* regime = eff_rate == 0 ? "feerate-zero" : eff_rate > lt_rate ? "feerate-high" : eff_rate == lt_rate ? "feerate-equal" : "feerate-low";
    st.cls(regime);
    if (sffo) st.cls("subtract-fee-outputs");
    if (weight_binding) st.cls("weight-binding");
    if (any_clone) st.cls("pool-has-clones");
    if (any_tie_diff_weight) st.cls("pool-has-equal-amount-different-size");
    if (any_multi) st.cls("pool-has-multi-coin-groups");
    if (n > BF_MAX) st.cls("pool>16-no-bruteforce");
    st.note("n=", n, " sffo=", sffo, " eff_rate=", eff_rate, " lt_rate=", lt_rate, " unit=", unit, " target=", target, " coc=", cost_of_change,
            " change_target=", change_target, " change_fee=", change_fee, " max_weight=", max_weight, " total=", total_amount, "/", total_weight);
    if (st.want_sample) {
        st.note("pool=", dump_pool());
    }
    st.mix(uint64_t(n)); st.mix(std::string(regime)); st.mix(uint64_t(sffo)); st.mix(uint64_t(tmode)); st.mix(uint64_t(wmode)); st.mix(uint64_t(weight_binding));

    const bool bf = n <= BF_MAX;
    if (bf) fill_tables(pool);
    const size_t N = bf ? (size_t{1} << n) : 0;

    // ------------------------------------------------------------------ decode a result against the model
    auto decode = [&](const util::Result<SelectionResult>& r, const char* algo) {
        Picked p;
        if (!r) { p.err = util::ErrorString(r).original; return p; }
        p.ok = true;
        std::set<size_t> seen;
        std::map<size_t, size_t> per_group;
        for (const auto& c : r->GetInputSet()) {
            auto it = pool.by_op.find(c->outpoint);
            st.steps++;
            VCHECK(it != pool.by_op.end(), "c40.subset", algo, "returned a coin that was not offered:", c->outpoint.ToString());
            const MCoin& m = pool.coins[it->second];
            VCHECK(c->txout.nValue == m.value && c->input_bytes == m.bytes, "c40.subset", algo, "returned coin differs from the offered one", c->outpoint.ToString());
            VCHECK(seen.insert(it->second).second, "c40.subset", algo, "coin returned twice", c->outpoint.ToString());
            p.amount += sffo ? m.value : m.eff();
            p.weight += 4 * int64_t(m.bytes);
            p.waste += m.fee - m.ltfee;
            p.ncoins++;
            per_group[m.group]++;
            if (m.group < 32) p.mask |= 1u << m.group;
        }
        VCHECK(p.ncoins > 0, "c40.subset", algo, "success with an empty selection");
        for (auto& [gi, cnt] : per_group) {
            size_t sz = gi < pool.groups.size() ? pool.groups[gi].coins.size() : 1;
            if (cnt != sz) p.whole_groups = false;
        }
        return p;
    };
    auto common_checks = [&](const Picked& p, const char* algo, int64_t need, const char* need_what) {
        st.steps++;
        VCHECK(p.amount >= target, "c40.sufficient", algo, "selected amount", p.amount, "< target", target);
        VCHECK(p.amount >= need, "c40.change-budget", algo, "selected amount", p.amount, "<", need_what, need);
        VCHECK(p.weight <= max_weight, "c40.weight", algo, "selection weight", p.weight, "> max_selection_weight", max_weight);
    };
    bool compared = false;
    uint64_t feasible_bucket = 0;

    // ------------------------------------------------------------------ BnB (never called under subtract-fee-from-outputs)
    if (!sffo) {
        std::vector<OutputGroup> in = positive;
        auto r = SelectCoinsBnB(in, target, cost_of_change, int(max_weight));
        Picked p = decode(r, "bnb");
        st.mix(uint64_t(p.ok)); st.mix(uint64_t(p.ncoins));
        if (p.ok) {
            st.cls("bnb-success");
            common_checks(p, "bnb", target, "target");
            st.steps++;
            VCHECK(p.amount <= target + cost_of_change, "c40.bnb-upper", "selected amount", p.amount, "> target + cost_of_change", target + cost_of_change);
            if (p.amount == target) st.cls("bnb-exact-match");
            if (p.amount == target + cost_of_change && cost_of_change > 0) st.cls("bnb-at-upper-bound");
            bool complete = r->GetAlgoCompleted();
            st.cls(complete ? "bnb-complete" : "bnb-incomplete");
            if (complete && bf) {
                // waste per the documented formula for a changeless selection: sum(fee - long_term_fee) + (selected - target)
                int64_t got = p.waste + (p.amount - target);
                // `best`: over every feasible subset (literal statement). `best_min`: over the feasible subsets none of whose proper subsets is
                // feasible -- the candidates BnB is designed to look at ("adding more UTXOs ... cannot be better": a superset of a solution is
                // never evaluated; upstream's own bnb_finds_min_waste fuzz target defines the optimum the same way). All amounts are > 0, so a
                // feasible subset has a feasible proper subset iff dropping its smallest member still covers the target.
                int64_t best = INT64_MAX, best_min = INT64_MAX; size_t best_mask = 0, best_min_mask = 0; uint64_t feasible = 0, minimal = 0;
                for (size_t m = 1; m < N; ++m) {
                    if (g_amt[m] < target || g_amt[m] > target + cost_of_change || g_wgt[m] > max_weight) continue;
                    feasible++;
                    int64_t w = g_wst[m] + (g_amt[m] - target);
                    if (w < best) { best = w; best_mask = m; }
                    int64_t smallest = INT64_MAX;
                    for (unsigned gi = 0; gi < n; ++gi) if ((m >> gi) & 1) smallest = std::min(smallest, pool.groups[gi].amount);
                    if (g_amt[m] - smallest >= target) continue;
                    minimal++;
                    if (w < best_min) { best_min = w; best_min_mask = m; }
                }
                st.steps++;
                VCHECK(feasible > 0 && p.whole_groups, "c40.bnb-upper", "result is not one of the brute-force feasible subsets");
                if (literal) {
                    VCHECK(best_min >= got, "c40.bnb-optimal-literal", "complete search but minimal subset mask", best_min_mask, "has waste", best_min, "< returned waste", got,
                           "returned mask", p.mask, "eff_rate", eff_rate, "lt_rate", lt_rate, "target", target, "coc", cost_of_change, "max_weight", max_weight, best_min < got ? dump_pool() : std::string());
                    VCHECK(best >= got, "c40.bnb-optimal-literal", "complete search but subset mask", best_mask, "has waste", best, "< returned waste", got,
                           "returned mask", p.mask, "feasible", feasible, "eff_rate", eff_rate, "lt_rate", lt_rate, "target", target, "coc", cost_of_change, "max_weight", max_weight, best < got ? dump_pool() : std::string());
                }
                // Second documented limit of the design: BnB skips a UTXO whose predecessor in its sort order (same amount, lower-or-equal waste) was
                // omitted ("equivalent or worse"). That equivalence ignores weight, so when the weight limit binds AND two groups tie on the amount the
                // skipped combination can be the only weight-feasible one. The comparison is made only outside that corner (see c40_bnb_literal).
                const bool tie_corner = weight_binding && amount_tie;
                if (tie_corner) st.cls("bnb-tie-under-weight-limit-not-compared");
                if (literal_tie) {
                    VCHECK(best_min >= got, "c40.bnb-optimal-literal", "complete search but minimal subset mask", best_min_mask, "has waste", best_min, "< returned waste", got,
                           "returned mask", p.mask, "eff_rate", eff_rate, "lt_rate", lt_rate, "target", target, "coc", cost_of_change, "max_weight", max_weight, best_min < got ? dump_pool() : std::string());
                }
                VCHECK(literal || literal_tie || tie_corner || best_min >= got, "c40.bnb-optimal", "complete search but subset mask", best_min_mask, "has waste", best_min, "< returned waste", got,
                       "returned mask", p.mask, "feasible", feasible, "minimal", minimal,
                       "eff_rate", eff_rate, "lt_rate", lt_rate, "target", target, "coc", cost_of_change, "max_weight", max_weight, best_min < got ? dump_pool() : std::string());
                if (best < got) st.cls("bnb-superset-would-be-cheaper"); // informational, see c40_bnb_literal
                feasible = minimal;
                if (feasible >= 2 && n >= 4 && !tie_corner) { compared = true; st.cls("bnb-bruteforce-compared"); }
                if (feasible >= 2 && weight_binding && !tie_corner) st.cls("bnb-compared-weight-binding");
                feasible_bucket = feasible >= 64 ? 4 : feasible >= 8 ? 3 : feasible >= 2 ? 2 : 1;
                st.note("bnb ok waste=", got, " best=", best, " feasible=", feasible, " mask=", p.mask);
            }
        } else {
            st.cls(p.err.empty() ? "bnb-no-solution" : "bnb-error-maxweight");
            if (bf) {
                bool exists = false;
                for (size_t m = 1; m < N && !exists; ++m) exists = g_amt[m] >= target && g_amt[m] <= target + cost_of_change && g_wgt[m] <= max_weight;
                if (exists) st.cls("bnb-miss-though-feasible"); // informational: the statement only speaks about returned selections
            }
            st.note("bnb fail '", p.err, "'");
        }
    }

    // ------------------------------------------------------------------ CoinGrinder
    {
        std::vector<OutputGroup> in = positive;
        auto r = CoinGrinder(in, target, change_target, int(max_weight));
        Picked p = decode(r, "cg");
        st.mix(uint64_t(p.ok)); st.mix(uint64_t(p.ncoins));
        if (p.ok) {
            st.cls("cg-success");
            common_checks(p, "cg", target + change_target, "target + change_target");
            bool complete = r->GetAlgoCompleted();
            st.cls(complete ? "cg-complete" : "cg-incomplete");
            if (complete && bf) {
                int64_t best = INT64_MAX; size_t best_mask = 0; uint64_t feasible = 0;
                for (size_t m = 1; m < N; ++m) {
                    if (g_amt[m] < target + change_target || g_wgt[m] > max_weight) continue;
                    feasible++;
                    if (g_wgt[m] < best) { best = g_wgt[m]; best_mask = m; }
                }
                st.steps++;
                VCHECK(best >= p.weight, "c40.cg-optimal", "complete search but subset mask", best_mask, "has weight", best, "< returned weight", p.weight,
                       "returned mask", p.mask, "feasible", feasible, "target", target, "change_target", change_target, "max_weight", max_weight, best < p.weight ? dump_pool() : std::string());
                if (feasible >= 2 && n >= 4) { compared = true; st.cls("cg-bruteforce-compared"); }
                if (feasible >= 2 && weight_binding) st.cls("cg-compared-weight-binding");
                feasible_bucket = feasible_bucket * 8 + (feasible >= 64 ? 4 : feasible >= 8 ? 3 : feasible >= 2 ? 2 : 1);
                st.note("cg ok weight=", p.weight, " best=", best, " feasible=", feasible, " mask=", p.mask);
            }
        } else {
            st.cls(p.err.empty() ? "cg-no-solution" : "cg-error-maxweight");
            st.note("cg fail '", p.err, "'");
        }
    }

    // ------------------------------------------------------------------ SRD
    {
        FastRandomContext r2{uint256{uint8_t(s.range<unsigned>(0, 255))}};
        auto r = SelectCoinsSRD(positive, target, change_fee, r2, int(max_weight));
        Picked p = decode(r, "srd");
        st.mix(uint64_t(p.ok));
        if (p.ok) {
            st.cls("srd-success");
            common_checks(p, "srd", target + srd_budget, "target + CHANGE_LOWER + change_fee");
            st.note("srd ok amount=", p.amount, " weight=", p.weight, " coins=", p.ncoins);
        } else {
            st.cls(p.err.empty() ? "srd-no-solution" : "srd-error-maxweight");
        }
    }

    // ------------------------------------------------------------------ Knapsack (mixed groups)
    {
        std::vector<OutputGroup> in = mixed;
        FastRandomContext r3{uint256{uint8_t(s.range<unsigned>(0, 255))}};
        auto r = KnapsackSolver(in, target, change_target, r3, int(max_weight));
        Picked p = decode(r, "knapsack");
        st.mix(uint64_t(p.ok));
        if (p.ok) {
            st.cls("knapsack-success");
            common_checks(p, "knapsack", target, "target");
            if (p.amount == target) st.cls("knapsack-exact-match");
            st.note("knapsack ok amount=", p.amount, " weight=", p.weight, " coins=", p.ncoins);
        } else {
            st.cls(p.err.empty() ? "knapsack-no-solution" : "knapsack-error-maxweight");
        }
    }

    st.nontrivial = compared;
    st.mix(feasible_bucket);
}
} // namespace

VERIF_TARGET(c40_coinselection, nullptr, 24, 420,
             "pools of 1-20 OutputGroups (1-3 coins each; effective values on a small grid so that ties, clones, exact matches and equal-value/"
             "different-weight pairs are common; positive effective values as the callers guarantee, a few non-positive ones only in Knapsack's mixed pool), "
             "feerate regimes (effective >, =, < long-term, 0), targets derived from a random subset's sum +- {0,1,cost_of_change,change_target} or the pool "
             "total, max weights binding or not; all four algorithms run on copies of the pool; brute force over 2^n subsets (n<=16) for BnB/CoinGrinder "
             "optimality. BnB optimality is judged against the subsets BnB is designed to consider (feasible subsets none of whose proper subsets is feasible, see the note in the file header). non-trivial = a completed BnB or CoinGrinder search on >=4 groups was compared against brute force with >=2 feasible subsets; "
             "distinct = (n, feerate regime, constraint modes, per-algorithm outcome, number of feasible subsets bucket, selected-set size)")
{
    run_case(s, st, /*mode=*/0);
}

// Not registered in bin/props.d/C40.py: the literal reading of the statement ("no other subset satisfying the same constraints has a strictly lower
// waste") including supersets of feasible subsets. Kept to reproduce the documented deviation (corpus/C40/findings/).
VERIF_TARGET(c40_bnb_literal, nullptr, 24, 420,
             "same generator as c40_coinselection; BnB optimality compared against ALL feasible subsets (including supersets of a feasible subset). "
             "Fails on the unchanged tree in the low-feerate regime: see corpus/C40/SENSITIVITY.md")
{
    run_case(s, st, /*mode=*/1);
}

// Not registered either: only the second deviation (equal-amount groups skipped although the weight limit makes them non-equivalent).
VERIF_TARGET(c40_bnb_tie_literal, nullptr, 24, 420,
             "same generator as c40_coinselection; BnB optimality against the minimal feasible subsets WITHOUT excluding the corner 'weight limit binds and two "
             "groups tie on the amount'. Fails on the unchanged tree: see corpus/C40/SENSITIVITY.md")
{
    run_case(s, st, /*mode=*/2);
}
