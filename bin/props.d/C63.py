# C63: stage list (what ./check C63 quick|thorough runs) and manifest text. Helpers gen()/enum()/hyp()/custom() come from props.py.
SPEC = {'level': 'exploration',
 'assumptions': ['the subscriber is registered on a quiescent node (queue drained) and the history is replayed from that state',
                 'node is out of initial block download (mock clock near the tip): in IBD removed-for-block notifications are suppressed by design',
                 'the tips the node announces synchronously through the kernel blockTip notification (uiInterface.NotifyBlockTip) are taken as the independent '
                 'record of actual tip changes at step boundaries; intermediate tips inside one activation step are only checked through replay consistency and the final tip',
                 'callbacks are delivered by the production path (CScheduler thread + SerialTaskRunner) in 5/6 of the cases; only harness-owned, seeded schedules are explored'],
 'stages': [gen('vh_c63', 'c63_signals', 240, 9000, min_cases_quick=80, replays_needed=2, replays_total=5,
                floors={'scheduler-thread': 0.6, 'reorg': 0.2, 'reorg-depth>=2': 0.1, 'tx-removed': 0.2, 'tx-removed-for-block': 0.2, 'bad-branch-detour': 0.05},
                rule='histories with reorgs and pool churn; non-trivial = scheduler-thread delivery, replayed reorg of depth>=2, >=1 addition and >=1 removal reported'),
            gen('vh_c63', 'c63_signals_tsan', 16, 1600, cfg='tsan', workers_quick=4, workers_thorough=8, min_cases_quick=4, replays_needed=2, replays_total=5,
                rule='same target in the ThreadSanitizer build (any TSan / lock-order report is a failure)')]}

# ThreadSanitizer stages: they need the tsan tree (build/tsan). bin/setup.sh builds only the san tree and check.py configures/builds a stage's tree on
# demand through its 'cfg' - a cold tsan tree costs 10+ minutes, which a quick tier cannot afford. So the tsan stages run in the THOROUGH tier;
# `VERIF_TSAN_QUICK=1 ./check CNN quick` runs them in the quick tier as well (sized for it: few cases, 4 workers). check.py builds the tree of every
# listed stage whatever its tier, hence the stages are removed from the list (not just tier-tagged) for a plain quick run.
# VERIF_NO_TSAN=1 drops them always (sensitivity runs of mutants that only the differential/log oracle can see).
import os as _os
import sys as _sys
_tier = _sys.argv[2] if len(_sys.argv) > 2 else ''
if _os.environ.get('VERIF_NO_TSAN') or (_tier == 'quick' and not _os.environ.get('VERIF_TSAN_QUICK')):
    SPEC['stages'] = [_st for _st in SPEC['stages'] if _st.get('cfg') != 'tsan']
elif not _os.environ.get('VERIF_TSAN_QUICK'):
    for _st in SPEC['stages']:
        if _st.get('cfg') == 'tsan':
            _st['tiers'] = ('thorough',)

META = {'level_text': 'Generated histories (mempool submissions incl. chains and replacements, blocks mined from pool subsets with conflicting transactions, overtaking branches of '
               'depth 1-3, branches with an invalid last block, InvalidateBlock/reconsider) run on a real in-process regtest node whose validation callbacks are delivered '
               'by the scheduler thread. A recording subscriber logs every callback; after each operation the log is replayed: connections/disconnections must apply in '
               'order and end at the active tip, pass through every tip the node announced synchronously, UpdatedBlockTip must arrive at its tip, every removal must name '
               'a transaction reported added and not yet removed, the replayed pool must equal the real pool, and all reported blocks/transactions must be byte-identical '
               'to the delivered ones. The same target runs in a ThreadSanitizer build.',
 'technique': 'stateful property-based testing: operation histories, recorded notification log replayed against the observed node state (history invariant)',
 'level_note': 'Exploration over bounded histories (<= 30 operations). Only harness-owned, seeded schedules (thread configuration, seeded yields in the callbacks and, with hook '
               'H1, inside the repo worker loops) are explored; absence of races is evidence from ThreadSanitizer on the executed runs, not a guarantee.'}
