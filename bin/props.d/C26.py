# C26: stage list (what ./check C26 quick|thorough runs) and manifest text. Helpers gen()/enum()/hyp()/custom() come from props.py.
SPEC = {'level': 'exploration',
 'assumptions': ['only-if statement: a rejection of a candidate that satisfies every model rule is counted (class conservative-rejection), never flagged',
                 'modified fee = own fee (inputs - outputs by the RefLedger UTXO model / parent outputs) + the PrioritiseTransaction deltas the harness applied itself',
                 'incremental relay fee for a size = ceil(rate * vsize / 1000) as documented in policy/feerate.h (rate 100 or 1000 sat/kvB, set by the harness); '
                 'vsize = ceil(max(weight, 20 * sigop cost) / 4) with the weight recomputed from the serialization',
                 'the TRUC sibling is part of the expected eviction set exactly when it actually left the pool (the statement allows "an evicted TRUC sibling"); whether a '
                 'sibling MUST be evicted is TRUC topology (C27), not judged here',
                 'diagram clause judged only when every affected cluster before and after is a path (unique topological order, so the chunking does not depend on the '
                 'linearizer); compared on the affected clusters with exact 128-bit arithmetic; flagged only if the diagram fails to strictly improve both in weight '
                 'units (the unit the mempool uses) and in vsize units',
                 'default 300 MB mempool and no clock advance inside a case, so nothing leaves the pool for size/expiry reasons; a package is judged as one event '
                 '(sum of its individually accepted replacements), which is implied by the per-event rules',
                 'test-accept is not judged here (C28)'],
 'stages': [gen('vh_c26', 'c26_rbf', 640, 10000, min_cases_quick=250,
                floors={'accepted-replacement': 0.5, 'accepted:evicted>=2': 0.3, 'accepted:direct-conflicts>=2': 0.08, 'accepted:sibling-eviction': 0.05,
                        'accepted:package-rbf': 0.04, 'accepted:prioritised-victim': 0.1, 'accepted:prioritised-candidate': 0.05, 'accepted:diagram-decidable': 0.4,
                        'fee=thr-1:rejected': 0.3, 'fee=thr:accepted': 0.15, 'fee=thr+1:accepted': 0.12, 'rejected:diagram-only': 0.25, 'rejected:spends-evicted': 0.2,
                        'rejected:fee-rule': 0.4},
                rule='pool of 3-14 txs then 3-10 replacement attempts at the model fee threshold +-1 / diagram threshold; non-trivial = accepted replacement evicting >=2 '
                     'and a rule-violating candidate rejected'),
            gen('vh_c26', 'c26_cluster_limit', 64, 960, min_cases_quick=32,
                floors={'clusters>100': 0.15, 'clusters==100': 0.15, 'accepted': 0.3},
                rule='candidate double-spending 98-103 independent pool transactions (100-cluster limit), 101 conflicts in 100 clusters; non-trivial = >=99 clusters touched')]}

META = {'level_text': 'Generated mempool states on a real in-process regtest node and generated replacement candidates (single transactions, TRUC sibling evictions, '
               '1-parent-1-child packages) with fees placed at the model thresholds +-1; every submission is judged by an independent model of the statement: '
               'evicted set == direct conflicts (+ evicted sibling) and descendants recomputed from the inputs, reported replaced list == what left the pool, fee rule with '
               'recomputed modified fees, no spend of an evicted output, <= 100 conflicted clusters (own union-find), and strict diagram improvement where the diagram is '
               'linearization-independent. Exploration over bounded pools (<= ~25 entries; 100-106 for the cluster-limit stage).',
 'technique': 'stateful property-based testing: generated mempool histories + boundary-targeted candidates vs an independent rule model (only-if oracle)',
 'level_note': 'trusted base: MempoolSim/RefLedger kit (own UTXO/fee model), ModelPool (links from inputs), 128-bit integer diagram comparison; the diagram clause is '
               'not judged for tree/DAG-shaped clusters'}
