// C06 — Accepted blocks have the required structure and respect resource limits.
// Oracle: own calculators (kits/consensus_ref: RefTxSigOpCost = Satoshi legacy rule x4 + BIP16 accurate P2SH x4 + BIP141 witness x1;
// RefBlockWeight / RefBlockStrippedSize from the fields) and an own structure/BIP34 predicate decide: accept iff weight <= 4,000,000,
// stripped size*4 <= 4,000,000, sigop cost <= 80,000, exactly one coinbase and it is first, scriptSig starts with the minimal height push.
// Blocks are tuned to limit+-delta with the reference calculators; verdict from TestBlockValidity (sample through ProcessNewBlock).
#include <engine/verif.h>
#include <kits/chainsim.h>
#include <kits/consensus_ref.h>

#include <addresstype.h>
#include <test/util/script.h>

using namespace verif;
using namespace verif::cref;

namespace {

CScript S(const Bytes& b) { return CScript(b.begin(), b.end()); }

enum CarrierKind { K_P2SH, K_P2WSH, K_P2SH_P2WSH, K_BARE, K_P2WPKH, K_P2SH_P2WPKH, K_NKINDS };
const char* KIND_NAME[] = {"p2sh", "p2wsh", "p2sh-p2wsh", "scriptsig", "p2wpkh", "p2sh-p2wpkh"};

struct Carrier {
    CarrierKind kind;
    CScript spk;
    Bytes script;   //!< redeem script / witness script / scriptSig (by kind)
    Bytes redeem;   //!< P2SH-wrapped witness program (K_P2SH_P2WSH)
    COutPoint op;
    CAmount value{0};
    size_t key{0};
};

/** random opcode soup around the sigop opcodes, generated as runs (few choice bytes per script); decoys (sigop bytes inside pushes,
 *  OP_0 / OP_1NEGATE before CHECKMULTISIG) included */
Bytes sigop_body(Src& s, unsigned max_runs, unsigned max_nonpush, size_t max_bytes)
{
    Bytes b;
    unsigned nonpush = 0;
    unsigned runs = s.range<unsigned>(0, max_runs);
    for (unsigned r = 0; r < runs; ++r) {
        unsigned item = s.range<unsigned>(0, 8);
        unsigned rep = s.range<unsigned>(1, 40);
        for (unsigned i = 0; i < rep && nonpush < max_nonpush && b.size() + 12 < max_bytes; ++i) {
            switch (item) {
            case 0: case 1: b.push_back(0xac); nonpush++; break;
            case 2: b.push_back(0xad); nonpush++; break;
            case 3: b.push_back(0xae); nonpush++; break;
            case 4: b.push_back(uint8_t(0x51 + (i + rep) % 16)); b.push_back((i & 1) ? 0xaf : 0xae); nonpush++; break;
            case 5: { unsigned k = 1 + (i + rep) % 8; b.push_back(uint8_t(k)); for (unsigned j = 0; j < k; ++j) b.push_back((j & 1) ? 0xac : 0xae); break; }
            case 6: b.push_back(0x61); nonpush++; break;
            case 7: b.push_back(0x00); b.push_back(0xae); nonpush++; break;
            default: b.push_back(0x4f); b.push_back(0xae); nonpush++; break; // OP_1NEGATE before CHECKMULTISIG: not OP_1..OP_16
            }
        }
    }
    return b;
}
/** OP_0 OP_IF <body> OP_ENDIF [OP_1]: the body is never executed but statically counted */
Bytes wrap_unexecuted(const Bytes& body, bool leave_true)
{
    Bytes r{0x00, 0x63};
    r.insert(r.end(), body.begin(), body.end());
    r.push_back(0x68);
    if (leave_true) r.push_back(0x51);
    return r;
}
/** tuner witness script: drops an optional padding item, then r never-executed CHECKSIGs */
Bytes tuner_script(unsigned r)
{
    Bytes w{0x74, 0x63, 0x75, 0x68}; // OP_DEPTH OP_IF OP_DROP OP_ENDIF
    Bytes body(r, 0xac);
    Bytes rest = wrap_unexecuted(body, true);
    w.insert(w.end(), rest.begin(), rest.end());
    return w;
}
/** legacy output script holding exactly `n` legacy sigops, in a random spelling, with uncounted decoys */
Bytes legacy_sigops_script(Src& s, unsigned n)
{
    Bytes b;
    unsigned form = s.range<unsigned>(0, 3);
    if (form == 1) b.push_back(0x6a);                             // after OP_RETURN: still counted by the static scan
    if (form == 2) { b.push_back(0x03); b.push_back(0xac); b.push_back(0xae); b.push_back(0xad); } // sigop bytes inside a push: not counted
    bool multisig = s.boolean();
    unsigned mix = s.range<unsigned>(0, 3); // spelling pattern (few choice bytes even for 20,000 sigops)
    unsigned left = n;
    if (multisig) { while (left >= 20) { b.push_back((mix & 1) && (left % 40 == 0) ? 0xaf : 0xae); left -= 20; } }
    while (left > 0) { b.push_back((mix & 2) && (left % 3 == 0) ? 0xad : 0xac); left--; }
    if (form == 3 || s.chance(64)) { b.push_back(0x4c); b.push_back(0x20); b.push_back(0xac); b.push_back(0xac); } // truncated push at the end: scan stops, bytes not counted
    return b;
}
/** minimal BIP34 height push, written from BIP34 / CScriptNum rules: little-endian magnitude, sign bit needs an extra byte; heights 1..16 use OP_n */
Bytes ref_bip34_prefix(int h)
{
    Bytes b;
    if (h >= 1 && h <= 16) { b.push_back(uint8_t(0x50 + h)); return b; }
    Bytes num;
    int v = h;
    while (v > 0) { num.push_back(uint8_t(v & 0xff)); v >>= 8; }
    if (!num.empty() && (num.back() & 0x80)) num.push_back(0x00);
    b.push_back(uint8_t(num.size()));
    b.insert(b.end(), num.begin(), num.end());
    return b;
}
bool ref_is_coinbase(const CTransaction& tx)
{
    if (tx.vin.size() != 1) return false;
    const uint256& h = tx.vin[0].prevout.hash.ToUint256();
    for (const unsigned char* c = h.begin(); c != h.end(); ++c) if (*c) return false;
    return tx.vin[0].prevout.n == 0xffffffffu;
}

struct RefBlockVerdict {
    std::set<std::string> reasons; //!< reject reasons of all violated rules (empty = valid)
    int64_t weight{0}, sigops{0};
    size_t stripped{0};
};

RefBlockVerdict ref_judge(const CBlock& b, int height, const std::map<COutPoint, CScript>& spk_of)
{
    RefBlockVerdict v;
    v.stripped = RefBlockStrippedSize(b);
    v.weight = RefBlockWeight(b);
    if (b.vtx.empty()) { v.reasons.insert("bad-blk-length"); return v; }
    if (int64_t(v.stripped) * 4 > REF_MAX_BLOCK_WEIGHT || int64_t(b.vtx.size()) * 4 > REF_MAX_BLOCK_WEIGHT) v.reasons.insert("bad-blk-length");
    if (v.weight > REF_MAX_BLOCK_WEIGHT) v.reasons.insert("bad-blk-weight");
    size_t n_cb = 0;
    for (auto& tx : b.vtx) n_cb += ref_is_coinbase(*tx);
    if (!ref_is_coinbase(*b.vtx[0])) v.reasons.insert("bad-cb-missing");
    else if (n_cb > 1) v.reasons.insert("bad-cb-multiple");
    if (ref_is_coinbase(*b.vtx[0])) {
        Bytes ss = ToBytes(b.vtx[0]->vin[0].scriptSig), want = ref_bip34_prefix(height);
        if (ss.size() < want.size() || !std::equal(want.begin(), want.end(), ss.begin())) v.reasons.insert("bad-cb-height");
    }
    // sigop cost (only meaningful when every input's spent script is known, which holds for structurally sound generated blocks)
    bool known = true;
    for (auto& tx : b.vtx) {
        if (ref_is_coinbase(*tx)) { v.sigops += RefTxSigOpCost(*tx, {}); continue; }
        std::vector<Bytes> spent;
        for (auto& in : tx->vin) { auto it = spk_of.find(in.prevout); if (it == spk_of.end()) { known = false; break; } spent.push_back(ToBytes(it->second)); }
        if (!known) break;
        v.sigops += RefTxSigOpCost(*tx, spent);
    }
    if (known && v.sigops > REF_MAX_BLOCK_SIGOPS_COST) v.reasons.insert("bad-blk-sigops");
    return v;
}

} // namespace

VERIF_TARGET(c06_limits, nullptr, 64, 900,
             "a regtest node (104-block base) + one funding block creating sigop carriers (P2SH redeem scripts, P2WSH and P2SH-P2WSH witness scripts, bare outputs "
             "spent with sigops in the scriptSig, P2WPKH, P2SH-P2WPKH; opcode soup of CHECKSIG(VERIFY)/CHECKMULTISIG(VERIFY) with and without OP_n, decoys inside "
             "pushes) and 8 tuner P2WSH outputs; then 2-6 probe blocks on the tip judged by TestBlockValidity (last one also delivered): sigop cost tuned to "
             "80,000+-delta mixing >=3 sigop kinds with legacy filler in coinbase scriptSig / outputs (also after OP_RETURN, inside pushes, after a truncated push), "
             "weight tuned to 4,000,000+-delta (OP_RETURN filler x4, witness padding x1), stripped size 1,000,000+-delta without any witness, structure faults (no / two / "
             "misplaced coinbase, empty), BIP34 height wrong / non-minimal / PUSHDATA1 / missing / followed by junk. non-trivial = a probe within +-4 of a limit "
             "with >=3 sigop kinds in the block, or a weight/size probe within +-4; distinct = probe kinds x delta x verdict")
{
    ChainSim sim{ChainSimOpts{}};
    auto base = sim.LoadBase(104);
    const CScript anyone = sim.keys.Script(SpkType::ANYONE_P2WSH);
    std::map<COutPoint, CScript> spk_of;

    // ---------------- funding block (height 105)
    std::vector<Carrier> carriers;
    std::vector<Carrier> tuners;
    {
        const CBlock& b1 = *sim.block_store.at(base[0]);
        COutPoint src(b1.vtx[0]->GetHash(), 0);
        RefCoin src_coin{b1.vtx[0]->vout[0].nValue, b1.vtx[0]->vout[0].scriptPubKey, 1, true};
        std::vector<CTxOut> outs;
        const CAmount each = 100000000;
        for (unsigned r = 0; r < 8; ++r) {
            Carrier t;
            t.kind = K_P2WSH;
            t.script = tuner_script(r);
            t.spk = GetScriptForDestination(WitnessV0ScriptHash(S(t.script)));
            t.value = each;
            tuners.push_back(t);
            outs.emplace_back(each, t.spk);
        }
        unsigned ncar = s.range<unsigned>(3, 12);
        for (unsigned i = 0; i < ncar; ++i) {
            Carrier c;
            c.kind = CarrierKind(s.index(K_NKINDS));
            c.value = each;
            c.key = s.index(sim.keys.keys.size());
            switch (c.kind) {
            case K_P2SH:
                c.script = wrap_unexecuted(sigop_body(s, 6, 190, 500), true);
                c.spk = GetScriptForDestination(ScriptHash(S(c.script)));
                break;
            case K_P2WSH:
                c.script = wrap_unexecuted(sigop_body(s, 8, 190, 3000), true);
                c.spk = GetScriptForDestination(WitnessV0ScriptHash(S(c.script)));
                break;
            case K_P2SH_P2WSH: {
                c.script = wrap_unexecuted(sigop_body(s, 8, 190, 3000), true);
                CScript inner = GetScriptForDestination(WitnessV0ScriptHash(S(c.script)));
                c.redeem = ToBytes(inner);
                c.spk = GetScriptForDestination(ScriptHash(inner));
                break;
            }
            case K_BARE:
                c.script = wrap_unexecuted(sigop_body(s, 8, 190, 3000), false);
                c.spk = sim.keys.Script(SpkType::BARE_TRUE);
                break;
            case K_P2WPKH: c.spk = sim.keys.Script(SpkType::P2WPKH, c.key); break;
            default: c.spk = sim.keys.Script(SpkType::P2SH_P2WPKH, c.key); break;
            }
            carriers.push_back(c);
            outs.emplace_back(each, c.spk);
        }
        outs.emplace_back(src_coin.value - each * CAmount(outs.size()), anyone); // change
        CTransactionRef fund = MakeTransactionRef(sim.MakeTx({{src, src_coin}}, outs));
        for (size_t i = 0; i < tuners.size(); ++i) tuners[i].op = COutPoint(fund->GetHash(), uint32_t(i));
        for (size_t i = 0; i < carriers.size(); ++i) carriers[i].op = COutPoint(fund->GetHash(), uint32_t(8 + i));
        for (uint32_t i = 0; i < fund->vout.size(); ++i) spk_of[COutPoint(fund->GetHash(), i)] = fund->vout[i].scriptPubKey;
        BlockSpec fs;
        fs.prev = base.back();
        fs.txs = {fund};
        auto fb = sim.Build(fs);
        auto d = sim.Deliver(fb);
        st.steps++;
        VCHECK(d.processed && sim.TipHash() == fb->GetHash(), "c06.valid-block-rejected", "funding block rejected:", d.verdict ? StateStr(*d.verdict) : "no verdict");
        st.note("funded ", carriers.size(), " carriers");
    }

    // spend of carriers (+ optional tuner with padding) -> one transaction with the given outputs
    auto spend_tx = [&](const std::vector<const Carrier*>& use, const Carrier* tuner, const std::optional<Bytes>& pad, std::vector<CTxOut> outs) {
        CMutableTransaction tx;
        tx.version = 2;
        std::map<COutPoint, RefCoin> to_sign;
        CAmount in = 0;
        for (const Carrier* c : use) {
            CTxIn txin(c->op);
            switch (c->kind) {
            case K_P2SH: txin.scriptSig = CScript() << c->script; break;
            case K_P2WSH: txin.scriptWitness.stack = {c->script}; break;
            case K_P2SH_P2WSH: txin.scriptSig = CScript() << c->redeem; txin.scriptWitness.stack = {c->script}; break;
            case K_BARE: txin.scriptSig = S(c->script); break;
            default: to_sign[c->op] = RefCoin{c->value, c->spk, 105, false}; break;
            }
            tx.vin.push_back(txin);
            in += c->value;
        }
        if (tuner) {
            CTxIn txin(tuner->op);
            if (pad) txin.scriptWitness.stack = {*pad, tuner->script};
            else txin.scriptWitness.stack = {tuner->script};
            tx.vin.push_back(txin);
            in += tuner->value;
        }
        if (outs.empty()) outs.emplace_back(0, anyone);
        outs[0].nValue = in; // no fee: the coinbase value stays the plain subsidy
        tx.vout = outs;
        if (!to_sign.empty()) { bool ok = sim.keys.Sign(tx, to_sign); assert(ok && "harness could not sign a carrier input"); }
        return MakeTransactionRef(tx);
    };

    const uint256 tip = sim.TipHash();
    const int H = sim.ledger.At(tip).height + 1; // 106
    const Bytes bip34 = ref_bip34_prefix(H);
    bool nontrivial = false;
    std::shared_ptr<CBlock> last_block;
    RefBlockVerdict last_verdict;
    std::string last_desc;

    auto judge = [&](const CBlock& blk, const std::string& what) {
        RefBlockVerdict v = ref_judge(blk, H, spk_of);
        BlockValidationState tv = sim.TestValidity(blk);
        st.steps++;
        std::ostringstream os;
        os << what << " weight=" << v.weight << " stripped=" << v.stripped << " sigops=" << v.sigops << " ntx=" << blk.vtx.size() << " model=";
        if (v.reasons.empty()) os << "valid"; else for (auto& r : v.reasons) os << r << ",";
        os << " node=" << StateStr(tv);
        st.note(os.str());
        VCHECK(tv.IsValid() == v.reasons.empty(), "c06.verdict", os.str());
        if (!v.reasons.empty()) VCHECK(v.reasons.count(tv.GetRejectReason()), "c06.reject-reason", os.str());
        st.cls(v.reasons.empty() ? "accept" : "reject:" + *v.reasons.begin());
        last_verdict = v;
        last_desc = os.str();
        return v;
    };

    const unsigned nprobes = s.range<unsigned>(2, 6);
    for (unsigned pi = 0; pi < nprobes; ++pi) { // an exhausted buffer yields the simplest probes (zeros), never fewer probes
        const unsigned pk = s.range<unsigned>(0, 9);
        const int delta = s.pick<int>({0, 1, -1, 0, 2, -2, 3, 4, -3, -4, 1});
        if (pk <= 4) {
            // ---------------- sigop cost at 80,000 + delta
            std::vector<const Carrier*> use;
            std::set<int> kinds;
            for (auto& c : carriers) if (s.chance(160)) { use.push_back(&c); kinds.insert(int(c.kind)); }
            const int64_t target = REF_MAX_BLOCK_SIGOPS_COST + delta;
            // coinbase scriptSig: height + up to ~80 bytes with some legacy sigops
            Bytes cbss = bip34;
            unsigned cb_sig = s.range<unsigned>(0, 60);
            for (unsigned i = 0; i < cb_sig; ++i) cbss.push_back((i % 3) ? 0xac : 0x61);
            if (cbss.size() < 2) cbss.push_back(0x00);
            // cost without tuner/bulk
            auto cost_of = [&](const CTransactionRef& tx) { std::vector<Bytes> sp; for (auto& in : tx->vin) sp.push_back(ToBytes(spk_of.at(in.prevout))); return RefTxSigOpCost(*tx, sp); };
            int64_t cb_cost = 4 * int64_t(RefSigOps(cbss, false));
            CTransactionRef probe_tx = spend_tx(use, nullptr, std::nullopt, {});
            int64_t carried = use.empty() ? 0 : cost_of(probe_tx);
            int64_t need = target - cb_cost - carried;
            if (need < 0) { st.cls("probe-skipped"); continue; }
            unsigned r = unsigned(need % 4) + (s.boolean() && need >= 8 ? 4 : 0);
            need -= r;
            unsigned bulk = unsigned(need / 4); // legacy sigops to place in outputs
            // split the bulk over: coinbase extra output, outputs of the carrier tx
            std::vector<CTxOut> cb_extra, tx_outs;
            tx_outs.emplace_back(0, anyone);
            unsigned parts = s.range<unsigned>(1, 4);
            for (unsigned k = 0; k < parts; ++k) {
                unsigned share = (k + 1 == parts) ? bulk : s.range<unsigned>(0, bulk);
                bulk -= share;
                CTxOut o(0, S(legacy_sigops_script(s, share)));
                (s.boolean() ? cb_extra : tx_outs).push_back(o);
            }
            kinds.insert(100); // legacy outputs
            if (cb_sig) kinds.insert(101);
            if (r) kinds.insert(102);
            probe_tx = spend_tx(use, &tuners[r], s.boolean() ? std::optional<Bytes>(Bytes(s.range<size_t>(0, 40), 0x42)) : std::nullopt, tx_outs);
            BlockSpec spec;
            spec.prev = tip;
            spec.txs = {probe_tx};
            spec.coinbase_scriptsig = S(cbss);
            spec.extra_coinbase_outputs = cb_extra;
            spec.extra_nonce = pi;
            auto blk = sim.Build(spec);
            RefBlockVerdict v = judge(*blk, "sigops target " + std::to_string(target) + " kinds=" + std::to_string(kinds.size()));
            if (v.sigops != target) st.cls("tuning-missed");
            else {
                st.cls("sigops@limit" + std::string(delta == 0 ? "" : delta > 0 ? "+" : "-") + (delta ? std::to_string(std::abs(delta)) : ""));
                if (kinds.size() >= 3) { nontrivial = true; st.cls("sigops-near-limit-3-kinds"); }
            }
            for (int k : kinds) if (k < 100) st.cls(std::string("kind:") + KIND_NAME[k]);
            st.mix(uint64_t(1)); st.mix(uint64_t(delta + 10)); st.mix(uint64_t(kinds.size())); st.mix(uint64_t(v.reasons.size()));
            last_block = blk;
        } else if (pk <= 6) {
            // ---------------- weight at 4,000,000 + delta (witness present: commitment + tuner with padding)
            const int64_t target = REF_MAX_BLOCK_WEIGHT + delta;
            std::vector<const Carrier*> use;
            for (auto& c : carriers) if (s.chance(40)) use.push_back(&c);
            size_t pad_len = s.range<size_t>(0, 120);
            unsigned tr = unsigned(s.index(8));
            bool filler_in_cb = s.boolean();
            auto build = [&](size_t filler, size_t pad) {
                Bytes fs(filler, 0x6a); // OP_RETURN...: a plain byte string, 4 weight units per byte
                CTxOut fo(0, S(fs));
                std::vector<CTxOut> tx_outs{CTxOut(0, anyone)};
                BlockSpec spec;
                spec.prev = tip;
                if (filler_in_cb) spec.extra_coinbase_outputs = {fo}; else tx_outs.push_back(fo);
                spec.txs = {spend_tx(use, &tuners[tr], Bytes(pad, 0x42), tx_outs)};
                spec.extra_nonce = pi;
                return sim.Build(spec);
            };
            auto small = build(70000, pad_len);
            int64_t w0 = RefBlockWeight(*small);
            int64_t more = target - w0;
            size_t filler = 70000 + size_t(more / 4);
            size_t pad = pad_len + size_t(more % 4);
            auto blk = build(filler, pad);
            RefBlockVerdict v = judge(*blk, "weight target " + std::to_string(target));
            if (v.weight != target) st.cls("tuning-missed");
            else { nontrivial = true; st.cls("weight@limit" + std::string(delta == 0 ? "" : delta > 0 ? "+" : "-") + (delta ? std::to_string(std::abs(delta)) : "")); }
            st.mix(uint64_t(2)); st.mix(uint64_t(delta + 10)); st.mix(uint64_t(v.reasons.size())); st.mix(uint64_t(filler_in_cb));
            last_block = blk;
        } else if (pk == 7) {
            // ---------------- stripped size at 1,000,000 + d without any witness data (no commitment, legacy inputs only)
            const int d = std::clamp(delta, -2, 2);
            const int64_t target = REF_MAX_BLOCK_WEIGHT / 4 + d;
            std::vector<const Carrier*> use;
            for (auto& c : carriers) if ((c.kind == K_P2SH || c.kind == K_BARE) && s.chance(128)) use.push_back(&c);
            bool filler_in_cb = use.empty() || s.boolean();
            auto build = [&](size_t filler) {
                Bytes fs(filler, 0x6a);
                CTxOut fo(0, S(fs));
                std::vector<CTxOut> tx_outs{CTxOut(0, anyone)};
                BlockSpec spec;
                spec.prev = tip;
                spec.commit_witness = false;
                if (filler_in_cb) spec.extra_coinbase_outputs = {fo}; else tx_outs.push_back(fo);
                if (!use.empty()) spec.txs = {spend_tx(use, nullptr, std::nullopt, tx_outs)};
                spec.extra_nonce = pi;
                return sim.Build(spec);
            };
            auto small = build(70000);
            int64_t s0 = int64_t(RefBlockStrippedSize(*small));
            auto blk = build(size_t(70000 + (target - s0)));
            RefBlockVerdict v = judge(*blk, "stripped-size target " + std::to_string(target) + " (no witness)");
            if (int64_t(v.stripped) != target || v.weight != 4 * target) st.cls("tuning-missed");
            else { nontrivial = true; st.cls("size@limit" + std::string(d == 0 ? "" : d > 0 ? "+" : "-") + (d ? std::to_string(std::abs(d)) : "")); }
            st.mix(uint64_t(3)); st.mix(uint64_t(d + 10)); st.mix(uint64_t(v.reasons.size()));
            last_block = blk;
        } else {
            // ---------------- structure faults and BIP34 height encodings (small blocks)
            std::vector<const Carrier*> use;
            for (auto& c : carriers) if (s.chance(60)) use.push_back(&c);
            BlockSpec spec;
            spec.prev = tip;
            spec.txs = {spend_tx(use, &tuners[s.index(8)], std::nullopt, {})};
            spec.extra_nonce = pi;
            unsigned fk = s.range<unsigned>(0, 10);
            std::string label;
            Bytes junk(s.range<size_t>(0, 20), 0x51);
            if (fk == 4) { Bytes ss = bip34; ss.insert(ss.end(), junk.begin(), junk.end()); if (ss.size() < 2) ss.push_back(0); spec.coinbase_scriptsig = S(ss); label = "bip34-height+junk"; }
            if (fk == 5) { Bytes ss = ref_bip34_prefix(H + s.pick<int>({1, -1, 256, -100})); ss.push_back(0x00); spec.coinbase_scriptsig = S(ss); label = "bip34-wrong-height"; }
            if (fk == 6) { Bytes ss = bip34; ss[0] += 1; ss.push_back(0x00); ss.insert(ss.end(), junk.begin(), junk.end()); spec.coinbase_scriptsig = S(ss); label = "bip34-non-minimal-zero-padded"; }
            if (fk == 7) { Bytes ss{0x4c}; ss.insert(ss.end(), bip34.begin(), bip34.end()); ss.push_back(0x00); spec.coinbase_scriptsig = S(ss); label = "bip34-pushdata1"; }
            if (fk == 8) { Bytes ss{0x00, 0x00}; ss.insert(ss.end(), bip34.begin(), bip34.end()); spec.coinbase_scriptsig = S(ss); label = "bip34-height-not-first"; }
            if (fk == 9) { Bytes ss = bip34; ss.back() ^= uint8_t(1 << s.index(8)); ss.push_back(0x00); spec.coinbase_scriptsig = S(ss); label = "bip34-one-bit-off"; }
            if (fk == 10) { Bytes ss(bip34.begin(), bip34.end() - 1); ss.push_back(0x00); if (ss.size() < 2) ss.push_back(0x00); spec.coinbase_scriptsig = S(ss); label = "bip34-truncated"; }
            auto good = sim.Build(spec);
            CBlock b2 = CloneBlock(*good);
            bool commit = true;
            if (fk == 0) { b2.vtx.erase(b2.vtx.begin()); commit = false; label = "no-coinbase"; }
            if (fk == 1) {
                CMutableTransaction cb2(*b2.vtx[0]);
                cb2.vin[0].scriptSig = S(bip34) << OP_1 << OP_2;
                cb2.vin[0].scriptWitness.stack.clear();
                cb2.vout.resize(1);
                cb2.vout[0].nValue = 0;
                size_t at = 1 + s.index(b2.vtx.size());
                b2.vtx.insert(b2.vtx.begin() + std::min(at, b2.vtx.size()), MakeTransactionRef(cb2));
                label = "two-coinbases";
            }
            if (fk == 2) { std::swap(b2.vtx[0], b2.vtx[1]); commit = false; label = "coinbase-not-first"; }
            if (fk == 3) { b2.vtx.clear(); commit = false; label = "empty-block"; }
            if (fk <= 3) sim.Finalize(b2, commit);
            RefBlockVerdict v = judge(b2, label);
            st.cls("struct:" + label);
            st.mix(uint64_t(4)); st.mix(uint64_t(fk)); st.mix(uint64_t(v.reasons.size()));
            last_block = std::make_shared<CBlock>(b2);
        }
    }
    // ---------------- the last probe also goes through ProcessNewBlock
    if (last_block && s.chance(160)) {
        CBlock b = CloneBlock(*last_block);
        if (last_verdict.reasons.empty()) {
            auto pb = std::make_shared<CBlock>(b);
            sim.Register(pb);
            auto d = sim.Deliver(pb);
            st.steps++;
            VCHECK(d.processed && sim.TipHash() == pb->GetHash(), "c06.verdict", "ProcessNewBlock does not accept a block within all limits:", d.verdict ? StateStr(*d.verdict) : "no verdict", last_desc);
            st.cls("delivered-accepted");
        } else if (!b.vtx.empty()) {
            FaultOutcome fo = DeliverFault(sim, b, true, /*finalize=*/false);
            st.steps++;
            VCHECK(fo.rejected, "c06.verdict", "ProcessNewBlock does not reject:", last_desc);
            VCHECK(last_verdict.reasons.count(fo.reason), "c06.reject-reason", "ProcessNewBlock reason", fo.reason, last_desc);
            VCHECK(fo.untouched(), "c06.rejected-changed-state", "tip or hash_serialized changed by a rejected block", last_desc);
            st.cls("delivered-rejected");
        }
    }
    st.nontrivial = nontrivial;
}
