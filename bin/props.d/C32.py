# C32: stage list (what ./check C32 quick|thorough runs) and manifest text. Helpers gen()/enum()/hyp()/custom() come from props.py.
SPEC = {'level': 'exploration',
 'assumptions': ['regtest network magic; deterministic keys/entropy/garbage injected through the test constructor of V2Transport',
                 'the first message of every direction is "version" (protocol rule; the v2 responder recognises a v1 peer by it)',
                 'v2 tamper oracle assumes AEAD forgery / accidental garbage-terminator match probability (<= 2^-96) is nil',
                 'ciphertext equality with an independent BIP324 implementation is checked by a separate Python stage, not here'],
 'stages': [gen('vh_c32', 'c32_bidirectional', 5000, 90000, min_cases_quick=1000,
                floors={'mode-v1v1': 0.15, 'mode-v2v2': 0.15, 'mode-v1v2-fallback': 0.15, 'fragmented-message': 0.4, 'interleaved-directions': 0.05,
                        'rekey-crossed': 0.01, 'tail-1byte': 0.05, 'type-shortid': 0.3, 'type-random': 0.1},
                rule='message plans both ways over v1/v2/v1-fallback transports, generated fragmentation + interleaving; non-trivial = both directions, >=3 msgs, >=1 message split over >=2 reads'),
            gen('vh_c32', 'c32_tamper', 30000, 500000, min_cases_quick=4000,
                floors={'v2-tamper-key': 0.01, 'v2-tamper-garbage': 0.01, 'v2-tamper-terminator': 0.01, 'v2-tamper-pkt-length': 0.03, 'v2-tamper-pkt-tag': 0.03,
                        'v2-tamper-pkt-ciphertext': 0.02, 'v2-tampered-packet-decoy': 0.02, 'v2-tampered-packet-app': 0.05, 'v2-tamper-none': 0.01,
                        'v2-tamper-after-rekey': 0.002, 'v1-tamper-checksum-last-byte': 0.01, 'v1-tamper-payload': 0.01, 'v1-flagged-message': 0.05},
                rule='one altered byte in a hand-built BIP324 stream (v2) or a V1Transport stream (v1); non-trivial = messages on both sides of the altered packet / flagged or failed v1 frame'),
            gen('vh_c32', 'c32_bulk', 32, 400,
                rule='payloads at the 4,000,000-byte limit through v1 and v2; all non-trivial'),
            gen('vh_c32', 'up_p2p_transport_bidirectional', 800, 16000, rule='upstream simulation test v1<->v1 (supplementary)'),
            gen('vh_c32', 'up_p2p_transport_bidirectional_v2', 800, 16000, rule='upstream simulation test v2<->v2 (supplementary)'),
            gen('vh_c32', 'up_p2p_transport_bidirectional_v1v2', 800, 16000, rule='upstream simulation test v1->v2 (supplementary)'),
            gen('vh_c32', 'up_p2p_transport_serialization', 3000, 60000, rule='upstream v1 deserializer target (supplementary)'),
            gen('vh_c32', 'up_bip324_cipher_roundtrip', 1500, 30000, rule='upstream BIP324 cipher round trip (supplementary)')]}

META = {'level_text': 'Generated search: message plans exchanged by two real transports (v1, v2, v1 fallback) under generated fragmentation and interleaving must arrive '
               'exactly as handed to the sender (round trip against the harness copy) with equal v2 session ids; a hand-built BIP324 stream / a v1 stream with '
               'one altered byte must deliver exactly the messages before the altered packet (v2) and flag every payload/checksum mismatch (v1, own frame '
               'walker + own SHA-256). Exploration: samples sequences, fragmentations and alteration positions; the ciphertext-vs-independent-implementation '
               'clause is not covered by these stages.',
 'technique': 'property-based testing: round-trip oracle over two real endpoints, fault injection (single altered byte) with prefix oracle, independent v1 frame/checksum reference',
 'level_note': 'Trusted base: harness copy of the sent messages, own SHA-256, own BIP324 framing/short-id table; the sender side of the v2 tamper stream uses the '
               "repo's BIP324Cipher for encryption."}
