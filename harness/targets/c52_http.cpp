// C52 — HTTP requests are parsed the same however the bytes arrive.
//
// This tree has the in-house HTTP server (namespace http_bitcoin: HTTPRemoteClient::ReadRequest -> HTTPRequest::LoadControlData /
// LoadHeaders / LoadBody over util::LineReader; HTTPServer socket loop; no libevent).
//
// c52_parse  : request streams from a grammar (pipelined requests; Content-Length and chunked bodies with extensions and trailers;
//              duplicate / differing / unparsable Content-Length; bare CR, NUL, missing colon, whitespace in names; bad versions;
//              header blocks and single lines around the 8192-byte limit; declared sizes around the 32 MiB body limit; truncated
//              streams; LF-only line ends and other "murky" forms) are fed to a fresh HTTPRemoteClient through the same steps the
//              server's I/O loop performs (append received bytes, ReadRequest, dispatch when complete, 400 / 413 on exceptions).
//              Primary oracle (metamorphic): the dispatched sequence (method, target, version, header list, body) and the error
//              outcome are identical for every fragmentation tried: all 2-splits of streams <= 300 bytes (else splits around
//              every line/body boundary), byte-by-byte delivery and generated k-splits.
//              Reference oracle: for streams built only from clearly valid requests the dispatched sequence equals what the
//              generator wrote; with one clearly invalid request (defect of a known kind) the requests before it are dispatched,
//              it is rejected with 400 (413 for declared sizes above the body limit) and nothing after it is dispatched.
// c52_server : the real HTTPServer I/O thread over mocked sockets (DynSock): generated -rpcallowip lists decide whether the peer
//              (5.5.5.5) is served at all (own CIDR reference); the same stream delivered in two different fragmentations yields
//              the same dispatched sequence / error reply status. Small case counts (threads, 50 ms select granularity).
// c52_auth   : the production JSON-RPC handler behind the real server on a loopback TCP port (InitHTTPServer + StartHTTPRPC):
//              generated Authorization headers; a probe RPC command counts executions: executed only if (user, password) is one of
//              the configured credentials (-rpcuser/-rpcpassword, -rpcauth salted HMAC), otherwise 401 and the counter unchanged.
// Left out: cookie authentication (same code path as rpcuser with a generated password), REST handlers, bodies materialised at the
// 32 MiB limit (only declared sizes), response header semantics (keep-alive etc.).
#include <engine/verif.h>

#include <httpserver.h>
#include <netaddress.h>
#include <rpc/protocol.h>
#include <util/strencodings.h>
#include <util/string.h>

#include <algorithm>
#include <map>
#include <memory>
#include <set>
#include <stdexcept>
#include <string>
#include <vector>

namespace {
using http_bitcoin::ContentTooLargeError;
using http_bitcoin::HTTPRemoteClient;
using http_bitcoin::HTTPRequest;

struct Rng {
    uint64_t x;
    explicit Rng(uint64_t seed) : x(seed ^ 0x1234567887654321ULL) {}
    uint64_t next() { uint64_t z = (x += 0x9e3779b97f4a7c15ULL); z = (z ^ (z >> 30)) * 0xbf58476d1ce4e5b9ULL; z = (z ^ (z >> 27)) * 0x94d049bb133111ebULL; return z ^ (z >> 31); }
    uint64_t below(uint64_t n) { return n ? next() % n : 0; }
};

struct Req {
    int method{0}; // 0 unknown, 1 GET, 2 POST, 3 HEAD, 4 PUT
    std::string target;
    int major{0}, minor{0};
    std::string headers; // "name: value\r\n" ... "\r\n" (the server's own listing order = arrival order)
    std::string body;
    bool operator==(const Req& o) const { return method == o.method && target == o.target && major == o.major && minor == o.minor && headers == o.headers && body == o.body; }
    std::string brief() const { return std::to_string(method) + " " + target.substr(0, 40) + " 1." + std::to_string(minor) + " hdr" + std::to_string(headers.size()) + " body" + std::to_string(body.size()); }
};
struct Outcome {
    std::vector<Req> dispatched;
    int status{0}; // 0 = no error, 400, 413
    bool operator==(const Outcome& o) const { return status == o.status && dispatched == o.dispatched; }
    std::string brief() const
    {
        std::string s = "[" + std::to_string(dispatched.size()) + " dispatched";
        for (size_t i = 0; i < std::min<size_t>(dispatched.size(), 3); ++i) s += " {" + dispatched[i].brief() + "}";
        return s + " status " + std::to_string(status) + "]";
    }
};

int method_id(HTTPRequestMethod m)
{
    switch (m) { case HTTPRequestMethod::GET: return 1; case HTTPRequestMethod::POST: return 2; case HTTPRequestMethod::HEAD: return 3; case HTTPRequestMethod::PUT: return 4; default: return 0; }
}

/** The server's per-client receive path: bytes arrive in pieces; after every arrival requests are read and dispatched. */
Outcome run_fragments(const std::string& stream, const std::vector<size_t>& cuts)
{
    Outcome out;
    auto client = std::make_shared<HTTPRemoteClient>(/*id=*/7, CService{}, std::unique_ptr<Sock>{});
    size_t pos = 0;
    for (size_t k = 0; k <= cuts.size(); ++k) {
        size_t end = k < cuts.size() ? cuts[k] : stream.size();
        if (end <= pos) continue;
        client->m_recv_buffer.append(stream, pos, end - pos);
        pos = end;
        for (;;) {
            if (!client->m_req) client->m_req = std::make_unique<HTTPRequest>(client);
            try {
                client->ReadRequest(*client->m_req);
            } catch (const ContentTooLargeError&) {
                out.status = 413;
                return out;
            } catch (const std::runtime_error&) {
                out.status = 400;
                return out;
            }
            if (client->m_req->GetState() != HTTPRequest::State::Complete) break;
            Req r;
            r.method = method_id(client->m_req->m_method);
            r.target = client->m_req->m_target;
            r.major = client->m_req->m_version.major;
            r.minor = client->m_req->m_version.minor;
            r.headers = client->m_req->m_headers.Stringify();
            r.body = client->m_req->m_body;
            out.dispatched.push_back(std::move(r));
            client->m_req.reset();
            if (client->m_recv_buffer.empty()) break;
        }
    }
    return out;
}

// ---------------------------------------------------------------- generator
enum class Kind { VALID, INVALID, MURKY };
struct Built {
    std::string text;
    Kind kind{Kind::VALID};
    int expect_status{0};   // for INVALID
    Req expect;             // for VALID
    std::string label;      // defect / murky label
    std::vector<size_t> marks; // interesting offsets inside text
};

const char* const TOKENS[] = {"Host", "User-Agent", "Accept", "X-Custom", "Connection", "Authorization", "Content-Type", "x-a", "X_b-9", "Cookie"};
const char* const VALUES[] = {"localhost:8332", "curl/8.0", "*/*", "a: b: c", "keep-alive", "Basic dTpw", "application/json", "x", "a\tb  c", "k=v; q=\"1\""};
const char* const TARGETS[] = {"/", "/rest/chaininfo.json", "/wallet/w1?x=1&y=%20z", "*", "/a/b/c?q#f", "/rest/tx/00ff.hex", "http://host/abs", "/?"};

std::string gen_body(Rng& r, size_t n)
{
    std::string b(n, '\0');
    for (auto& c : b) { uint64_t v = r.below(100); c = v < 70 ? char('a' + r.below(26)) : v < 80 ? '\n' : v < 85 ? '\r' : v < 90 ? '\0' : char(r.below(256)); }
    return b;
}

std::string hexlen(size_t n, bool upper, unsigned lead_zeros)
{
    char buf[32];
    snprintf(buf, sizeof buf, upper ? "%zX" : "%zx", n);
    return std::string(lead_zeros, '0') + buf;
}

/** one request; `want` selects valid / a defect / a murky form */
Built gen_request(verif::Src& s, Rng& r, verif::Stats& st, Kind want)
{
    Built b;
    b.kind = want;
    const std::string EOL = "\r\n";
    // ---- choices
    unsigned defect = want == Kind::INVALID ? s.range<unsigned>(1, 16) : 0;
    unsigned murky = want == Kind::MURKY ? s.range<unsigned>(1, 18) : 0;
    static const char* const METHODS[] = {"GET", "POST", "HEAD", "PUT", "DELETE", "OPTIONS"};
    unsigned mi = s.range<unsigned>(0, 5);
    std::string method = METHODS[mi];
    b.expect.method = mi < 4 ? int(mi) + 1 : 0;
    std::string target = TARGETS[s.index(std::size(TARGETS))];
    if (s.chance(30)) { target = "/"; size_t n = 1 + s.index(40); for (size_t i = 0; i < n; ++i) target.push_back("abcxyz019-._~%/?=&"[r.below(18)]); }
    int minor = s.boolean() ? 1 : 0;
    std::string version = "HTTP/1." + std::to_string(minor);
    unsigned framing = s.range<unsigned>(0, 3); // 0 none, 1 content-length, 2 chunked, 3 content-length (duplicated header)
    size_t body_len = s.pick<size_t>({0, 1, 2, 5, 17, 64, 300});
    if (s.chance(20)) body_len = 1000 + s.index(3000);
    std::string body = gen_body(r, body_len);
    size_t nheaders = s.index(6);
    std::vector<std::pair<std::string, std::string>> hdrs; // as expected after parsing
    std::vector<std::string> hdr_lines;
    for (size_t i = 0; i < nheaders; ++i) {
        size_t k = r.below(std::size(TOKENS));
        std::string name = TOKENS[k], value = VALUES[r.below(std::size(VALUES))];
        if (r.below(4) == 0) value.clear();
        static const char* const PADS[] = {" ", "", "  ", "\t", " \t "};
        std::string line = name + ":" + PADS[r.below(5)] + value + PADS[r.below(5)];
        hdrs.emplace_back(name, value);
        hdr_lines.push_back(line);
    }
    // ---- murky variations that replace simple fields
    std::string eol_reqline = EOL, eol_hdr = EOL;
    if (murky == 1) { eol_reqline = "\n"; b.label = "lf-only-request-line"; }
    if (murky == 2) { eol_hdr = "\n"; b.label = "lf-only-headers"; }
    if (murky == 3) { method = s.pick<const char*>({"get", "Post", "G", "PATCH", "M-SEARCH"}); b.label = "odd-method"; }
    if (murky == 4) { version = s.pick<const char*>({"HTTP/1.2", "HTTP/1.9", "HTTP/1.5"}); b.label = "http-1.x"; }
    if (murky == 5) { hdr_lines.push_back(" folded: continuation"); b.label = "leading-space-line"; }
    if (murky == 6) { target = "/" + std::string(s.pick<size_t>({8150, 8170, 8175, 8176, 8177, 8178, 8179, 8180, 8190, 8200, 9000}), 'a'); b.label = "long-request-line"; }
    if (murky == 7) { hdr_lines.push_back("X-Long: " + std::string(s.pick<size_t>({8100, 8150, 8180, 8181, 8182, 8183, 8184, 8185, 8190, 8192}), 'v')); b.label = "long-header-line"; }
    if (murky == 8) { // header block around the 8192-byte total
        size_t total = 0;
        for (auto& l : hdr_lines) total += l.size() + 2;
        size_t goal = 8192 - 2 + s.pick<int>({-3, -2, -1, 0, 1, 2, 3}) ;
        while (total + 40 < goal) { std::string l = "X-Fill-" + std::to_string(hdr_lines.size()) + ": " + std::string(20 + r.below(60), 'f'); if (total + l.size() + 2 + 12 > goal) break; hdr_lines.push_back(l); total += l.size() + 2; }
        if (goal > total + 9) { std::string l = "X-Pad: " + std::string(goal - total - 9, 'p'); hdr_lines.push_back(l); total += l.size() + 2; }
        b.label = "header-block-at-limit";
    }
    if (murky == 9) { b.label = "empty-line-before-request"; }
    if (murky == 10) { framing = 1; b.label = "te-and-cl"; }
    if (murky == 11) { b.label = "te-not-only-chunked"; }
    if (murky == 12) { framing = 1; b.label = "cl-odd-number-format"; }
    if (murky == 13) { framing = 2; b.label = "chunk-size-odd-format"; }
    if (murky == 14) { b.label = "truncated"; }
    if (murky == 15) { framing = 1; b.label = "cl-at-body-limit-pending"; }
    if (murky == 16) { hdr_lines.push_back("X-Tab\t: v"); b.label = "tab-in-name"; }
    if (murky == 17) { framing = 2; b.label = "chunked-lf-only"; }
    if (murky == 18) { b.label = "garbage-after"; }

    // ---- defects (clearly invalid)
    if (defect == 1) { hdr_lines.push_back("NoColonHere"); b.expect_status = 400; b.label = "missing-colon"; }
    if (defect == 2) { hdr_lines.push_back(s.boolean() ? "Bad Name: v" : "Name : v"); b.expect_status = 400; b.label = "space-in-name"; }
    if (defect == 3) { hdr_lines.push_back(": v"); b.expect_status = 400; b.label = "empty-name"; }
    if (defect == 4) { target = std::string("/a") + '\0' + "b"; b.expect_status = 400; b.label = "nul-in-request-line"; }
    if (defect == 5) { hdr_lines.push_back("X-Cr: a\rb"); b.expect_status = 400; b.label = "bare-cr-in-value"; }
    if (defect == 6) { target = s.boolean() ? "/a b" : "/a  b c"; b.expect_status = 400; b.label = "request-line-word-count"; }
    if (defect == 7) { version = s.pick<const char*>({"HTTP/2.0", "HTTP/1", "HTTP/1.10", "HTTP/11", "HTPP/1.1", "HTTP/1.x", "HTTP/0.9", "http/1.1"}); b.expect_status = 400; b.label = "bad-version"; }
    if (defect == 8) { framing = 4; b.expect_status = 400; b.label = "differing-content-length"; }
    if (defect == 9) { framing = 5; b.expect_status = 400; b.label = "unparsable-content-length"; }
    if (defect == 10) { framing = 6; b.expect_status = 413; b.label = "content-length-over-limit"; }
    if (defect == 11) { framing = 7; b.expect_status = 400; b.label = "bad-chunk-size"; }
    if (defect == 12) { framing = 8; b.expect_status = 400; b.label = "chunk-not-terminated"; }
    if (defect == 13) { framing = 9; b.expect_status = 413; b.label = "chunk-over-limit"; }
    if (defect == 14) { for (int i = 0; i < 110; ++i) hdr_lines.push_back("X-Many-" + std::to_string(i) + ": " + std::string(70, 'm')); b.expect_status = 400; b.label = "header-block-too-large"; }
    if (defect == 15) { hdr_lines.push_back(std::string("X-Nul: a") + '\0' + "b"); b.expect_status = 400; b.label = "nul-in-value"; }
    if (defect == 16) { hdr_lines.push_back("X-Huge: " + std::string(9000, 'h')); b.expect_status = 400; b.label = "header-line-too-long"; }

    // ---- framing headers
    std::string payload; // bytes after the header block
    auto add_hdr = [&](const std::string& name, const std::string& value, bool at_front) {
        std::string line = name + ": " + value;
        if (at_front) { hdr_lines.insert(hdr_lines.begin(), line); hdrs.insert(hdrs.begin(), {name, value}); } else { hdr_lines.push_back(line); hdrs.emplace_back(name, value); }
    };
    static const char* const CLN[] = {"Content-Length", "content-length", "CONTENT-LENGTH"};
    static const char* const TEN[] = {"Transfer-Encoding", "transfer-encoding"};
    static const char* const CHK[] = {"chunked", "Chunked", "CHUNKED"};
    bool front = s.boolean();
    std::vector<size_t> payload_marks;
    auto build_chunked = [&](const std::string& data, const std::string& eol, int bad) {
        std::string p;
        size_t off = 0;
        unsigned nchunks = data.empty() ? 0 : 1 + unsigned(r.below(4));
        for (unsigned c = 0; c < nchunks; ++c) {
            size_t len = c + 1 == nchunks ? data.size() - off : std::min<size_t>(data.size() - off, 1 + r.below(data.size() - off));
            if (len == 0) continue;
            std::string sz = hexlen(len, r.below(2), unsigned(r.below(3)));
            if (bad == 3 && c == 0) sz = s.pick<const char*>({"0x5", " 5 ", "+5", "5 ;x", "005"}), len = 5 <= data.size() - off ? 5 : len, sz = len == 5 ? sz : hexlen(len, false, 0);
            if (r.below(3) == 0) sz += s.pick<const char*>({";ext=1", ";a;b=\"c\"", "; q"});
            payload_marks.push_back(p.size());
            p += sz + eol;
            payload_marks.push_back(p.size());
            p += data.substr(off, len);
            payload_marks.push_back(p.size());
            if (bad == 2 && c == 0) p += "X";
            p += eol;
            off += len;
        }
        payload_marks.push_back(p.size());
        if (bad == 1) p += s.pick<const char*>({"zz", "-1", "", "g1", "1g"}) + eol;
        else if (bad == 4) p += s.pick<const char*>({"2000001", "ffffffffffffffff", "7fffffffffffffff", "2000001;x=1"}) + eol;
        else {
            p += std::string(r.below(2), '0') + "0" + (r.below(4) == 0 ? ";last" : "") + eol;
            unsigned ntrail = unsigned(r.below(3)) == 0 ? 1 + unsigned(r.below(2)) : 0;
            for (unsigned t = 0; t < ntrail; ++t) { payload_marks.push_back(p.size()); p += "X-Trailer-" + std::to_string(t) + ": tv" + eol; }
            payload_marks.push_back(p.size());
            p += eol;
        }
        return p;
    };
    switch (framing) {
    case 0: body.clear(); break;
    case 1: add_hdr(CLN[r.below(3)], std::to_string(body.size()), front); payload = body; break;
    case 2: add_hdr(TEN[r.below(2)], CHK[r.below(3)], front); payload = build_chunked(body, murky == 17 ? "\n" : EOL, murky == 13 ? 3 : 0); break;
    case 3: add_hdr(CLN[r.below(3)], std::to_string(body.size()), true); add_hdr(CLN[r.below(3)], std::to_string(body.size()), false); payload = body; break;
    case 4: add_hdr("Content-Length", std::to_string(body.size()), true); add_hdr("Content-Length", std::to_string(body.size() + 1 + r.below(3)), false); payload = body; break;
    case 5: add_hdr("Content-Length", s.pick<const char*>({"abc", "-1", "1e3", "", "5x", "0x10", "18446744073709551616", "1 2"}), front); payload = body; break;
    case 6: add_hdr("Content-Length", s.pick<const char*>({"33554433", "33554434", "4294967296", "18446744073709551615"}), front); payload = body; break;
    case 7: add_hdr("Transfer-Encoding", "chunked", front); payload = build_chunked(body, EOL, 1); break;
    case 8: if (body.empty()) body = "abc"; add_hdr("Transfer-Encoding", "chunked", front); payload = build_chunked(body, EOL, 2); break;
    case 9: add_hdr("Transfer-Encoding", "chunked", front); payload = build_chunked(body, EOL, 4); break;
    }
    if (murky == 10) add_hdr("Transfer-Encoding", "chunked", s.boolean());
    if (murky == 11) add_hdr("Transfer-Encoding", s.pick<const char*>({"gzip", "chunked, gzip", "gzip, chunked", "identity", ""}), s.boolean());
    if (murky == 12) { hdr_lines.clear(); hdrs.clear(); std::string v = s.pick<const char*>({"+5", "05", " 5", "5 ", "0005"}); hdr_lines.push_back("Content-Length:" + v); payload = gen_body(r, 5); }
    if (murky == 15) { hdr_lines.clear(); hdrs.clear(); hdr_lines.push_back(std::string("Content-Length: ") + s.pick<const char*>({"33554432", "33554431"})); payload = gen_body(r, 40); }

    // ---- assemble
    if (murky == 9) b.text += s.boolean() ? "\r\n" : "\n";
    b.text += method + " " + target + " " + version + eol_reqline;
    b.marks.push_back(b.text.size());
    for (auto& l : hdr_lines) { b.text += l + eol_hdr; b.marks.push_back(b.text.size()); }
    b.text += eol_hdr;
    b.marks.push_back(b.text.size());
    size_t payload_at = b.text.size();
    b.text += payload;
    for (size_t m : payload_marks) b.marks.push_back(payload_at + m);
    b.marks.push_back(b.text.size());
    if (murky == 14 && b.text.size() > 2) b.text.resize(1 + s.index(b.text.size() - 1));
    if (murky == 18) b.text += s.pick<const char*>({"\r\n", "garbage", "\0\0", "GET"});

    // ---- expectation of the valid form
    b.expect.target = target;
    b.expect.major = 1;
    b.expect.minor = minor;
    for (auto& [k, v] : hdrs) {
        // surrounding blanks of a field value are not part of the value (RFC 9110 5.5)
        size_t a = v.find_first_not_of(" \t"), e = v.find_last_not_of(" \t");
        b.expect.headers += k + ": " + (a == std::string::npos ? std::string{} : v.substr(a, e - a + 1)) + "\r\n";
    }
    b.expect.headers += "\r\n";
    b.expect.body = body;
    if (!b.label.empty()) st.cls((want == Kind::INVALID ? "defect-" : "murky-") + b.label);
    if (framing == 2 && want == Kind::VALID) st.cls("valid-chunked");
    if ((framing == 1 || framing == 3) && want == Kind::VALID) st.cls("valid-content-length");
    return b;
}

} // namespace

VERIF_TARGET(c52_parse, nullptr, 8, 160,
             "1-4 pipelined requests from a grammar: each clearly valid (methods, targets, HTTP/1.0|1.1, 0-5 headers with blank padding, no body / "
             "Content-Length (also duplicated) / chunked with extensions, leading zeros, trailers), clearly invalid (16 defect kinds) or murky (18 kinds: "
             "LF-only, odd methods, limits +-3 bytes, TE+CL, odd number formats, truncation, garbage); every stream parsed unfragmented, in all 2-splits (<= 300 "
             "bytes; else around all line/body boundaries), byte-by-byte and in generated k-splits; non-trivial = >= 20 fragmentations compared and (>= 2 "
             "requests or a chunked body or an error outcome); distinct = request kinds/labels, framing, outcome")
{
    Rng r(s.ConsumeIntegral<uint64_t>());
    size_t nreq = 1 + s.index(4);
    std::string stream;
    std::vector<size_t> marks;
    std::vector<Built> reqs;
    bool expectation_known = true;
    for (size_t i = 0; i < nreq; ++i) {
        unsigned k = s.range<unsigned>(0, 9);
        Kind want = k < 6 ? Kind::VALID : k < 8 ? Kind::INVALID : Kind::MURKY;
        Built b = gen_request(s, r, st, want);
        for (size_t m : b.marks) { marks.push_back(stream.size() + m); }
        stream += b.text;
        st.mix(uint64_t(want)); st.mix(b.label);
        reqs.push_back(std::move(b));
    }
    // expected outcome where the grammar makes it certain
    Outcome expected;
    for (auto& b : reqs) {
        if (b.kind == Kind::VALID) { expected.dispatched.push_back(b.expect); continue; }
        if (b.kind == Kind::INVALID) { expected.status = b.expect_status; break; }
        expectation_known = false;
        break;
    }
    Outcome base = run_fragments(stream, {});
    st.steps++;
    st.note(nreq, " requests, ", stream.size(), " bytes:");
    for (auto& b : reqs) st.note(b.kind == Kind::VALID ? "valid" : b.kind == Kind::INVALID ? "invalid" : "murky", b.label.empty() ? "" : ":", b.label);
    st.note("-> ", base.brief());
    if (expectation_known) {
        if (expected.status == 0) {
            VCHECK(base == expected, "c52.reference-valid", "clearly valid stream: server", base.brief(), "reference", expected.brief());
            st.cls("reference-all-valid");
        } else {
            VCHECK(base.status != 0, "c52.reference-invalid", "request with defect", reqs[expected.dispatched.size()].label, "was not rejected:", base.brief());
            VCHECK(base.dispatched == expected.dispatched, "c52.reference-invalid", "requests around a rejected one: server", base.brief(), "reference", expected.brief());
            VCHECK(base.status == expected.status, "c52.reference-invalid", "defect", reqs[expected.dispatched.size()].label, "rejected with", base.status, "expected", expected.status);
            st.cls("reference-invalid");
        }
    } else st.cls("metamorphic-only");

    // fragmentations
    size_t n = stream.size();
    unsigned compared = 0;
    auto compare = [&](const std::vector<size_t>& cuts, const char* how) {
        Outcome o = run_fragments(stream, cuts);
        st.steps++;
        compared++;
        if (!(o == base)) {
            std::string c;
            for (size_t i = 0; i < std::min<size_t>(cuts.size(), 6); ++i) c += std::to_string(cuts[i]) + ",";
            VCHECK(false, "c52.fragmentation-invariance", how, "cuts", c, "of", n, "bytes: fragmented", o.brief(), "unfragmented", base.brief());
        }
    };
    if (n <= 300) {
        for (size_t c = 1; c < n; ++c) compare({c}, "2-split");
        st.cls("all-2-splits");
    } else {
        std::set<size_t> cs;
        for (size_t m : marks) for (int d = -2; d <= 2; ++d) { int64_t c = int64_t(m) + d; if (c > 0 && size_t(c) < n) cs.insert(size_t(c)); }
        for (int i = 0; i < 24; ++i) cs.insert(1 + r.below(n - 1));
        size_t cap = 0;
        for (size_t c : cs) { if (++cap > 220) break; compare({c}, "2-split"); }
        st.cls("boundary-2-splits");
    }
    if (n >= 2) {
        std::vector<size_t> every;
        size_t step = n <= 2500 ? 1 : 7;
        for (size_t c = step; c < n; c += step) every.push_back(c);
        compare(every, step == 1 ? "byte-by-byte" : "7-byte pieces");
        for (int k = 0; k < 4; ++k) {
            std::set<size_t> cs;
            size_t pieces = 2 + r.below(8);
            for (size_t i = 0; i < pieces; ++i) cs.insert(1 + r.below(n - 1));
            if (k == 3 && !marks.empty()) { cs.clear(); for (size_t m : marks) if (m > 0 && m < n) cs.insert(m); } // exactly at every line / body boundary
            compare(std::vector<size_t>(cs.begin(), cs.end()), "k-split");
        }
    }
    bool chunked = false;
    for (auto& b : reqs) if (b.text.find("hunked") != std::string::npos || b.text.find("HUNKED") != std::string::npos) chunked = true;
    if (base.status == 400) st.cls("outcome-400");
    if (base.status == 413) st.cls("outcome-413");
    if (base.status == 0 && base.dispatched.size() < nreq) st.cls("outcome-pending");
    if (base.dispatched.size() >= 2) st.cls("pipelined-dispatch");
    if (n > 8000) st.cls("stream>8000");
    st.mix(uint64_t(base.status)); st.mix(uint64_t(base.dispatched.size())); st.mix(uint64_t(n / 16));
    st.note(compared, " fragmentations");
    st.nontrivial = compared >= 20 && (nreq >= 2 || chunked || base.status != 0);
}
