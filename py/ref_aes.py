"""Byte-wise AES-256 / CBC / PKCS#7 reference written from FIPS-197 and NIST SP 800-38A (no tables copied from anywhere:
the S-box is computed from the GF(2^8) inverse and the affine map). Used as the oracle for C49; self-tested at import
against the FIPS-197 appendix C.3 and SP 800-38A F.2.5/F.2.6 vectors."""


def _xtime(a):
    a <<= 1
    return (a ^ 0x11b) & 0xff if a & 0x100 else a


def _gmul(a, b):
    r = 0
    while b:
        if b & 1:
            r ^= a
        a = _xtime(a)
        b >>= 1
    return r


def _ginv(a):
    if a == 0:
        return 0
    r = 1
    for _ in range(254):       # a^254 = a^-1 in GF(2^8)
        r = _gmul(r, a)
    return r


def _rotl8(x, n):
    return ((x << n) | (x >> (8 - n))) & 0xff


SBOX = []
for _x in range(256):
    _b = _ginv(_x)
    SBOX.append(_b ^ _rotl8(_b, 1) ^ _rotl8(_b, 2) ^ _rotl8(_b, 3) ^ _rotl8(_b, 4) ^ 0x63)
INV_SBOX = [0] * 256
for _i, _v in enumerate(SBOX):
    INV_SBOX[_v] = _i


def key_expansion(key):
    """FIPS-197 5.2 for Nk = 8, Nr = 14 -> 15 round keys of 16 bytes."""
    assert len(key) == 32
    nk, nr = 8, 14
    w = [list(key[4 * i:4 * i + 4]) for i in range(nk)]
    rcon = 1
    for i in range(nk, 4 * (nr + 1)):
        t = list(w[i - 1])
        if i % nk == 0:
            t = t[1:] + t[:1]
            t = [SBOX[b] for b in t]
            t[0] ^= rcon
            rcon = _xtime(rcon)
        elif i % nk == 4:
            t = [SBOX[b] for b in t]
        w.append([w[i - nk][j] ^ t[j] for j in range(4)])
    return [sum((w[4 * r + c] for c in range(4)), []) for r in range(nr + 1)]


# state: list of 16 bytes in column-major order (byte i = row i%4, column i//4), i.e. the input byte order.
def _add(s, k):
    return [a ^ b for a, b in zip(s, k)]


def _shift_rows(s):
    return [s[(4 * ((c + r) % 4)) + r] for c in range(4) for r in range(4)]


def _inv_shift_rows(s):
    return [s[(4 * ((c - r) % 4)) + r] for c in range(4) for r in range(4)]


def _mix_columns(s, m):
    out = []
    for c in range(4):
        col = s[4 * c:4 * c + 4]
        for r in range(4):
            out.append(_gmul(m[0], col[r]) ^ _gmul(m[1], col[(r + 1) % 4]) ^ _gmul(m[2], col[(r + 2) % 4]) ^ _gmul(m[3], col[(r + 3) % 4]))
    return out


def encrypt_block(key, block):
    assert len(block) == 16
    rk = key_expansion(key)
    s = _add(list(block), rk[0])
    for r in range(1, 14):
        s = _add(_mix_columns(_shift_rows([SBOX[b] for b in s]), (2, 3, 1, 1)), rk[r])
    return bytes(_add(_shift_rows([SBOX[b] for b in s]), rk[14]))


def decrypt_block(key, block):
    assert len(block) == 16
    rk = key_expansion(key)
    s = _add(list(block), rk[14])
    for r in range(13, 0, -1):
        s = _mix_columns(_add([INV_SBOX[b] for b in _inv_shift_rows(s)], rk[r]), (14, 11, 13, 9))
    return bytes(_add([INV_SBOX[b] for b in _inv_shift_rows(s)], rk[0]))


def cbc_encrypt(key, iv, data, pad):
    """SP 800-38A 6.2 with optional PKCS#7 padding (RFC 5652 6.3). Returns None if pad is off and data is not block aligned."""
    if pad:
        n = 16 - len(data) % 16
        data = data + bytes([n]) * n
    elif len(data) % 16:
        return None
    out, prev = b"", iv
    for i in range(0, len(data), 16):
        prev = encrypt_block(key, bytes(a ^ b for a, b in zip(data[i:i + 16], prev)))
        out += prev
    return out


def cbc_decrypt(key, iv, data, pad):
    """Returns the plaintext, or None if the input is not block aligned / (pad) the PKCS#7 padding is malformed."""
    if len(data) % 16 or not data:
        return None
    out, prev = b"", iv
    for i in range(0, len(data), 16):
        out += bytes(a ^ b for a, b in zip(decrypt_block(key, data[i:i + 16]), prev))
        prev = data[i:i + 16]
    if pad:
        n = out[-1]
        if n < 1 or n > 16 or out[-n:] != bytes([n]) * n:
            return None
        out = out[:-n]
    return out


def _selftest():
    k = bytes(range(32))
    pt = bytes.fromhex("00112233445566778899aabbccddeeff")
    ct = bytes.fromhex("8ea2b7ca516745bfeafc49904b496089")            # FIPS-197 C.3
    assert SBOX[0] == 0x63 and SBOX[0x53] == 0xed and INV_SBOX[0x63] == 0
    assert encrypt_block(k, pt) == ct and decrypt_block(k, ct) == pt
    k = bytes.fromhex("603deb1015ca71be2b73aef0857d77811f352c073b6108d72d9810a30914dff4")
    iv = bytes(range(16))
    p = bytes.fromhex("6bc1bee22e409f96e93d7e117393172aae2d8a571e03ac9c9eb76fac45af8e51")
    c = bytes.fromhex("f58c4c04d6e5f1ba779eabfb5f7bfbd69cfc4e967edb808d679f777bc6702c7d")   # SP 800-38A F.2.5
    assert cbc_encrypt(k, iv, p, False) == c and cbc_decrypt(k, iv, c, False) == p
    assert cbc_decrypt(k, iv, cbc_encrypt(k, iv, b"abc", True), True) == b"abc"


_selftest()
