// C25 — The transaction graph answers like a naive graph with a consistent linearization.
// Oracle: an own naive model (per level: presence bitset + transitive ancestor/descendant bit matrices; shared fee table), in
// lock-step with TxGraph; structural answers must be equal on MAIN and TOP; ordering answers (CompareMainOrder, GetCluster order,
// chunk feerates, BlockBuilder sequence with and without Skip, worst chunk, main/staging diagrams) must all be explained by ONE
// topological linearization per cluster with connected chunks; Trim post-conditions. The model uses no /repo code (no DepGraph).
// The upstream simulation (src/test/fuzz/txgraph.cpp) runs as supplementary stage up_txgraph (c25.upstream).
#include <engine/verif.h>
#include <kits/linref.h>

#include <txgraph.h>
#include <util/feefrac.h>

#include <algorithm>
#include <array>
#include <bitset>
#include <cstdint>
#include <map>
#include <memory>
#include <optional>
#include <set>
#include <string>
#include <vector>

namespace {

using verif::linref::FS;
using verif::linref::cmp_feerate;
using verif::linref::compare_diagrams;

constexpr int MAXTX = 96; // more than MAX_CLUSTER_COUNT_LIMIT so that oversized clusters can always be built
using Bits = std::bitset<MAXTX>;

struct SimTx : public TxGraph::Ref {
    int id{-1};
    uint64_t key{0};
    SimTx() noexcept = default;
    SimTx(int i, uint64_t k) noexcept : id(i), key(k) {}
    SimTx(SimTx&& o) noexcept : TxGraph::Ref(std::move(o)), id(o.id), key(o.key) {}
};

/** naive graph of one level */
struct LevelModel {
    Bits present;
    std::array<Bits, MAXTX> anc{}, desc{}; // include the transaction itself; rows of absent transactions are empty

    void add(int i) { present.set(i); anc[i].reset(); desc[i].reset(); anc[i].set(i); desc[i].set(i); }
    void remove(int i)
    {
        present.reset(i);
        for (int j = 0; j < MAXTX; ++j) { anc[j].reset(i); desc[j].reset(i); }
        anc[i].reset(); desc[i].reset();
    }
    void add_dep(int p, int c)
    {
        Bits A = anc[p], D = desc[c];
        for (int a = 0; a < MAXTX; ++a) if (A[a]) desc[a] |= D;
        for (int d = 0; d < MAXTX; ++d) if (D[d]) anc[d] |= A;
    }
    Bits component(int i) const
    {
        Bits comp, todo;
        todo.set(i);
        while (todo.any()) {
            Bits next;
            for (int j = 0; j < MAXTX; ++j) if (todo[j]) { comp.set(j); next |= anc[j] | desc[j]; }
            todo = next & ~comp;
        }
        return comp;
    }
    std::vector<Bits> components() const
    {
        std::vector<Bits> out;
        Bits left = present;
        for (int i = 0; i < MAXTX; ++i) if (left[i]) { Bits c = component(i); out.push_back(c); left &= ~c; }
        return out;
    }
    /** connectivity of a subset through ancestor/descendant relations among its members */
    bool connected(const Bits& set) const
    {
        if (set.count() <= 1) return true;
        int first = 0;
        while (!set[first]) ++first;
        Bits comp, todo;
        todo.set(first);
        while (todo.any()) {
            Bits next;
            for (int j = 0; j < MAXTX; ++j) if (todo[j]) { comp.set(j); next |= (anc[j] | desc[j]) & set; }
            todo = next & ~comp;
        }
        return comp == set;
    }
};

struct Builder {
    std::unique_ptr<TxGraph::BlockBuilder> b;
    Bits included, done;
    std::optional<FS> last;
};

struct Sim {
    verif::Src& s;
    verif::Stats& st;
    unsigned max_count;
    uint64_t max_size;
    std::unique_ptr<TxGraph> real;
    std::array<std::unique_ptr<SimTx>, MAXTX> refs; // slot -> Ref object (alive from AddTransaction until destruction)
    std::array<int64_t, MAXTX> fee{};
    std::array<int32_t, MAXTX> size{};
    LevelModel main;
    std::optional<LevelModel> staging;
    bool main_oversized_frozen{false}; // value of IsOversized(MAIN) while staging exists (see txgraph.h: not cleared by Ref destruction)
    std::vector<Builder> builders;
    SimTx empty_ref;
    uint64_t key_counter{1};
    // counters for classes / non-triviality
    unsigned n_staging{0}, n_commit{0}, n_abort{0}, n_oversized_seen{0}, n_trim_effective{0}, n_destroy_staging{0}, n_moves{0}, n_fullchecks{0}, n_diagrams{0}, n_skip_walks{0},
        n_trim_in_staging{0};
    size_t max_present{0};

    Sim(verif::Src& s_, verif::Stats& st_) : s(s_), st(st_) {}

    LevelModel& top() { return staging ? *staging : main; }
    LevelModel& lvl(TxGraph::Level l) { return l == TxGraph::Level::MAIN ? main : top(); }
    static int id_of(const TxGraph::Ref* r) { return static_cast<const SimTx*>(r)->id; }

    bool computed_oversized(const LevelModel& m) const
    {
        for (auto& c : m.components()) {
            if (c.count() > max_count) return true;
            uint64_t tot = 0;
            for (int i = 0; i < MAXTX; ++i) if (c[i]) tot += uint64_t(size[i]);
            if (tot > max_size) return true;
        }
        return false;
    }
    bool expect_oversized(TxGraph::Level l)
    {
        if (l == TxGraph::Level::MAIN && staging) return main_oversized_frozen;
        return computed_oversized(lvl(l));
    }
    bool present_anywhere(int i) const { return main.present[i] || (staging && staging->present[i]); }

    /** pick a Ref: one that exists somewhere, one that was removed but not destroyed, or the empty Ref (id -1) */
    int pick()
    {
        std::vector<int> alive;
        for (int i = 0; i < MAXTX; ++i) if (refs[i]) alive.push_back(i);
        size_t k = s.index(alive.size() + 1);
        return k == alive.size() ? -1 : alive[k];
    }
    SimTx& ref(int id) { return id < 0 ? empty_ref : *refs[id]; }

    std::vector<int> ids(const std::vector<TxGraph::Ref*>& v, const LevelModel& m, const char* what)
    {
        std::vector<int> out;
        Bits seen;
        for (auto* r : v) {
            VCHECK(r != nullptr, "c25.structure", what, "returned a null Ref pointer");
            int i = id_of(r);
            VCHECK(i >= 0 && i < MAXTX && refs[i].get() == r, "c25.structure", what, "returned a pointer that is not the current location of a live Ref; id", i);
            VCHECK(m.present[i], "c25.structure", what, "returned a transaction that does not exist at that level; id", i);
            VCHECK(!seen[i], "c25.structure", what, "returned a transaction twice; id", i);
            seen.set(i);
            out.push_back(i);
        }
        return out;
    }
    static Bits to_bits(const std::vector<int>& v) { Bits b; for (int i : v) b.set(i); return b; }
    FS fs_of(int i) const { return FS{fee[i], size[i]}; }
    FS sum_of(const Bits& b) const { FS r; for (int i = 0; i < MAXTX; ++i) if (b[i]) { r.fee += fee[i]; r.size += size[i]; } return r; }
    static bool same(const FeeFrac& f, const FS& x) { return f.fee == x.fee && f.size == x.size; }

    // ------------------------------------------------------------------------------------------------------ mutators
    void op_add()
    {
        int slot = -1;
        for (int i = 0; i < MAXTX; ++i) if (!refs[i]) { slot = i; break; }
        if (slot < 0) return;
        if (s.chance(40)) { fee[slot] = s.range<int64_t>(-0x8000000000000, 0x7ffffffffffff); size[slot] = s.range<int32_t>(1, 0x3fffff); }
        else { fee[slot] = s.range<int64_t>(0, 40); size[slot] = s.range<int32_t>(1, 8); }
        refs[slot] = std::make_unique<SimTx>(slot, (s.range<uint64_t>(0, 0xffff) << 32) | key_counter++); // unique; tie-break order unrelated to creation order
        real->AddTransaction(*refs[slot], FeePerWeight{fee[slot], size[slot]});
        top().add(slot);
        st.note("add#", slot, "(", fee[slot], "/", size[slot], ")");
    }
    void op_dep()
    {
        int p = pick(), c = pick();
        auto& t = top();
        bool both = p >= 0 && c >= 0 && t.present[p] && t.present[c];
        if (both && t.desc[c][p]) return; // would create a cycle (includes p == c): not allowed by the interface
        real->AddDependency(ref(p), ref(c));
        if (both) t.add_dep(p, c);
        st.note("dep ", p, "->", c, both ? "" : "(no-op)");
    }
    /** close a set under ancestors (or descendants) in the given levels */
    Bits close(Bits set, bool down, std::initializer_list<const LevelModel*> levels)
    {
        while (true) {
            Bits next = set;
            for (auto* m : levels) for (int i = 0; i < MAXTX; ++i) if (set[i] && m->present[i]) next |= down ? m->desc[i] : m->anc[i];
            if (next == set) return set;
            set = next;
        }
    }
    std::vector<int> shuffled(const Bits& b)
    {
        std::vector<int> v;
        for (int i = 0; i < MAXTX; ++i) if (b[i]) v.push_back(i);
        for (size_t i = v.size(); i > 1; --i) std::swap(v[i - 1], v[s.index(i)]);
        return v;
    }
    void op_remove()
    {
        // together with a transaction either all its ancestors or all its descendants are removed (txgraph.h: otherwise the internal
        // reordering of removals and dependency additions is observable)
        int r = pick();
        bool down = s.boolean();
        if (r < 0 || !top().present[r]) { real->RemoveTransaction(ref(r)); st.note("remove ", r, "(no-op)"); return; }
        Bits seed; seed.set(r);
        Bits set = close(seed, down, {&top()});
        for (int i : shuffled(set)) { real->RemoveTransaction(*refs[i]); top().remove(i); }
        st.note("remove ", r, down ? "+desc" : "+anc", " n=", set.count());
    }
    void op_destroy_removed()
    {
        std::vector<int> cand;
        for (int i = 0; i < MAXTX; ++i) if (refs[i] && !present_anywhere(i)) cand.push_back(i);
        if (cand.empty()) return;
        int i = cand[s.index(cand.size())];
        refs[i].reset();
        st.note("~ref(removed)#", i);
    }
    void op_destroy_any()
    {
        int r = pick();
        if (r < 0) return;
        bool down = s.boolean();
        Bits seed; seed.set(r);
        Bits set = staging ? close(seed, down, {&main, &*staging}) : close(seed, down, {&main});
        bool any_present = false;
        for (int i : shuffled(set)) {
            if (present_anywhere(i)) any_present = true;
            refs[i].reset();
            if (main.present[i]) main.remove(i);
            if (staging && staging->present[i]) staging->remove(i);
        }
        if (staging && any_present) { n_destroy_staging++; st.cls("ref-destroyed-while-staging"); }
        st.note("~ref#", r, down ? "+desc" : "+anc", " n=", set.count());
    }
    void op_setfee()
    {
        int r = pick();
        int64_t f = s.chance(40) ? s.range<int64_t>(-0x8000000000000, 0x7ffffffffffff) : s.range<int64_t>(0, 40);
        real->SetTransactionFee(ref(r), f);
        if (r >= 0 && present_anywhere(r)) fee[r] = f;
        st.note("setfee#", r, "=", f);
    }
    void op_move_ref()
    {
        int r = pick();
        if (r < 0) return;
        auto moved = std::make_unique<SimTx>(std::move(*refs[r]));
        refs[r] = std::move(moved); // destroys the moved-from (now empty) object
        n_moves++;
        if (staging) st.cls("ref-moved-while-staging");
        st.note("move-ref#", r);
    }
    void op_start_staging()
    {
        main_oversized_frozen = computed_oversized(main);
        real->StartStaging();
        staging = main;
        n_staging++;
        st.note("StartStaging");
    }
    void op_commit() { real->CommitStaging(); main = *staging; staging.reset(); n_commit++; st.note("Commit"); }
    void op_abort() { real->AbortStaging(); staging.reset(); n_abort++; st.note("Abort"); }
    void op_dowork() { uint64_t c = s.chance(128) ? s.range<uint64_t>(0, 255) : s.range<uint64_t>(0, 200000); bool done = real->DoWork(c); st.note("DoWork(", c, ")=", done); }

    void op_trim()
    {
        auto& t = top();
        bool was = computed_oversized(t);
        auto removed_refs = real->Trim();
        st.steps++;
        if (!was) { VCHECK(removed_refs.empty(), "c25.trim", "Trim removed", removed_refs.size(), "transactions from a graph that was not oversized"); st.note("Trim(no-op)"); return; }
        auto removed = ids(removed_refs, t, "Trim");
        Bits rem = to_bits(removed);
        VCHECK(rem.any(), "c25.trim", "Trim removed nothing from an oversized graph");
        for (int i : removed) VCHECK((t.desc[i] & ~rem).none(), "c25.trim", "removed set is not closed under descendants: transaction", i);
        for (int i : removed) t.remove(i);
        VCHECK(!computed_oversized(t), "c25.trim", "a cluster still exceeds the count/size limit after Trim; removed", removed.size());
        VCHECK(!real->IsOversized(TxGraph::Level::TOP), "c25.trim", "IsOversized(TOP) still true after Trim");
        n_trim_effective++;
        if (staging) n_trim_in_staging++;
        st.note("Trim removed ", removed.size());
    }

    /** join clusters until something is oversized (keeps oversize + Trim frequent even with large limits) */
    void op_make_oversized()
    {
        auto& t = top();
        auto comps = t.components();
        if (t.present.count() <= max_count || comps.size() < 2) return;
        unsigned links = s.range<unsigned>(1, 6);
        for (unsigned k = 0; k < links; ++k) {
            comps = t.components();
            if (comps.size() < 2) break;
            size_t a = s.index(comps.size()), b = s.index(comps.size() - 1);
            if (b >= a) ++b;
            auto pickin = [&](const Bits& c) { std::vector<int> v; for (int i = 0; i < MAXTX; ++i) if (c[i]) v.push_back(i); return v[s.index(v.size())]; };
            int p = pickin(comps[a]), c = pickin(comps[b]);
            real->AddDependency(*refs[p], *refs[c]); // different clusters: cannot create a cycle
            t.add_dep(p, c);
        }
        st.note("link-clusters x", links);
    }

    // ------------------------------------------------------------------------------------------------------ inspectors
    void op_inspect()
    {
        TxGraph::Level L = s.boolean() ? TxGraph::Level::MAIN : TxGraph::Level::TOP;
        auto& m = lvl(L);
        bool over = expect_oversized(L);
        unsigned which = s.range<unsigned>(0, 11);
        st.steps++;
        switch (which) {
        case 0: VCHECK(real->GetTransactionCount(L) == m.present.count(), "c25.structure", "GetTransactionCount", real->GetTransactionCount(L), m.present.count()); break;
        case 1: { int r = pick(); bool e = real->Exists(ref(r), L); VCHECK(e == (r >= 0 && m.present[r]), "c25.structure", "Exists(#", r, ") =", e); break; }
        case 2: { bool o = real->IsOversized(L); VCHECK(o == over, "c25.oversized", "IsOversized", (L == TxGraph::Level::MAIN ? "MAIN" : "TOP"), "impl", o, "model", over, "staging", bool(staging)); if (o) n_oversized_seen++; break; }
        case 3: {
            int r = pick();
            auto f = real->GetIndividualFeerate(ref(r));
            if (r >= 0 && present_anywhere(r)) VCHECK(f.fee == fee[r] && f.size == size[r], "c25.structure", "GetIndividualFeerate(#", r, ")", f.fee, f.size, "model", fee[r], size[r]);
            else VCHECK(f.IsEmpty() && f.fee == 0, "c25.structure", "GetIndividualFeerate of a non-existing transaction is not empty");
            break;
        }
        case 4: case 5: {
            if (over) break;
            int r = pick();
            bool down = which == 5;
            auto got = ids(down ? real->GetDescendants(ref(r), L) : real->GetAncestors(ref(r), L), m, "GetAncestors/GetDescendants");
            Bits exp = (r >= 0 && m.present[r]) ? (down ? m.desc[r] : m.anc[r]) : Bits{};
            VCHECK(to_bits(got) == exp, "c25.structure", down ? "GetDescendants" : "GetAncestors", "of #", r, "differs from the model: got", got.size(), "expected", exp.count());
            break;
        }
        case 6: {
            if (over) break;
            bool down = s.boolean();
            std::vector<const TxGraph::Ref*> args;
            Bits exp;
            size_t n = s.range<size_t>(0, 8);
            for (size_t k = 0; k < n; ++k) { int r = pick(); args.push_back(&ref(r)); if (r >= 0 && m.present[r]) exp |= down ? m.desc[r] : m.anc[r]; }
            auto got = ids(down ? real->GetDescendantsUnion(args, L) : real->GetAncestorsUnion(args, L), m, "Get*Union");
            VCHECK(to_bits(got) == exp, "c25.structure", "GetAncestorsUnion/GetDescendantsUnion differs from the model");
            break;
        }
        case 7: {
            if (over) break;
            int r = pick();
            auto got = ids(real->GetCluster(ref(r), L), m, "GetCluster");
            Bits exp = (r >= 0 && m.present[r]) ? m.component(r) : Bits{};
            VCHECK(to_bits(got) == exp, "c25.structure", "GetCluster(#", r, ") differs from the model component: got", got.size(), "expected", exp.count());
            check_cluster_order(got, m, "GetCluster");
            break;
        }
        case 8: VCHECK(real->HaveStaging() == bool(staging), "c25.structure", "HaveStaging"); break;
        case 9: {
            if (expect_oversized(TxGraph::Level::MAIN)) break;
            int a = pick(), b = pick();
            if (a < 0 || b < 0 || !main.present[a] || !main.present[b]) break;
            auto c = real->CompareMainOrder(ref(a), ref(b));
            auto c2 = real->CompareMainOrder(ref(b), ref(a));
            VCHECK((a == b) == (c == 0), "c25.order", "CompareMainOrder: distinct transactions compare equal (or identical ones unequal)", a, b);
            VCHECK((c < 0) == (c2 > 0) && (c > 0) == (c2 < 0), "c25.order", "CompareMainOrder is not antisymmetric", a, b);
            if (a != b && main.anc[b][a]) VCHECK(c < 0, "c25.order", "an ancestor does not sort before its descendant", a, b);
            if (a != b && main.desc[b][a]) VCHECK(c > 0, "c25.order", "a descendant does not sort after its ancestor", a, b);
            break;
        }
        case 10: {
            if (over) break;
            std::vector<const TxGraph::Ref*> args;
            std::set<int> reps;
            size_t n = s.range<size_t>(0, 12);
            for (size_t k = 0; k < n; ++k) {
                int r = pick(); args.push_back(&ref(r));
                if (r >= 0 && m.present[r]) { Bits c = m.component(r); int f = 0; while (!c[f]) ++f; reps.insert(f); }
            }
            auto got = real->CountDistinctClusters(args, L);
            VCHECK(got == reps.size(), "c25.structure", "CountDistinctClusters", got, "model", reps.size());
            break;
        }
        default: {
            size_t u = real->GetMainMemoryUsage();
            VCHECK((u == 0) == main.present.none() || staging, "c25.structure", "GetMainMemoryUsage zero/non-zero does not match emptiness of main", u);
            break;
        }
        }
    }

    /** a cluster listing must be topological: every transaction after all its ancestors */
    void check_cluster_order(const std::vector<int>& order, const LevelModel& m, const char* what)
    {
        Bits placed;
        uint64_t tot = 0;
        for (int i : order) {
            VCHECK((m.anc[i] & ~placed & ~Bits{}.set(i)).none(), "c25.order", what, "lists transaction", i, "before one of its ancestors");
            placed.set(i);
            tot += uint64_t(size[i]);
        }
        VCHECK(order.size() <= max_count && tot <= max_size, "c25.limits", what, "returned a cluster beyond the configured limits: count", order.size(), "size", tot);
    }

    // ------------------------------------------------------------------------------------------------------ block builders
    void op_builder_new() { builders.push_back(Builder{real->GetBlockBuilder(), {}, {}, std::nullopt}); st.note("builder+"); }
    void op_builder_drop() { builders.erase(builders.begin() + s.index(builders.size())); st.note("builder-"); }
    void op_builder_step()
    {
        auto& bd = builders[s.index(builders.size())];
        auto chunk = bd.b->GetCurrentChunk();
        st.steps++;
        Bits inc = bd.included, done = bd.done;
        if (chunk) {
            auto members = ids(chunk->first, main, "BlockBuilder::GetCurrentChunk");
            FS sum;
            FS rate{chunk->second.fee, chunk->second.size};
            if (bd.last) VCHECK(cmp_feerate(rate, *bd.last) <= 0, "c25.builder", "chunk feerates are not non-increasing along the builder");
            for (int i : members) {
                VCHECK(!done[i], "c25.builder", "transaction reported twice by a builder", i);
                done.set(i); inc.set(i);
                VCHECK((main.anc[i] & ~inc).none(), "c25.builder", "included chunks are not topologically closed: missing ancestor of", i);
                sum.fee += fee[i]; sum.size += size[i];
            }
            VCHECK(sum.fee == rate.fee && sum.size == rate.size, "c25.builder", "chunk feerate is not the sum of its transactions");
            bd.last = rate;
            auto again = bd.b->GetCurrentChunk();
            VCHECK(again && again->first == chunk->first && again->second == chunk->second, "c25.builder", "GetCurrentChunk is not stable");
        } else if (bd.done == bd.included) {
            VCHECK(bd.done == main.present, "c25.builder", "builder ended without reporting every transaction although nothing was skipped");
        }
        if (s.chance(64)) { bd.b->Skip(); st.cls("builder-skip"); } else { bd.b->Include(); bd.included = inc; }
        bd.done = done;
        st.note("builder-step");
    }

    // ------------------------------------------------------------------------------------------------------ full consistency check
    struct ChunkRef { int cluster; std::vector<int> txs; FS rate; };

    /** strict stack chunking of a linearization (merge while the new group has a strictly higher feerate) */
    std::vector<std::pair<FS, std::vector<int>>> strict_chunks(const std::vector<int>& lin) const
    {
        std::vector<std::pair<FS, std::vector<int>>> out;
        for (int i : lin) {
            std::pair<FS, std::vector<int>> cur{fs_of(i), {i}};
            while (!out.empty() && cmp_feerate(cur.first, out.back().first) > 0) {
                auto prev = std::move(out.back()); out.pop_back();
                prev.first.fee += cur.first.fee; prev.first.size += cur.first.size;
                prev.second.insert(prev.second.end(), cur.second.begin(), cur.second.end());
                cur = std::move(prev);
            }
            out.push_back(std::move(cur));
        }
        return out;
    }

    void full_check()
    {
        n_fullchecks++;
        using Level = TxGraph::Level;
        // structural equality on both levels
        for (Level L : {Level::MAIN, Level::TOP}) {
            if (L == Level::TOP && !staging) continue; // TOP aliases MAIN
            auto& m = lvl(L);
            st.steps++;
            VCHECK(real->GetTransactionCount(L) == m.present.count(), "c25.structure", "GetTransactionCount (full check)");
            bool over = expect_oversized(L);
            VCHECK(real->IsOversized(L) == over, "c25.oversized", "IsOversized (full check)", (L == Level::MAIN ? "MAIN" : "TOP"), "model", over, "staging", bool(staging));
            if (over) { n_oversized_seen++; continue; }
            for (int i = 0; i < MAXTX; ++i) {
                if (!refs[i]) continue;
                VCHECK(real->Exists(*refs[i], L) == m.present[i], "c25.structure", "Exists (full check) #", i);
                if (!m.present[i]) continue;
                auto f = real->GetIndividualFeerate(*refs[i]);
                VCHECK(f.fee == fee[i] && f.size == size[i], "c25.structure", "GetIndividualFeerate (full check) #", i);
                VCHECK(to_bits(ids(real->GetAncestors(*refs[i], L), m, "GetAncestors")) == m.anc[i], "c25.structure", "GetAncestors (full check) #", i);
                VCHECK(to_bits(ids(real->GetDescendants(*refs[i], L), m, "GetDescendants")) == m.desc[i], "c25.structure", "GetDescendants (full check) #", i);
            }
        }
        std::map<std::pair<int64_t, int64_t>, int> main_chunk_multiset; // (fee,size) -> count, from observed main chunks
        std::vector<ChunkRef> runs;                                      // global chunk sequence of main in order
        bool main_ok = !expect_oversized(Level::MAIN);
        if (main_ok) {
            // (1) one total order
            std::vector<int> L;
            for (int i = 0; i < MAXTX; ++i) if (main.present[i]) L.push_back(i);
            for (size_t i = L.size(); i > 1; --i) std::swap(L[i - 1], L[s.index(i)]); // random start so that the comparison sequence varies
            std::sort(L.begin(), L.end(), [&](int a, int b) { return real->CompareMainOrder(*refs[a], *refs[b]) < 0; });
            std::vector<int> posn(MAXTX, -1);
            for (size_t k = 0; k < L.size(); ++k) posn[L[k]] = int(k);
            size_t stride = L.size() <= 40 ? 1 : 1 + L.size() / 16;
            for (size_t a = 0; a < L.size(); ++a) for (size_t b = a + 1; b < L.size(); b += (b == a + 1 ? 1 : stride)) {
                st.steps++;
                VCHECK(real->CompareMainOrder(*refs[L[a]], *refs[L[b]]) < 0 && real->CompareMainOrder(*refs[L[b]], *refs[L[a]]) > 0, "c25.order",
                       "CompareMainOrder is not a consistent total order (sorted positions", a, b, ")");
            }
            // (2) topological
            for (int i : L) for (int a = 0; a < MAXTX; ++a) if (main.anc[i][a] && a != i) VCHECK(posn[a] < posn[i], "c25.order", "main order places", i, "before its ancestor", a);
            // (3) one linearization per cluster: GetCluster order of every member == restriction of the total order
            auto comps = main.components();
            std::vector<int> cluster_of(MAXTX, -1);
            std::vector<std::vector<int>> clin(comps.size());
            for (size_t c = 0; c < comps.size(); ++c) {
                for (int i : L) if (comps[c][i]) { clin[c].push_back(i); cluster_of[i] = int(c); }
                for (int i : clin[c]) {
                    st.steps++;
                    auto got = ids(real->GetCluster(*refs[i], Level::MAIN), main, "GetCluster(MAIN)");
                    VCHECK(got == clin[c], "c25.order", "GetCluster(MAIN) of #", i, "is not the main order restricted to its component (size", got.size(), "vs", clin[c].size(), ")");
                }
                check_cluster_order(clin[c], main, "main cluster linearization");
            }
            // (4) chunks as reported by GetMainChunkFeerate: contiguous groups of each cluster linearization
            std::vector<int> chunk_index(MAXTX, -1);
            std::vector<std::vector<ChunkRef>> cchunks(comps.size());
            for (size_t c = 0; c < comps.size(); ++c) {
                size_t k = 0;
                std::vector<FS> impl_diagram;
                while (k < clin[c].size()) {
                    auto f = real->GetMainChunkFeerate(*refs[clin[c][k]]);
                    ChunkRef ch{int(c), {}, FS{f.fee, f.size}};
                    FS acc;
                    VCHECK(f.size > 0, "c25.chunks", "GetMainChunkFeerate returned an empty feerate for an existing transaction", clin[c][k]);
                    while (k < clin[c].size() && acc.size < f.size) {
                        int i = clin[c][k];
                        auto fi = real->GetMainChunkFeerate(*refs[i]);
                        VCHECK(fi.fee == f.fee && fi.size == f.size, "c25.chunks", "transactions of one chunk report different chunk feerates (cluster", c, "position", k, ")");
                        acc.fee += fee[i]; acc.size += size[i];
                        ch.txs.push_back(i);
                        ++k;
                    }
                    st.steps++;
                    VCHECK(acc.size == f.size && acc.fee == f.fee, "c25.chunks", "reported chunk feerate is not the sum of a contiguous group of the cluster linearization (cluster", c, ")");
                    VCHECK(main.connected(to_bits(ch.txs)), "c25.chunks", "a chunk of the main linearization is not connected (cluster", c, "chunk size", ch.txs.size(), ")");
                    if (!impl_diagram.empty()) VCHECK(cmp_feerate(impl_diagram.back(), ch.rate) >= 0, "c25.chunks", "chunk feerates increase within a cluster linearization (cluster", c, ")");
                    impl_diagram.push_back(ch.rate);
                    for (int i : ch.txs) chunk_index[i] = int(cchunks[c].size());
                    main_chunk_multiset[{int64_t(ch.rate.fee), ch.rate.size}]++;
                    cchunks[c].push_back(std::move(ch));
                }
                // the reported chunks are the chunking of that linearization (definition: highest-feerate prefix, repeatedly)
                verif::linref::RefGraph rg;
                rg.tx.resize(MAXTX);
                for (int i : clin[c]) { rg.tx[i].fee = fee[i]; rg.tx[i].size = size[i]; }
                std::vector<uint32_t> lin32(clin[c].begin(), clin[c].end());
                VCHECK(compare_diagrams(impl_diagram, verif::linref::diagram_of(rg, lin32)) == 0, "c25.chunks", "reported chunk feerates do not form the feerate diagram of the cluster linearization (cluster", c, ")");
            }
            // (5) global order = sequence of whole chunks, feerates non-increasing
            for (size_t k = 0; k < L.size();) {
                int c = cluster_of[L[k]], ci = chunk_index[L[k]];
                const ChunkRef& ch = cchunks[c][ci];
                for (size_t j = 0; j < ch.txs.size(); ++j) VCHECK(k + j < L.size() && L[k + j] == ch.txs[j], "c25.order", "a chunk is not contiguous (in cluster order) within the main order; cluster", c, "chunk", ci);
                if (!runs.empty()) VCHECK(cmp_feerate(runs.back().rate, ch.rate) >= 0, "c25.order", "chunk feerates increase along the main order at position", k);
                if (ci > 0) VCHECK(posn[cchunks[c][ci - 1].txs[0]] < int(k), "c25.order", "chunks of one cluster appear out of order in the main order");
                runs.push_back(ch);
                k += ch.txs.size();
            }
            // (6) BlockBuilder, everything included: exactly that chunk sequence
            {
                auto b = real->GetBlockBuilder();
                for (size_t r = 0; r < runs.size(); ++r) {
                    auto cur = b->GetCurrentChunk();
                    st.steps++;
                    VCHECK(cur.has_value(), "c25.builder", "builder ended after", r, "of", runs.size(), "chunks");
                    VCHECK(ids(cur->first, main, "BlockBuilder") == runs[r].txs && same(cur->second, runs[r].rate), "c25.builder", "builder chunk", r, "differs from the chunk implied by the main order");
                    b->Include();
                }
                VCHECK(!b->GetCurrentChunk().has_value(), "c25.builder", "builder reports more chunks than the main order has");
            }
            // (7) a walk with skips: after skipping a chunk nothing else of its cluster is reported, everything else stays in order
            if (!runs.empty()) {
                auto b = real->GetBlockBuilder();
                std::set<int> skipped;
                bool any_skip = false;
                for (size_t r = 0; r < runs.size(); ++r) {
                    if (skipped.count(runs[r].cluster)) continue;
                    auto cur = b->GetCurrentChunk();
                    st.steps++;
                    VCHECK(cur.has_value() && ids(cur->first, main, "BlockBuilder(skip walk)") == runs[r].txs && same(cur->second, runs[r].rate), "c25.builder",
                           "builder with skips: chunk", r, "is not the next chunk of a non-skipped cluster");
                    if (s.chance(80)) { b->Skip(); skipped.insert(runs[r].cluster); any_skip = true; } else b->Include();
                }
                VCHECK(!b->GetCurrentChunk().has_value(), "c25.builder", "builder with skips reports extra chunks");
                if (any_skip) { n_skip_walks++; st.cls("skip-walk"); }
            }
            // (8) worst chunk = last chunk of the order, listed descendants-first
            {
                auto [wrefs, wrate] = real->GetWorstMainChunk();
                st.steps++;
                if (runs.empty()) VCHECK(wrefs.empty() && wrate.IsEmpty(), "c25.worst-chunk", "non-empty worst chunk for an empty main graph");
                else {
                    auto w = ids(wrefs, main, "GetWorstMainChunk");
                    VCHECK(to_bits(w) == to_bits(runs.back().txs) && same(wrate, runs.back().rate), "c25.worst-chunk", "GetWorstMainChunk is not the last chunk of the main order");
                    Bits seen;
                    for (int i : w) { seen.set(i); VCHECK((main.desc[i] & to_bits(w) & ~seen).none(), "c25.worst-chunk", "worst chunk is not listed descendants-first at", i); }
                }
            }
        }
        // (9) staging: clusters listed consistently and topologically; main/staging diagrams
        if (staging && !expect_oversized(Level::TOP)) {
            auto& t = *staging;
            std::map<std::pair<int64_t, int64_t>, int> stage_chunk_multiset;
            for (auto& comp : t.components()) {
                std::vector<int> first;
                for (int i = 0; i < MAXTX; ++i) if (comp[i]) {
                    auto got = ids(real->GetCluster(*refs[i], Level::TOP), t, "GetCluster(TOP)");
                    st.steps++;
                    VCHECK(to_bits(got) == comp, "c25.structure", "GetCluster(TOP) differs from the model component");
                    if (first.empty()) { first = got; check_cluster_order(first, t, "staging cluster linearization"); }
                    else VCHECK(got == first, "c25.order", "members of one staging cluster report different cluster orders");
                }
                for (auto& [rate, txs] : strict_chunks(first)) stage_chunk_multiset[{int64_t(rate.fee), rate.size}]++;
            }
            if (main_ok) {
                auto [dm, ds] = real->GetMainStagingDiagrams();
                n_diagrams++;
                st.steps++;
                auto check_side = [&](const std::vector<FeeFrac>& d, std::map<std::pair<int64_t, int64_t>, int> all, const char* side) {
                    for (size_t k = 0; k < d.size(); ++k) {
                        if (k) VCHECK(cmp_feerate(FS{d[k - 1].fee, d[k - 1].size}, FS{d[k].fee, d[k].size}) >= 0, "c25.diagrams", side, "diagram feerates are not non-increasing at", k);
                        auto it = all.find({d[k].fee, d[k].size});
                        VCHECK(it != all.end() && it->second > 0, "c25.diagrams", side, "diagram contains a chunk that is not a chunk of that graph's cluster linearizations:", d[k].fee, d[k].size);
                        it->second--;
                    }
                    return all; // what was left out
                };
                auto left_main = check_side(dm, main_chunk_multiset, "main");
                auto left_stage = check_side(ds, stage_chunk_multiset, "staging");
                std::erase_if(left_main, [](auto& kv) { return kv.second == 0; });
                std::erase_if(left_stage, [](auto& kv) { return kv.second == 0; });
                VCHECK(left_main == left_stage, "c25.diagrams", "the chunks omitted from the main and staging diagrams are not the same (clusters identical in both)");
                FS gm, gs;
                for (auto& f : dm) { gm.fee += f.fee; gm.size += f.size; }
                for (auto& f : ds) { gs.fee += f.fee; gs.size += f.size; }
                FS am = sum_of(main.present), as = sum_of(t.present);
                VCHECK(gs.fee - gm.fee == as.fee - am.fee && gs.size - gm.size == as.size - am.size, "c25.diagrams", "diagram totals do not match the difference between staging and main");
            }
        }
        real->SanityCheck();
    }

    // ------------------------------------------------------------------------------------------------------ driver
    void run()
    {
        max_count = s.chance(128) ? s.range<unsigned>(1, 8) : s.range<unsigned>(1, 64);
        max_size = s.chance(40) ? s.range<uint64_t>(1, 200) : s.range<uint64_t>(1, uint64_t{0x3fffff} * 64);
        uint64_t acceptable = s.range<uint64_t>(0, 10000);
        real = MakeTxGraph(max_count, max_size, acceptable, [](const TxGraph::Ref& a, const TxGraph::Ref& b) noexcept {
            return static_cast<const SimTx&>(a).key <=> static_cast<const SimTx&>(b).key;
        });
        st.note("limits count=", max_count, " size=", max_size, " acceptable_cost=", acceptable);
        unsigned nops = 0;
        while (!s.exhausted() && nops < 2000) {
            ++nops;
            bool can_mutate_top = builders.empty() || staging.has_value(); // no main mutators while a BlockBuilder exists
            unsigned op = s.range<unsigned>(0, 63);
            st.mix(uint64_t(op));
            if (op <= 13) { if (can_mutate_top) op_add(); }
            else if (op <= 29) { if (can_mutate_top) op_dep(); }
            else if (op <= 31) { if (can_mutate_top) op_remove(); }
            else switch (op) {
            case 32: op_destroy_removed(); break;
            case 33: if (builders.empty()) op_destroy_any(); break;
            case 34: if (builders.empty()) op_setfee(); break;
            case 35: op_move_ref(); break;
            case 36: if (!staging) op_start_staging(); break;
            case 37: if (staging && builders.empty()) op_commit(); break;
            case 38: if (staging && s.boolean()) op_abort(); break;
            case 39: op_dowork(); break;
            case 40: if (can_mutate_top) op_trim(); break;
            case 41: if (can_mutate_top) op_make_oversized(); break;
            case 42: if (builders.size() < 3 && !expect_oversized(TxGraph::Level::MAIN)) op_builder_new(); break;
            case 43: if (!builders.empty()) op_builder_drop(); break;
            case 44: case 45: if (!builders.empty()) op_builder_step(); break;
            case 46: if (s.chance(64)) full_check(); break;
            default: op_inspect(); break;
            }
            max_present = std::max<size_t>(max_present, top().present.count());
            if ((nops & 15) == 0) real->SanityCheck();
        }
        full_check();
        // wind down: abort staging, full check of main alone, then let Refs outlive the graph
        builders.clear();
        if (staging) { if (s.boolean()) op_commit(); else op_abort(); full_check(); }
        real.reset();
        for (auto& r : refs) r.reset();
        st.cls("ops", nops);
        if (n_staging) st.cls("staging");
        if (n_commit) st.cls("commit");
        if (n_abort) st.cls("abort");
        if (n_oversized_seen) st.cls("oversized-observed");
        if (n_trim_effective) st.cls("trim-removed-something");
        if (n_trim_in_staging) st.cls("trim-in-staging");
        if (n_moves) st.cls("ref-moved");
        if (n_diagrams) st.cls("main/staging-diagrams-checked");
        st.cls("full-checks", n_fullchecks);
        st.cls(max_present <= 8 ? "max-live:<=8" : max_present <= 24 ? "max-live:9-24" : max_present <= 64 ? "max-live:25-64" : "max-live:>64");
        st.nontrivial = n_staging >= 1 && n_oversized_seen >= 1 && n_trim_effective >= 1;
        st.mix(uint64_t(std::min(max_count, 9u)));
    }
};

} // namespace

VERIF_TARGET(c25_txgraph, nullptr, 16, 2600,
             "operation sequences (<= 2000 ops, ~3 bytes/op) on one TxGraph with cluster count limit 1..64 (mostly <= 8) and size limit (small or huge), "
             "up to 96 live transactions: AddTransaction, AddDependency (any Refs incl. removed/empty; cycles skipped), RemoveTransaction (with all "
             "ancestors or all descendants), Ref destruction (removed ones any time; existing ones with closure over both levels, also while staging "
             "exists), Ref moves, SetTransactionFee, StartStaging/Commit/Abort, DoWork, Trim, cluster-joining bursts that force oversize, up to 3 "
             "concurrent BlockBuilders (Include/Skip) with staging mutations meanwhile, all inspectors on MAIN and TOP. Oracle: own naive model "
             "(presence + transitive closure bit matrices per level); structural answers equal; IsOversized equals the model (main frozen while staging "
             "exists); periodic and final full check: CompareMainOrder is one total topological order, GetCluster of every member is its restriction, "
             "chunks derived from GetMainChunkFeerate are contiguous, sum correctly, connected, non-increasing and form the definition's diagram, the "
             "global order is a sequence of whole chunks with non-increasing feerates, BlockBuilder (all included / with skips) and GetWorstMainChunk "
             "reproduce it, GetMainStagingDiagrams are sub-multisets of the chunk sets with identical remainders and matching totals; Trim: nothing "
             "removed unless oversized, removed set descendant-closed, limits hold afterwards; SanityCheck() every 16 ops. "
             "non-trivial = staging + oversized observed + effective Trim in one sequence; distinct = op-code sequence hash")
{
    Sim sim(s, st);
    sim.run();
}
