# C23: stage list (what ./check C23 quick|thorough runs) and manifest text. Helpers gen()/enum()/hyp()/custom() come from props.py.
SPEC = {'level': 'exploration',
 'assumptions': ['RefLedger replay of the active chain is the reference UTXO set; own weight (serialized sizes), sigop-cost counter (BIP16/BIP141 rules), nLockTime/BIP68 model and subsidy formula',
                 'templates come from node::BlockAssembler::CreateNewBlock with test_block_validity=false; the coinbase output script is chosen within the reserved sigop allowance (caller contract)',
                 'regtest node, histories of 5-40 operations with pools of up to a few dozen transactions; limits are made binding through the options (tiny max weight, sigop reservation close to 80 000)'],
 'stages': [{'kind': 'gen',
             'binary': 'vh_c23',
             'target': 'c23_template',
             'cases_quick': 800,
             'cases_thorough': 9000,
             'min_cases_quick': 60,
             'max_seconds_quick': 600,
             'max_seconds_thorough': 14400,
             'floors': {'3-clusters-binding-limit': 0.25, 'template-partial': 0.4, 'template-all': 0.5, 'cfg-tight-weight': 0.6, 'cfg-tight-sigops': 0.5, 'cfg-minfee': 0.6, 'template-delivered': 0.4,
                        'template-with-prioritised-tx': 0.06, 'history-with-reorg': 0.5},
             'rule': 'templates on mempool histories; non-trivial = a non-empty template built from a pool of >= 3 clusters that excludes at least one pool transaction'}]}

META = {'level_text': 'Block templates are requested from node::BlockAssembler at random points of generated mempool histories (incl. reorgs, prioritisation, RBF, TRUC, timelocked and '
               'coinbase-spending entries) with generated BlockCreateOptions (max weight from "reserved only" to 4 000 000, reserved weight, min fee rate, coinbase sigop reservation up to '
               '80 000). Each template is validated by the harness: parents before children, own weight sum + reserved <= max, own sigop count + reservation <= 80 000, own nLockTime '
               'finality, coinbase == own subsidy + recomputed fees, own next-block rules, TestBlockValidity of the completed block, and (for a third of them) ProcessNewBlock making it the '
               'tip. Exploration over bounded histories and option values.',
 'technique': 'stateful property-based testing: generated histories x generated options; independent re-validation of every template (own counters + RefLedger) and differential against block validation'}
