// C06 (pure sub-target) — the repo's static counters against the reference calculators of kits/consensus_ref, per script / per tx:
// CScript::GetSigOpCount(accurate / not), GetSigOpCount(scriptSig) on P2SH, CountWitnessSigOps, GetLegacySigOpCount, GetP2SHSigOpCount,
// GetTransactionSigOpCost, GetTransactionWeight, GetBlockWeight, stripped sizes.
#include <engine/verif.h>
#include <kits/consensus_ref.h>

#include <coins.h>
#include <consensus/tx_verify.h>
#include <consensus/validation.h>
#include <primitives/block.h>
#include <script/interpreter.h>
#include <script/script.h>

using namespace verif;
using namespace verif::cref;

namespace {
CScript S(const Bytes& b) { return CScript(b.begin(), b.end()); }

Bytes soup(Src& s, size_t max_items)
{
    Bytes b;
    size_t n = s.range<size_t>(0, max_items);
    for (size_t i = 0; i < n; ++i) {
        switch (s.range<unsigned>(0, 11)) {
        case 0: b.push_back(0xac); break;
        case 1: b.push_back(0xad); break;
        case 2: b.push_back(0xae); break;
        case 3: b.push_back(0xaf); break;
        case 4: b.push_back(uint8_t(0x51 + s.index(16))); break;                    // OP_1..OP_16
        case 5: b.push_back(s.pick<uint8_t>({0x00, 0x4f, 0x50, 0x61, 0x6a, 0x63, 0x68, 0x87, 0xa9, 0xba, 0xff})); break;
        case 6: { size_t k = s.range<size_t>(1, 75); b.push_back(uint8_t(k)); size_t have = s.chance(24) ? s.range<size_t>(0, k) : k; for (size_t j = 0; j < have; ++j) b.push_back(s.pick<uint8_t>({0xac, 0xae, 0x51, 0x00})); break; }
        case 7: { size_t k = s.range<size_t>(0, 90); b.push_back(0x4c); b.push_back(uint8_t(k)); size_t have = s.chance(24) ? s.range<size_t>(0, k) : k; for (size_t j = 0; j < have; ++j) b.push_back(0xac); break; }
        case 8: { size_t k = s.range<size_t>(0, 300); b.push_back(0x4d); b.push_back(uint8_t(k & 0xff)); b.push_back(uint8_t(k >> 8)); size_t have = s.chance(24) ? s.range<size_t>(0, k) : k; for (size_t j = 0; j < have; ++j) b.push_back(0xae); break; }
        case 9: { size_t k = s.range<size_t>(0, 40); b.push_back(0x4e); b.push_back(uint8_t(k)); b.push_back(0); b.push_back(0); b.push_back(s.chance(16) ? 0xff : 0x00); for (size_t j = 0; j < k; ++j) b.push_back(0xad); break; }
        case 10: b.push_back(s.ConsumeIntegral<uint8_t>()); break;
        default: if (s.chance(40)) { b.push_back(s.pick<uint8_t>({0x4c, 0x4d, 0x4e})); } else b.push_back(0xac); break; // possibly a truncated length prefix at the end
        }
    }
    return b;
}

Bytes p2sh_spk(const Bytes& h20) { Bytes b{0xa9, 0x14}; b.insert(b.end(), h20.begin(), h20.end()); b.push_back(0x87); return b; }
Bytes push_of(const Bytes& data)
{
    Bytes b;
    if (data.size() <= 75) b.push_back(uint8_t(data.size()));
    else if (data.size() <= 255) { b.push_back(0x4c); b.push_back(uint8_t(data.size())); }
    else { b.push_back(0x4d); b.push_back(uint8_t(data.size() & 0xff)); b.push_back(uint8_t(data.size() >> 8)); }
    b.insert(b.end(), data.begin(), data.end());
    return b;
}
Bytes witness_program(Src& s)
{
    unsigned m = s.range<unsigned>(0, 5);
    size_t len = m == 0 ? 20 : m == 1 ? 32 : m == 2 ? s.range<size_t>(2, 40) : m == 3 ? s.pick<size_t>({1, 41, 19, 21, 31, 33}) : 32;
    uint8_t ver = m == 4 ? uint8_t(0x51 + s.index(16)) : m == 5 ? s.pick<uint8_t>({0x4f, 0x50, 0x61}) : 0x00;
    Bytes b{ver, uint8_t(len)};
    if (s.chance(12)) b[1] = uint8_t(len + 1); // length byte not matching
    for (size_t i = 0; i < len; ++i) b.push_back(uint8_t(i));
    return b;
}
} // namespace

VERIF_TARGET(c06_sigops, nullptr, 16, 400,
             "opcode soup (CHECKSIG/CHECKSIGVERIFY/CHECKMULTISIG(VERIFY), OP_1..16, pushes of all four encodings incl. truncated ones holding sigop bytes, "
             "OP_RETURN, random bytes) as scriptPubKey / scriptSig / redeem script / witness script; P2SH, P2WPKH, P2WSH, P2SH-wrapped and malformed witness programs; "
             "one synthetic 1-3 input transaction over a CCoinsViewCache. GetSigOpCount (both modes, and the P2SH form), CountWitnessSigOps, GetLegacySigOpCount, "
             "GetP2SHSigOpCount, GetTransactionSigOpCost, GetTransactionWeight and GetBlockWeight must equal the reference calculators. "
             "non-trivial = >= 2 different sigop kinds non-zero in the transaction, or a truncated push / OP_n+CHECKMULTISIG present; distinct = by per-kind zero/non-zero + features")
{
    static CCoinsViewCache view(&CoinsViewEmpty::Get());
    { auto wipe = view.CreateResetGuard(); }
    const unsigned nin = s.range<unsigned>(1, 3);
    CMutableTransaction mtx;
    mtx.version = 2;
    std::vector<Bytes> spent;
    bool feature = false;
    uint64_t kinds = 0;
    for (unsigned i = 0; i < nin; ++i) {
        Bytes spk, ss;
        std::vector<Bytes> wit;
        unsigned form = s.range<unsigned>(0, 6);
        if (form == 0) { // bare soup
            spk = soup(s, 30);
            ss = soup(s, 12);
        } else if (form == 1) { // P2SH with redeem soup (push-only scriptSig), sometimes non-push-only
            Bytes redeem = soup(s, 40);
            if (redeem.size() > 520) redeem.resize(520);
            spk = p2sh_spk(Bytes(20, uint8_t(i + 1)));
            if (s.chance(200)) { ss = s.chance(64) ? push_of(soup(s, 4)) : Bytes{}; Bytes p = push_of(redeem); ss.insert(ss.end(), p.begin(), p.end()); }
            else { ss = soup(s, 10); }
            if (s.chance(20)) ss.push_back(uint8_t(0x51 + s.index(16))); // last "push" is OP_n: empty redeem data
        } else if (form == 2) { // native witness program
            spk = witness_program(s);
            unsigned items = s.range<unsigned>(0, 3);
            for (unsigned k = 0; k < items; ++k) wit.push_back(soup(s, 40));
            if (s.chance(40)) ss = soup(s, 3);
        } else if (form == 3) { // P2SH-wrapped witness program
            Bytes prog = witness_program(s);
            spk = p2sh_spk(Bytes(20, uint8_t(0x80 + i)));
            ss = s.chance(220) ? push_of(prog) : soup(s, 6);
            unsigned items = s.range<unsigned>(0, 3);
            for (unsigned k = 0; k < items; ++k) wit.push_back(soup(s, 40));
        } else if (form == 4) { // almost-P2SH scriptPubKeys
            spk = p2sh_spk(Bytes(20, 7));
            unsigned m = s.range<unsigned>(0, 3);
            if (m == 0) spk.push_back(0xac); else if (m == 1) spk[0] = 0xaa; else if (m == 2) spk[1] = 0x15; else spk.pop_back();
            ss = push_of(soup(s, 20));
        } else { // plain legacy
            spk = soup(s, 8);
            ss = push_of(soup(s, 10));
        }
        if (!spk.empty() && spk[0] == 0x6a) spk[0] = 0x61; // precondition: the UTXO set never holds OP_RETURN-prefixed (unspendable) scripts
        COutPoint op(Txid::FromUint256(uint256(uint8_t(i + 1))), i);
        CTxIn in(op, S(ss), 0xffffffff);
        for (auto& w : wit) in.scriptWitness.stack.push_back(w);
        mtx.vin.push_back(in);
        view.AddCoin(op, Coin(CTxOut(1000, S(spk)), 1, false), false);
        spent.push_back(spk);

        // ---- per-script comparisons
        for (const Bytes* b : {&spk, &ss}) {
            CScript cs = S(*b);
            st.steps++;
            VCHECK(cs.GetSigOpCount(false) == RefSigOps(*b, false), "c06.sigops-legacy", "script", hex(*b), "impl", cs.GetSigOpCount(false), "ref", RefSigOps(*b, false));
            VCHECK(cs.GetSigOpCount(true) == RefSigOps(*b, true), "c06.sigops-accurate", "script", hex(*b), "impl", cs.GetSigOpCount(true), "ref", RefSigOps(*b, true));
        }
        {
            // P2SH form: defined for P2SH scriptPubKeys; for others the API returns the accurate count of the scriptPubKey itself
            unsigned impl = S(spk).GetSigOpCount(S(ss));
            unsigned ref = RefIsP2SH(spk) ? RefP2SHSigOps(spk, ss) : RefSigOps(spk, true);
            st.steps++;
            VCHECK(impl == ref, "c06.sigops-p2sh", "spk", hex(spk), "scriptSig", hex(ss), "impl", impl, "ref", ref);
            if (RefIsP2SH(spk) && ref) kinds |= 2;
        }
        {
            CScriptWitness w;
            for (auto& x : wit) w.stack.push_back(x);
            size_t impl = CountWitnessSigOps(S(ss), S(spk), w, SCRIPT_VERIFY_P2SH | SCRIPT_VERIFY_WITNESS);
            unsigned ref = RefWitnessSigOps(spk, ss, wit);
            st.steps++;
            VCHECK(impl == ref, "c06.sigops-witness", "spk", hex(spk), "scriptSig", hex(ss), "nwit", wit.size(), "impl", impl, "ref", ref);
            if (ref) kinds |= 4;
        }
        if (RefSigOps(spk, false) || RefSigOps(ss, false)) kinds |= 1;
        // features for the non-triviality rule: truncated push, OP_n directly before CHECKMULTISIG
        for (const Bytes* b : {&spk, &ss}) {
            size_t pc = 0; RefOp o; unsigned char last = 0xff;
            while (pc < b->size()) { if (!ParseOp(*b, pc, o)) { feature = true; break; } if ((o.code == 0xae || o.code == 0xaf) && last >= 0x51 && last <= 0x60) feature = true; last = o.code; }
        }
    }
    unsigned nout = s.range<unsigned>(1, 3);
    for (unsigned k = 0; k < nout; ++k) mtx.vout.emplace_back(int64_t(k), S(soup(s, 20)));
    const CTransaction tx(mtx);
    {
        int64_t legacy_ref = 0;
        for (auto& in : tx.vin) legacy_ref += RefSigOps(ToBytes(in.scriptSig), false);
        for (auto& out : tx.vout) legacy_ref += RefSigOps(ToBytes(out.scriptPubKey), false);
        int64_t p2sh_ref = 0;
        for (size_t i = 0; i < tx.vin.size(); ++i) p2sh_ref += RefP2SHSigOps(spent[i], ToBytes(tx.vin[i].scriptSig));
        st.steps += 4;
        VCHECK(int64_t(GetLegacySigOpCount(tx)) == legacy_ref, "c06.tx-legacy", "impl", GetLegacySigOpCount(tx), "ref", legacy_ref);
        VCHECK(int64_t(GetP2SHSigOpCount(tx, view)) == p2sh_ref, "c06.tx-p2sh", "impl", GetP2SHSigOpCount(tx, view), "ref", p2sh_ref);
        int64_t impl = GetTransactionSigOpCost(tx, view, SCRIPT_VERIFY_P2SH | SCRIPT_VERIFY_WITNESS);
        int64_t ref = RefTxSigOpCost(tx, spent);
        VCHECK(impl == ref, "c06.tx-cost", "impl", impl, "ref", ref, "legacy", legacy_ref, "p2sh", p2sh_ref);
        VCHECK(int64_t(GetTransactionWeight(tx)) == RefTxWeight(tx), "c06.tx-weight", "impl", GetTransactionWeight(tx), "ref", RefTxWeight(tx));
        st.note("nin=", nin, " legacy=", legacy_ref, " p2sh=", p2sh_ref, " cost=", ref, " weight=", RefTxWeight(tx));
    }
    {
        // a block of 1..3 copies-with-variation of the transaction (structure irrelevant: pure size arithmetic)
        CBlock b;
        unsigned ntx = s.range<unsigned>(1, 3);
        for (unsigned k = 0; k < ntx; ++k) { CMutableTransaction m2(tx); m2.nLockTime = k; if (k == 1) for (auto& in : m2.vin) in.scriptWitness.stack.clear(); b.vtx.push_back(MakeTransactionRef(m2)); }
        st.steps++;
        VCHECK(GetBlockWeight(b) == RefBlockWeight(b), "c06.block-weight", "impl", GetBlockWeight(b), "ref", RefBlockWeight(b));
        VCHECK(::GetSerializeSize(TX_NO_WITNESS(b)) == RefBlockStrippedSize(b), "c06.block-stripped", "impl", ::GetSerializeSize(TX_NO_WITNESS(b)), "ref", RefBlockStrippedSize(b));
    }
    st.nontrivial = __builtin_popcountll(kinds) >= 2 || feature;
    st.mix(kinds); st.mix(uint64_t(feature)); st.mix(uint64_t(nin));
    if (kinds & 1) st.cls("legacy-sigops");
    if (kinds & 2) st.cls("p2sh-sigops");
    if (kinds & 4) st.cls("witness-sigops");
    if (feature) st.cls("truncated-or-accurate-multisig");
}
