# C25: stage list (what ./check C25 quick|thorough runs) and manifest text. Helpers gen()/enum()/hyp()/custom() come from props.py.
SPEC = {'level': 'exploration',
 'assumptions': ['naive model: per level a presence bitset and transitive ancestor/descendant bit matrices (no DepGraph), one shared fee table',
                 'removals (RemoveTransaction, Ref destruction, Trim results) always take all ancestors or all descendants along, as txgraph.h requires for '
                 'the internal reordering of removals and dependency additions to be unobservable',
                 'no main-graph mutator (incl. SetTransactionFee, CommitStaging, destruction of Refs present in main) while a BlockBuilder exists; inspectors '
                 'that require a non-oversized graph are only called when the model says so',
                 'IsOversized(MAIN) while staging exists is expected to stay at its value from StartStaging (txgraph.h: Ref destruction does not clear it)',
                 'staging chunk multiset for GetMainStagingDiagrams is computed with the documented strict merge rule on the GetCluster(TOP) order',
                 'DoWork return value and optimality claims are not interpreted (see C24)'],
 'stages': [gen('vh_c25', 'c25_txgraph', 12000, 240000, min_cases_quick=4000,
                floors={'staging': 0.5, 'commit': 0.2, 'abort': 0.3, 'oversized-observed': 0.25, 'trim-removed-something': 0.2, 'trim-in-staging': 0.1,
                        'ref-destroyed-while-staging': 0.15, 'ref-moved-while-staging': 0.2, 'main/staging-diagrams-checked': 0.2, 'skip-walk': 0.15,
                        'max-live:25-64': 0.15, 'max-live:>64': 0.05},
                rule='op sequences on TxGraph vs naive model; non-trivial = staging + oversized observed + effective Trim'),
            gen('vh_c25', 'up_txgraph', 5000, 100000, rule='upstream txgraph simulation fuzz target, supplementary'),
        # coverage-guided libFuzzer campaign on the same target (thorough tier only; fz tree = g++ trace-pc + covshim)
        fuzz('vh_c25', 'c25_txgraph', 300, max_len=2600),
    ]}

META = {'level_text': 'Stateful generated search: operation sequences (up to 2000 operations, up to 96 live transactions, cluster limits 1..64) over the whole public '
               'TxGraph interface, including staging, Ref destruction and moves while staging exists, oversize and Trim, concurrent BlockBuilders, executed in '
               'lock-step with an independent naive graph model. Structural answers must be equal on MAIN and TOP; a periodic full check derives the main order '
               'from CompareMainOrder and requires every ordering answer (cluster orders, chunk feerates, builder sequence with and without skips, worst chunk, '
               'main/staging diagrams) to be explained by one topological linearization per cluster with connected chunks; Trim post-conditions; SanityCheck(). '
               'Exploration over bounded histories.',
 'technique': 'stateful property-based testing: model-based (naive transitive-closure graph per level) + derived single-linearization consistency checks; upstream '
              'simulation as supplementary stage',
 'level_note': 'trusted base: the ~100-line bit-matrix model and kits/linref.h'}
