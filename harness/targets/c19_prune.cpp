// C19 — Pruning never deletes data the node still needs.
//
// Code under test: BlockManager::FindFilesToPruneManual / FindFilesToPrune / PruneOneBlockFile / UnlinkPrunedFiles (node/blockstorage.cpp),
// Chainstate::GetPruneRange, the prune-lock handling of FlushStateToDisk and DisconnectTip (validation.cpp), on a ChainSim regtest node
// with -fastprune (64 KiB block files) and blocks of generated sizes, so that files hold 1..N blocks and straddle every boundary.
// Oracle: a keep-set model. Before each prune event the harness records, for every block it ever stored, whether the node had its data
// and undo data and in which file it was. The model (from the statement) marks as PROTECTED:
//   * every active-chain block within the last 288 blocks of the active tip (heights >= tip-287);
//   * every block (any branch) at a height ABOVE the height of any registered prune lock (lock heights tracked by the model, including
//     the "moved back on disconnect" rule);
// After the prune event every protected block that had data (undo) still has it flagged AND readable from disk (ReadBlock re-hashes,
// ReadBlockUndo verifies the checksum); all blocks of one file lose their data together or not at all (no dangling position);
// every block still flagged is readable. Automatic pruning (usage above target => eligible files removed until under target or none
// left; never a protected block) is generated when hook H2 (verif::g_min_prune_target / g_prune_buffer in node/blockstorage.cpp) is
// compiled in; without the hook the 550 MiB floor makes that clause unreachable and only manual pruning + prune locks are exercised.
// Left out: assumeutxo snapshot chainstates with background validation (third clause of the statement); a real index holding the lock
// (the lock mechanism itself is driven directly); node restart with pruned files.
#include <engine/verif.h>
#include <kits/chainsim.h>

#include <node/blockstorage.h>
#include <undo.h>
#include <util/fs.h>
#include <util/time.h>

#include <limits>
#include <map>
#include <set>

using namespace verif;

// hook H2 (/repo/src/node/blockstorage.cpp, guard BITCOIN_VERIF_HOOKS): floor of the automatic prune target and the allocation buffer of FindFilesToPrune
namespace verif {
extern uint64_t g_min_prune_target;
extern uint64_t g_prune_buffer;
} // namespace verif

namespace {

constexpr uint64_t DEFAULT_MIN_PRUNE_TARGET = 550ULL << 20;          // MIN_DISK_SPACE_FOR_BLOCK_FILES
constexpr uint64_t DEFAULT_PRUNE_BUFFER = (16ULL << 20) + (1ULL << 20); // BLOCKFILE_CHUNK_SIZE + UNDOFILE_CHUNK_SIZE

void init() {}

struct Rec {
    bool data{false}, undo{false};
    int file{-1};
};

struct Snapshot {
    std::map<uint256, Rec> rec;             //!< per stored block
    std::map<int, std::vector<uint256>> files; //!< file -> blocks with data in it
};

struct Harness {
    ChainSim& sim;
    Stats& st;
    std::map<std::string, int> locks; //!< model of the prune locks: name -> height
    std::set<uint256> stored;         //!< blocks delivered with data
    int prune_events{0}, files_pruned_total{0}, auto_events{0};
    bool straddle{false}, lock_inside_eligible{false};
    bool auto_mode{false};
    uint64_t target{0}, buffer{0};
    bool stopped_under_target{false}, stopped_no_eligible{false};

    Harness(ChainSim& s_, Stats& st_) : sim(s_), st(st_) {}

    node::BlockManager& Blockman() { return sim.chainman().m_blockman; }

    Snapshot Take()
    {
        Snapshot sn;
        LOCK(cs_main);
        for (const uint256& h : stored) {
            const CBlockIndex* pi = Blockman().LookupBlockIndex(h);
            assert(pi);
            Rec r;
            r.data = pi->nStatus & BLOCK_HAVE_DATA;
            r.undo = pi->nStatus & BLOCK_HAVE_UNDO;
            r.file = r.data ? pi->nFile : -1;
            sn.rec[h] = r;
            if (r.data) sn.files[r.file].push_back(h);
        }
        return sn;
    }

    bool Readable(const uint256& h, bool want_undo, std::string& why)
    {
        const CBlockIndex* pi;
        { LOCK(cs_main); pi = Blockman().LookupBlockIndex(h); }
        CBlock b;
        if (!Blockman().ReadBlock(b, *pi)) { why = "ReadBlock failed"; return false; }
        if (b.GetHash() != h) { why = "ReadBlock returned another block"; return false; }
        if (want_undo && pi->nHeight > 0) {
            CBlockUndo u;
            if (!Blockman().ReadBlockUndo(u, *pi)) { why = "ReadBlockUndo failed"; return false; }
        }
        return true;
    }

    /** the model's protected set at this moment */
    bool Protected(const uint256& h, const uint256& tip, int tip_height, std::string& why) const
    {
        const RefBlock& b = sim.ledger.At(h);
        if (b.height >= tip_height - 287 && sim.ledger.IsAncestor(h, tip)) { why = "within the last 288 blocks of the active tip"; return true; }
        for (auto& [name, lh] : locks) {
            if (b.height > lh) { why = "above prune lock " + name + "@" + std::to_string(lh); return true; }
        }
        return false;
    }

    /** bytes the node accounts per block file (block data + undo data) */
    std::map<int, uint64_t> FileSizes(const Snapshot& sn)
    {
        std::map<int, uint64_t> out;
        LOCK(cs_main);
        for (auto& [file, blocks] : sn.files) {
            auto* fi = Blockman().GetBlockFileInfo(size_t(file));
            out[file] = uint64_t(fi->nSize) + uint64_t(fi->nUndoSize);
        }
        return out;
    }

    static bool LostData(const Snapshot& before, const Snapshot& after)
    {
        for (auto& [h, b4] : before.rec) if (b4.data && !after.rec.at(h).data) return true;
        return false;
    }

    /** automatic pruning clause: called after a block delivery in auto mode with the snapshot/sizes taken before it */
    void AfterDelivery(const Snapshot& before, const std::map<int, uint64_t>& sizes_before, int tip_height_before)
    {
        Snapshot after = Take();
        if (!LostData(before, after)) return;
        auto_events++;
        int th = sim.TipHeight();
        AfterPrune(before, after, "auto-prune", th);
        // files pruned by this pass, in file order
        std::vector<int> pruned;
        for (auto& [file, blocks] : before.files) if (!after.rec.at(blocks.front()).data) pruned.push_back(file);
        uint64_t usage_after = WITH_LOCK(cs_main, return Blockman().CalculateCurrentUsage());
        // (1) the pass went on until usage was back under the target, or no eligible file was left. Eligible (PruneLockInfo documentation: only heights
        //     <= lock - 11 are pruned; never the last 288 blocks; never the file being written): every block of the file at a height <= bound.
        //     The pass triggered by the block write (AcceptBlock) runs BEFORE the new block is connected, i.e. with the previous tip: use that bound.
        int bound = tip_height_before - 288;
        for (auto& [name, lh] : locks) bound = std::min(bound, lh - 11);
        int current_file = after.files.empty() ? -1 : after.files.rbegin()->first;
        bool eligible_left = false;
        int eligible_file = -1;
        for (auto& [file, blocks] : after.files) {
            if (file >= current_file) continue;
            int hmax = -1;
            for (auto& h : blocks) hmax = std::max(hmax, sim.ledger.At(h).height);
            if (hmax <= bound) { eligible_left = true; eligible_file = file; break; }
        }
        st.steps++;
        // slack: the pass triggered by the block write runs before the (tiny, the blocks have no spends) undo record of that block is written
        VCHECK(usage_after < target + 1000 || !eligible_left, "c19.auto-prune-stops-early", "after an automatic prune pass usage", usage_after, ">= target", target,
               "although file", eligible_file, "is still eligible (bound", bound, ") tip", th);
        if (usage_after < target + 1000) stopped_under_target = true; else stopped_no_eligible = true;
        // (2) it did not go on after usage was back under the target: when the LAST pruned file was removed, usage + buffer was still >= target
        //     (usage then <= usage_after + size of that file, because usage only grew afterwards)
        if (!sim.chainman().IsInitialBlockDownload()) { // in IBD with headers ahead the node deliberately prunes ahead (documented extra buffer)
            uint64_t before_last = usage_after + sizes_before.at(pruned.back());
            st.steps++;
            VCHECK(before_last + buffer >= target, "c19.over-pruned", "file", pruned.back(), "was pruned although usage", before_last, "+ buffer", buffer, "was already under the target", target);
        } else {
            st.cls("ibd-during-auto-prune");
        }
        st.cls("auto-prune-event");
    }

    /** compare the node after a prune event with the snapshot taken before it */
    void AfterPrune(const Snapshot& before, const char* what, int request)
    {
        Snapshot after = Take();
        AfterPrune(before, after, what, request);
    }
    void AfterPrune(const Snapshot& before, const Snapshot& after, const char* what, int request)
    {
        prune_events++;
        uint256 tip = sim.TipHash();
        int th = sim.TipHeight();
        // per file: all or nothing
        int pruned_files = 0;
        for (auto& [file, blocks] : before.files) {
            int kept = 0, lost = 0, hmin = std::numeric_limits<int>::max(), hmax = -1;
            bool any_protected = false, lock_prot = false, lock_free = false;
            for (auto& h : blocks) {
                const Rec& a = after.rec.at(h);
                if (a.data) ++kept; else ++lost;
                int bh = sim.ledger.At(h).height;
                hmin = std::min(hmin, bh); hmax = std::max(hmax, bh);
                std::string why;
                bool p = Protected(h, tip, th, why);
                any_protected |= p;
                if (p && why[0] == 'a') lock_prot = true;
                if (!p) lock_free = true;
            }
            st.steps++;
            VCHECK(kept == 0 || lost == 0, "c19.file-partial", what, "file", file, "lost the data of", lost, "blocks but kept", kept);
            if (lost) ++pruned_files;
            // non-triviality: a file that straddles the 288-window boundary or that a lock cuts through, while the request reached into it
            if (hmin <= th - 288 && hmax > th - 288 && request >= th - 288 - 3) straddle = true;
            if (lock_prot && lock_free && request >= hmin) lock_inside_eligible = true;
            (void)any_protected;
        }
        files_pruned_total += pruned_files;
        // per block: protected => kept and readable; flagged => readable; the file is really gone or really there
        for (auto& [h, b4] : before.rec) {
            const Rec& a = after.rec.at(h);
            std::string why;
            if (b4.data && Protected(h, tip, th, why)) {
                st.steps++;
                VCHECK(a.data, "c19.needed-block-pruned", what, "request", request, "block at height", sim.ledger.At(h).height, h.ToString(), "was pruned although it is", why, "tip", th);
                if (b4.undo) VCHECK(a.undo, "c19.needed-undo-pruned", what, "request", request, "undo of block at height", sim.ledger.At(h).height, "was pruned although the block is", why);
            }
            VCHECK(!a.data || b4.data, "c19.model", "data appeared during pruning");
            if (a.data) {
                std::string err;
                st.steps++;
                VCHECK(Readable(h, a.undo, err), "c19.dangling", what, "block at height", sim.ledger.At(h).height, "is flagged as stored but", err, "file", a.file);
            }
        }
        if (pruned_files) st.cls("pruned-files");
        st.note(what, " req=", request, " tip=", th, " pruned_files=", pruned_files);
    }
};

} // namespace

VERIF_TARGET(c19_prune, init, 64, 600,
             "regtest node with -fastprune (64 KiB block files) in manual-prune mode: a chain of 300-620 blocks whose sizes are generated (0.3/3/12/30/70 KiB, so files hold "
             "1..N blocks), short forks near the tip (stale blocks share files), then <=16 ops: manual prune at heights around tip-288, around lock-11, tiny and beyond "
             "the tip; register/move/delete prune locks; extend the chain; reorgs of depth 1-4 (locks at the tip move back); headers announced ahead of the tip. After every "
             "prune: keep-set model vs block index flags + disk reads. non-trivial = a prune request reached into a file straddling the 288 boundary or cut by a lock; "
             "distinct = op sequence + boundary offsets")
{
    // hook H2 back to the production values at the top of every case
    verif::g_min_prune_target = DEFAULT_MIN_PRUNE_TARGET;
    verif::g_prune_buffer = DEFAULT_PRUNE_BUFFER;
    // the base chain's timestamps start at the regtest genesis time: a mock clock one hour later keeps the tip "recent" (node leaves IBD),
    // so the IBD-only extra prune buffer stays out of the automatic-prune model
    SetMockTime(1296688602 + 3600);
    const bool auto_mode = s.chance(110);
    ChainSimOpts o;
    o.extra_args = {"-fastprune"};
    o.fast_prune = true;
    o.prune_target = node::BlockManager::PRUNE_TARGET_MANUAL;
    uint64_t auto_target = 0, auto_buffer = 0;
    if (auto_mode) {
        // 0.75 .. 5 MiB: the last 288 blocks hold ~3 MiB on average, so both ways a pass can end are reached (back under the target / no eligible file left)
        auto_target = uint64_t(s.range<unsigned>(12, 80)) * 65536;
        auto_buffer = s.pick<uint64_t>({0, 20000, 70000, 140000});
        o.prune_target = auto_target;
        verif::g_min_prune_target = 1;
        verif::g_prune_buffer = auto_buffer;
    }
    o.check_block_index = 0; // CheckBlockIndex walks the whole index per block: too slow for 600-block chains (C08/C54 own that check)
    auto simp = std::make_unique<ChainSim>(o);
    ChainSim& sim = *simp;
    Harness H(sim, st);
    H.auto_mode = auto_mode; H.target = auto_target; H.buffer = auto_buffer;
    st.cls(auto_mode ? "auto-mode" : "manual-mode");
    st.mix(uint64_t(auto_mode)); st.mix(auto_buffer);
    auto base = sim.LoadBase(104);
    for (auto& h : base) H.stored.insert(h);
    H.stored.insert(sim.ledger.genesis);
    unsigned tag = 0;
    auto add_block = [&](const uint256& parent, unsigned size_class) -> uint256 {
        static const size_t SIZES[] = {0, 3000, 12000, 30000, 70000};
        size_t payload = SIZES[size_class % 5];
        BlockSpec spec;
        spec.prev = parent;
        spec.extra_nonce = ++tag;
        while (payload > 0) {
            size_t n = std::min<size_t>(payload, 9000);
            CScript sc;
            sc << OP_RETURN;
            sc.insert(sc.end(), n, uint8_t(0x51));
            spec.extra_coinbase_outputs.emplace_back(0, sc);
            payload -= n;
        }
        auto blk = sim.Build(spec);
        Snapshot before;
        std::map<int, uint64_t> sizes;
        int tip_height_before = sim.TipHeight();
        if (H.auto_mode) { before = H.Take(); sizes = H.FileSizes(before); }
        auto d = sim.Deliver(blk);
        VCHECK(d.processed && (!d.verdict || d.verdict->IsValid()), "c19.model", "valid block rejected", d.verdict ? StateStr(*d.verdict) : "not processed");
        H.stored.insert(blk->GetHash());
        if (H.auto_mode) H.AfterDelivery(before, sizes, tip_height_before);
        return blk->GetHash();
    };
    auto reorg = [&](int depth, unsigned size_class) {
        uint256 tip = sim.TipHash();
        int th = sim.TipHeight();
        int fork_h = th - depth;
        uint256 parent = sim.ledger.AncestorAt(tip, fork_h);
        for (int i = 0; i <= depth; ++i) parent = add_block(parent, size_class + i);
        VCHECK(sim.TipHash() == parent, "c19.model", "longer branch did not become active");
        // model: every disconnect of a block at height h moves locks above h-1 back to h-1; net effect: locks above the fork height end at the fork height
        for (auto& [name, lh] : H.locks) if (lh > fork_h) lh = fork_h;
    };

    // ---- phase A: the chain (one generated byte per run of 8 blocks: size pattern of the run, whether it ends in a short fork)
    int target_height = 300 + int(s.range<unsigned>(0, 8)) * 40; // 300..620
    unsigned size_bias = s.range<unsigned>(0, 3);
    while (sim.TipHeight() < target_height) {
        unsigned b = s.exhausted() ? 0 : s.range<unsigned>(0, 255);
        for (int i = 0; i < 8 && sim.TipHeight() < target_height; ++i) {
            unsigned r = (b * 5 + unsigned(i) * 7 + (b >> 4)) % 16;
            unsigned sc = r < 6 ? 0 : (r < 10 ? 1 : (r < 13 ? 2 : (r < 15 ? 3 : 4)));
            if (b == 0) sc = 0;
            if (size_bias == 1 && sc == 0) sc = 1;
            if (size_bias == 2 && sc == 1) sc = 3;
            if (size_bias == 3 && i == 7) sc = 4;
            add_block(sim.TipHash(), sc);
        }
        if (!H.auto_mode && b % 32 == 31 && sim.TipHeight() > 110) { reorg(int(b / 32) % 3 + 1, b % 3); st.cls("fork-in-history"); }
    }
    st.mix(uint64_t(target_height / 40)); st.mix(uint64_t(size_bias));
    {
        size_t nfiles = H.Take().files.size();
        st.note("chain h=", sim.TipHeight(), " files=", nfiles);
        st.cls(nfiles >= 20 ? "files>=20" : "files<20");
    }
    // ---- phase B: prune / lock / chain ops
    unsigned nops = s.range<unsigned>(2, 16);
    int lock_ctr = 0;
    for (unsigned op = 0; op < nops; ++op) {
        unsigned kind = s.exhausted() ? 0 : s.range<unsigned>(0, 9);
        int th = sim.TipHeight();
        if (kind <= 3) { // manual prune
            int req;
            unsigned how = s.range<unsigned>(0, 5);
            int d = int(s.range<unsigned>(0, 6)) - 3;
            if (how <= 1) req = th - 288 + d;
            else if (how == 2 && !H.locks.empty()) { auto it = H.locks.begin(); std::advance(it, s.index(H.locks.size())); req = it->second - 11 + d; }
            else if (how == 3) req = th + d * 10;
            else if (how == 4) req = 1 + int(s.range<unsigned>(0, 120));
            else req = int(s.range<unsigned>(1, unsigned(th)));
            if (req < 1) req = 1; // precondition of PruneBlockFilesManual (RPC rejects other values; FindFilesToPruneManual asserts > 0)
            Snapshot before = H.Take();
            PruneBlockFilesManual(sim.chainstate(), req);
            H.AfterPrune(before, "manual-prune", req);
            st.mix(uint64_t(0x100 + how * 8 + (d + 3)));
            st.cls("manual-prune");
            if (req > th - 288) st.cls("request-inside-window");
        } else if (kind <= 5) { // prune locks
            unsigned how = s.range<unsigned>(0, 4);
            if (how == 0 && !H.locks.empty()) {
                auto it = H.locks.begin(); std::advance(it, s.index(H.locks.size()));
                { LOCK(cs_main); H.Blockman().DeletePruneLock(it->first); }
                st.note("unlock ", it->first);
                H.locks.erase(it);
                st.mix(uint64_t(0x200));
            } else {
                int lh;
                unsigned where = s.range<unsigned>(0, 4);
                int d = int(s.range<unsigned>(0, 30)) - 15;
                if (where == 0) lh = th - 288 + d;
                else if (where == 1) lh = th - 288 - int(s.range<unsigned>(0, 200));
                else if (where == 2) lh = th - int(s.range<unsigned>(0, 3)); // at the tip: moved back by a reorg
                else lh = 1 + int(s.range<unsigned>(0, unsigned(th)));
                if (lh < 1) lh = 1;
                std::string name = (how == 1 && !H.locks.empty()) ? H.locks.begin()->first : "L" + std::to_string(lock_ctr++ % 3);
                { LOCK(cs_main); H.Blockman().UpdatePruneLock(name, node::PruneLockInfo{.height_first = lh}); }
                H.locks[name] = lh;
                st.note("lock ", name, "@", lh);
                st.mix(uint64_t(0x210 + where));
                st.cls("lock");
            }
        } else if (kind == 6) { // extend
            unsigned n = s.range<unsigned>(1, 30);
            unsigned sc = s.range<unsigned>(0, 4);
            for (unsigned i = 0; i < n; ++i) add_block(sim.TipHash(), (i % 3 == 0) ? sc : 0);
            st.note("extend ", n);
            st.mix(uint64_t(0x300 + sc));
        } else if (kind == 7 && !H.auto_mode) { // reorg near the tip (manual mode only: in auto mode one block per delivery keeps the usage accounting of a pass simple)
            int depth = int(s.range<unsigned>(1, 4));
            reorg(depth, s.range<unsigned>(0, 2));
            st.note("reorg depth=", depth);
            st.mix(uint64_t(0x400 + depth)); st.cls("reorg");
        } else { // headers announced ahead of the tip (no block data): the prune window must follow the ACTIVE tip
            unsigned n = s.range<unsigned>(1, 60);
            std::vector<CBlockHeader> hdrs;
            uint256 parent = sim.TipHash();
            for (unsigned i = 0; i < n; ++i) {
                BlockSpec spec;
                spec.prev = parent;
                spec.extra_nonce = ++tag;
                auto blk = sim.Build(spec);
                hdrs.push_back(static_cast<const CBlockHeader&>(*blk));
                parent = blk->GetHash();
            }
            BlockValidationState state;
            bool ok = sim.chainman().ProcessNewBlockHeaders(hdrs, /*min_pow_checked=*/true, state);
            VCHECK(ok, "c19.model", "valid headers rejected", state.ToString());
            st.note("headers +", n);
            st.mix(uint64_t(0x500)); st.cls("headers-ahead");
        }
    }
    if (H.auto_mode) {
        if (H.auto_events == 0) st.cls("auto-mode-never-pruned");
        if (H.stopped_under_target) st.cls("auto-stopped-under-target");
        if (H.stopped_no_eligible) st.cls("auto-stopped-no-eligible-file");
    }
    st.nontrivial = H.straddle || H.lock_inside_eligible;
    if (H.straddle) st.cls("straddling-file");
    if (H.lock_inside_eligible) st.cls("lock-cuts-file");
    if (H.files_pruned_total == 0) st.cls("nothing-pruned");
    st.note("prune_events=", H.prune_events, " files_pruned=", H.files_pruned_total);
}
