// C59 — Inbound eviction never picks a protected peer.
// Oracle (from the statement, independent of eviction.cpp): the selected id, if any, belongs to a candidate that is inbound
// and not noban, and that is NOT "protected under every ordering of ties" in any of the four categories, where for a
// category with key K and quota q a peer x is protected-for-sure iff fewer than q OTHER candidates (counted over ALL
// candidates, including noban / non-inbound ones) have a key at least as good as K(x) (ties count against x).
// One-directional: nothing is asserted about who *is* selected, nor that somebody is selected.
#include <engine/verif.h>

#include <net.h>
#include <node/connection_types.h>
#include <node/eviction.h>
#include <util/time.h>

#include <algorithm>
#include <chrono>
#include <optional>
#include <string>
#include <vector>

namespace {

struct RC {
    int64_t id;
    int64_t connected_s; // connection time (seconds); larger = younger
    int64_t ping_us;
    int64_t blk_s, tx_s; // last novel block / tx time (seconds), 0 = never
    bool relevant, relay, bloom;
    uint64_t group;
    bool prefer, local;
    Network net;
    bool noban;
    ConnectionType conn;
};

enum Cat { NETGROUP = 0, PING = 1, TXTIME = 2, BLOCKTIME = 3 };
const char* cat_name(int c) { static const char* n[] = {"netgroup", "ping", "txtime", "blocktime"}; return n[c]; }
constexpr int QUOTA[4] = {4, 8, 4, 4}; // from the statement

/** true iff candidate j's key in category c is at least as good as candidate x's */
bool at_least_as_good(const RC& j, const RC& x, int c)
{
    switch (c) {
    case NETGROUP: return j.group >= x.group;
    case PING: return j.ping_us <= x.ping_us;
    case TXTIME: return j.tx_s >= x.tx_s;
    default: return j.blk_s >= x.blk_s;
    }
}

int count_rivals(const std::vector<RC>& v, size_t x, int c)
{
    int n = 0;
    for (size_t j = 0; j < v.size(); ++j) if (j != x && at_least_as_good(v[j], v[x], c)) ++n;
    return n;
}

NodeEvictionCandidate to_impl(const RC& r)
{
    return NodeEvictionCandidate{
        /*id=*/r.id,
        /*m_connected=*/NodeClock::time_point{std::chrono::seconds{r.connected_s}},
        /*m_min_ping_time=*/std::chrono::microseconds{r.ping_us},
        /*m_last_block_time=*/std::chrono::seconds{r.blk_s},
        /*m_last_tx_time=*/std::chrono::seconds{r.tx_s},
        /*fRelevantServices=*/r.relevant,
        /*m_relay_txs=*/r.relay,
        /*fBloomFilter=*/r.bloom,
        /*nKeyedNetGroup=*/r.group,
        /*prefer_evict=*/r.prefer,
        /*m_is_local=*/r.local,
        /*m_network=*/r.net,
        /*m_noban=*/r.noban,
        /*m_conn_type=*/r.conn,
    };
}

/** splitmix64: per-candidate attributes are expanded from an 8-byte seed taken from the choice source (keeps cases small; still a pure function of the bytes) */
struct Prng {
    uint64_t x;
    uint64_t next() { uint64_t z = (x += 0x9e3779b97f4a7c15ULL); z = (z ^ (z >> 30)) * 0xbf58476d1ce4e5b9ULL; z = (z ^ (z >> 27)) * 0x94d049bb133111ebULL; return z ^ (z >> 31); }
    int below(int n) { return n <= 0 ? 0 : int(next() % uint64_t(n)); }
    int range(int lo, int hi) { return lo + below(hi - lo + 1); }
    bool chance(unsigned num_of_256) { return (next() & 0xff) < num_of_256; }
    bool boolean() { return next() & 1; }
};

const Network NETS[] = {NET_IPV4, NET_IPV6, NET_ONION, NET_I2P, NET_CJDNS, NET_INTERNAL, NET_UNROUTABLE};
const ConnectionType CONNS[] = {ConnectionType::INBOUND, ConnectionType::OUTBOUND_FULL_RELAY, ConnectionType::MANUAL, ConnectionType::FEELER,
                                ConnectionType::BLOCK_RELAY, ConnectionType::ADDR_FETCH};

} // namespace

VERIF_TARGET(c59_eviction, nullptr, 12, 40,
             "candidate sets of 0-130 peers with attributes from small value sets (dense ties in netgroup key, min ping, last tx/block time, connect time), "
             "random relay/bloom/services flags, networks (IPv4/6, onion, I2P, CJDNS, localhost), noban and non-inbound peers mixed in; half of the cases "
             "plant a 'victim' (youngest, prefer_evict, IPv4, worst in three categories) whose rank in the fourth category is set to quota-2..quota+1 "
             "rivals (rivals may be noban/outbound, tied or strictly better), input order shuffled; oracle = selected peer is inbound, not noban and not "
             "protected-for-sure in any category computed over all candidates; non-trivial = somebody was selected from >= 29 candidates; "
             "distinct = (size bucket, mode, victim category/rival delta, selected or not, noban/outbound buckets)")
{
    std::vector<RC> v;
    const bool victim_mode = s.boolean();
    int n = s.chance(150) ? s.range<int>(30, 130) : s.range<int>(0, 40);
    if (victim_mode) n = std::max(n, 34);
    const int ngroups = s.chance(128) ? s.range<int>(1, 8) : 1000;
    const int nvals = s.range<int>(1, 6); // size of the value sets => density of ties
    const unsigned p_noban = s.pick<unsigned>({0u, 16u, 48u, 128u}), p_out = s.pick<unsigned>({0u, 16u, 48u, 128u});
    const unsigned p_special_net = s.pick<unsigned>({0u, 32u, 96u, 200u});
    // victim parameters are drawn before the bulk data so that they are never starved
    const int vcat_draw = s.range<int>(0, 3);
    const int vdelta_draw = s.range<int>(0, 3) - 1; // rivals = quota-1+delta: -1/0 => protected for sure, +1/+2 => not
    Prng r0{s.ConsumeIntegral<uint64_t>()};
    Prng& g = r0;
    for (int i = 0; i < n; ++i) {
        RC r{};
        r.connected_s = 1000 + (g.chance(128) ? g.range(0, nvals) * 100 : g.range(0, 2000));
        r.ping_us = g.chance(200) ? int64_t(1 + g.range(0, nvals)) * 10000 : int64_t(g.range(0, 2000000));
        r.blk_s = g.chance(100) ? 0 : g.range(0, nvals) * 7;
        r.tx_s = g.chance(100) ? 0 : g.range(0, nvals) * 5;
        r.relevant = g.boolean(); r.relay = g.boolean(); r.bloom = g.chance(64);
        r.group = uint64_t(g.range(0, ngroups - 1)) * 1000003u;
        r.prefer = g.chance(victim_mode ? 12 : 64);
        r.local = g.chance(p_special_net / 4);
        r.net = g.chance(p_special_net) ? NETS[2 + g.below(3)] : NETS[g.below(2)];
        if (g.chance(8)) r.net = NETS[5 + g.below(2)];
        r.noban = g.chance(p_noban);
        r.conn = g.chance(p_out) ? CONNS[1 + g.below(5)] : ConnectionType::INBOUND;
        v.push_back(r);
    }
    int vcat = -1, vdelta = 0;
    size_t vpos = 0;
    if (victim_mode) {
        vcat = vcat_draw;
        vdelta = vdelta_draw;
        const int rivals = QUOTA[vcat] - 1 + vdelta;
        vpos = size_t(g.below(int(v.size())));
        RC& x = v[vpos];
        x.conn = ConnectionType::INBOUND; x.noban = false; x.prefer = true; x.local = false; x.net = NET_IPV4;
        x.relay = true; x.bloom = true; x.relevant = false;
        x.connected_s = 5000; // youngest of all
        // worst everywhere ...
        x.group = 0; x.ping_us = 3000000; x.tx_s = 0; x.blk_s = 0;
        // ... make sure at least quota others are strictly better in the three other categories
        for (int c = 0; c < 4; ++c) {
            if (c == vcat) continue;
            for (int k = 0; k < QUOTA[c] + 2; ++k) {
                RC& o = v[(vpos + 1 + size_t(c) * 10 + size_t(k)) % v.size()];
                if (&o == &x) continue;
                if (c == NETGROUP && o.group == 0) o.group = 1000003u * uint64_t(1 + k);
                if (c == TXTIME && o.tx_s == 0) o.tx_s = 5;
                if (c == BLOCKTIME && o.blk_s == 0) o.blk_s = 7;
            }
        }
        // ... except in category vcat: exactly `rivals` others at least as good, all the rest strictly worse
        const uint64_t XG = 500 * 1000003u;
        const int64_t XP = 50000, XT = 500, XB = 700;
        if (vcat == NETGROUP) x.group = XG; else if (vcat == PING) x.ping_us = XP; else if (vcat == TXTIME) x.tx_s = XT; else x.blk_s = XB;
        std::vector<size_t> others;
        for (size_t j = 0; j < v.size(); ++j) if (j != vpos) others.push_back(j);
        // choose the rivals: a pseudo-random subset driven by the source
        for (int k = 0; k < rivals && !others.empty(); ++k) {
            size_t pick = size_t(g.below(int(others.size())));
            RC& o = v[others[pick]];
            others.erase(others.begin() + long(pick));
            bool tie = g.chance(100);
            if (vcat == NETGROUP) o.group = tie ? XG : XG + 1000003u * uint64_t(1 + g.range(0, 3));
            else if (vcat == PING) o.ping_us = tie ? XP : XP - 1 - g.range(0, 40000);
            else if (vcat == TXTIME) o.tx_s = tie ? XT : XT + 1 + g.range(0, 50);
            else o.blk_s = tie ? XB : XB + 1 + g.range(0, 50);
        }
        for (size_t j : others) { // strictly worse than the victim
            RC& o = v[j];
            if (vcat == NETGROUP) { if (o.group >= XG) o.group %= XG; }
            else if (vcat == PING) { if (o.ping_us <= XP) o.ping_us = XP + 1 + o.ping_us; }
            else if (vcat == TXTIME) { if (o.tx_s >= XT) o.tx_s %= XT; }
            else { if (o.blk_s >= XB) o.blk_s %= XB; }
        }
    }
    // ids are unique (assigned before the shuffle); shuffled input order (std::sort is not stable: tie outcomes depend on the input order)
    for (size_t i = 0; i < v.size(); ++i) v[i].id = int64_t(1000 + i);
    const int64_t victim_id = victim_mode ? int64_t(1000 + vpos) : -1;
    for (size_t i = v.size(); i > 1; --i) std::swap(v[i - 1], v[size_t(g.below(int(i)))]);

    std::vector<NodeEvictionCandidate> impl;
    int n_noban = 0, n_out = 0;
    for (auto& r : v) { impl.push_back(to_impl(r)); n_noban += r.noban; n_out += r.conn != ConnectionType::INBOUND; }

    std::optional<NodeId> sel = SelectNodeToEvict(std::move(impl));
    st.steps++;
    st.note("n=", n, " noban=", n_noban, " non-inbound=", n_out, victim_mode ? " victim-mode cat=" : " random-mode", victim_mode ? cat_name(vcat) : "",
            victim_mode ? " rivals=quota-1+" : "", victim_mode ? std::to_string(vdelta) : "", " selected=", sel ? std::to_string(*sel) : "none");
    if (sel) {
        size_t x = v.size();
        for (size_t i = 0; i < v.size(); ++i) if (v[i].id == *sel) x = i;
        VCHECK(x < v.size(), "c59.selected-is-candidate", "selected id not among the candidates:", *sel);
        VCHECK(!v[x].noban, "c59.never-noban", "selected peer has noban permission, id", *sel);
        VCHECK(v[x].conn == ConnectionType::INBOUND, "c59.never-non-inbound", "selected peer is not inbound, id", *sel);
        for (int c = 0; c < 4; ++c) {
            int rivals = count_rivals(v, x, c);
            VCHECK(rivals >= QUOTA[c], "c59.never-protected-for-sure", "selected id", *sel, "is among the", QUOTA[c], "best by", cat_name(c),
                   "under every tie order: only", rivals, "other candidates are at least as good; n =", v.size());
            if (rivals == QUOTA[c]) st.cls(std::string("selected-just-outside-quota:") + cat_name(c));
        }
        st.cls("selected");
        if (victim_mode && v[x].id == victim_id) st.cls("victim-selected");
    } else {
        st.cls("none-selected");
    }
    if (victim_mode) {
        st.cls(vdelta <= 0 ? "victim:protected-for-sure" : "victim:not-protected");
        if (vdelta == 0) st.cls(std::string("victim:exactly-at-quota:") + cat_name(vcat));
        if (vdelta == 1) st.cls(std::string("victim:just-outside-quota:") + cat_name(vcat));
    }
    if (n_noban) st.cls("has-noban");
    if (n_out) st.cls("has-non-inbound");
    // how many peers are protected-for-sure in some category (information only)
    int sure = 0;
    for (size_t i = 0; i < v.size(); ++i) { bool p = false; for (int c = 0; c < 4; ++c) p |= count_rivals(v, i, c) < QUOTA[c]; sure += p; }
    if (sure >= 12) st.cls("protected-for-sure>=12");
    st.nontrivial = sel.has_value() && n >= 29;
    st.mix(uint64_t(n / 8)); st.mix(uint64_t(victim_mode) | uint64_t(vcat + 1) << 1 | uint64_t(vdelta + 1) << 4 | uint64_t(sel.has_value()) << 7);
    st.mix(uint64_t(std::min(n_noban, 3)) | uint64_t(std::min(n_out, 3)) << 2 | uint64_t(std::min(sure / 4, 7)) << 4 | uint64_t(nvals) << 8 | uint64_t(std::min(ngroups, 9)) << 12);
}
