// C53 — Soft-fork deployment states follow BIP9.
// Oracle: an independent *forward* state machine over my own block tree (parent index, height, time, version), written from
// the statement / BIP9: no walk-back, no cache, own median-time-past, own signalling predicate. The implementation
// (VersionBitsConditionChecker on real CBlockIndex objects, cache shared between branches) must return the model's state
// for every queried block, in any query order, on a warm and on a fresh cache; since-height and statistics must be
// consistent with the same model.
// Precondition respected by the generator (DESIGN C53): every block's time is > median-time-past of its parent (the
// consensus rule; the only chains a block index can hold) => MTP is monotone along every branch, which the
// implementation's walk-back shortcut relies on. Times may still go backwards w.r.t. the parent's time.
#include <engine/verif.h>

#include <chain.h>
#include <consensus/params.h>
#include <primitives/block.h>
#include <versionbits.h>
#include <versionbits_impl.h>

#include <algorithm>
#include <climits>
#include <memory>
#include <set>
#include <string>
#include <vector>

namespace {

enum RState : int { R_DEFINED = 0, R_STARTED = 1, R_LOCKED_IN = 2, R_ACTIVE = 3, R_FAILED = 4 };
const char* rname(int s) { static const char* n[] = {"DEFINED", "STARTED", "LOCKED_IN", "ACTIVE", "FAILED"}; return n[s]; }

int to_r(ThresholdState s)
{
    switch (s) {
    case ThresholdState::DEFINED: return R_DEFINED;
    case ThresholdState::STARTED: return R_STARTED;
    case ThresholdState::LOCKED_IN: return R_LOCKED_IN;
    case ThresholdState::ACTIVE: return R_ACTIVE;
    case ThresholdState::FAILED: return R_FAILED;
    }
    return -1;
}

// special start values, from consensus/params.h documentation (not taken from the constants)
constexpr int64_t REF_ALWAYS_ACTIVE = -1;
constexpr int64_t REF_NEVER_ACTIVE = -2;
constexpr int64_t REF_NO_TIMEOUT = INT64_MAX;

struct Node {
    int parent;      // index into the node vector, -1 for genesis
    int height;
    int64_t time;
    int32_t version;
    bool sig;        // model's signalling predicate on `version`
    int64_t mtp;     // model's median-time-past of this block
    int state_after; // model state of the period starting at height+1 (only when (height+1) % P == 0), else -1
};

struct Model {
    int P, thr, bit, mah;
    int64_t start, timeout;
    std::vector<Node> n;

    /** BIP9: top three bits 001 and the deployment bit set */
    bool signals(int32_t version) const { uint32_t v = uint32_t(version); return (v >> 29) == 1 && ((v >> bit) & 1); }

    /** median of the times of the last (up to) 11 blocks ending at i; for fewer than 11 blocks the element at index n/2 */
    int64_t calc_mtp(int i) const
    {
        std::vector<int64_t> t;
        for (int k = 0; k < 11 && i >= 0; ++k, i = n[i].parent) t.push_back(n[i].time);
        std::sort(t.begin(), t.end());
        return t[t.size() / 2];
    }
    /** naive parent walk */
    int ancestor(int i, int h) const
    {
        if (h < 0) return -1;
        while (i >= 0 && n[i].height > h) i = n[i].parent;
        return i;
    }
    /** number of signalling blocks among the `cnt` blocks ending at i */
    int count_back(int i, int cnt) const
    {
        int c = 0;
        for (int k = 0; k < cnt && i >= 0; ++k, i = n[i].parent) c += n[i].sig;
        return c;
    }
    /** one forward step of the machine: state of the next period given the state of the period that ends with block i */
    int step(int prev_state, int i) const
    {
        switch (prev_state) {
        case R_DEFINED: return n[i].mtp >= start ? R_STARTED : R_DEFINED;
        case R_STARTED:
            if (count_back(i, P) >= thr) return R_LOCKED_IN; // lock-in takes precedence over the timeout
            if (n[i].mtp >= timeout) return R_FAILED;
            return R_STARTED;
        case R_LOCKED_IN: return (n[i].height + 1 >= mah) ? R_ACTIVE : R_LOCKED_IN;
        default: return prev_state; // ACTIVE, FAILED absorbing
        }
    }
    /** state of the block following `prev` (-1 = the genesis block itself) */
    int state_for(int prev) const
    {
        if (start == REF_ALWAYS_ACTIVE) return R_ACTIVE;
        if (start == REF_NEVER_ACTIVE) return R_FAILED;
        if (prev < 0) return R_DEFINED;
        int h = n[prev].height;
        int b = ancestor(prev, h - ((h + 1) % P)); // last block of the previous period
        return b < 0 ? R_DEFINED : n[b].state_after;
    }
    /** first height of the uninterrupted run of periods (ending at the period of prev+1) that have this state */
    int since_for(int prev) const
    {
        if (start == REF_ALWAYS_ACTIVE || start == REF_NEVER_ACTIVE) return 0;
        int st = state_for(prev);
        if (st == R_DEFINED || prev < 0) return 0;
        int h = n[prev].height;
        int b = ancestor(prev, h - ((h + 1) % P));
        // b = last block of previous period (exists since st != DEFINED)
        while (true) {
            int pb = ancestor(b, n[b].height - P);
            int pst = pb < 0 ? R_DEFINED : n[pb].state_after;
            if (pst != st) break;
            b = pb;
        }
        return n[b].height + 1;
    }
};

struct Gen {
    verif::Src& s;
    Model& m;
    bool time_backwards{false};
    // per-period drawing state
    int sigmode{0}, rot{0}, tmode{0}, vflav{0};
    uint32_t mask{0};

    void draw_period()
    {
        sigmode = s.range<int>(0, 9);
        rot = s.range<int>(0, m.P - 1);
        tmode = s.range<int>(0, 4);
        vflav = s.range<int>(0, 7);
        mask = (sigmode == 9) ? s.ConsumeIntegral<uint32_t>() : 0;
    }
    bool want_signal(int pos) const
    {
        int cnt;
        switch (sigmode) {
        case 0: case 1: case 2: cnt = 0; break;
        case 3: case 4: cnt = m.thr - 1; break;
        case 5: case 6: cnt = m.thr; break;
        case 7: cnt = m.thr + 1; break;
        case 8: cnt = m.P; break;
        default: return (mask >> pos) & 1;
        }
        return ((pos + rot) % m.P) < cnt;
    }
    int32_t make_version(bool sig)
    {
        uint32_t other = (vflav & 1) ? 0x00155555u : 0u; // other deployment bits
        uint32_t b = uint32_t{1} << m.bit;
        if (sig) return int32_t(0x20000000u | b | other);
        switch (vflav >> 1) {
        case 0: return int32_t(0x20000000u | (other & ~b)); // versionbits block without the bit
        case 1: return int32_t(0x40000000u | b | other);    // bit set but top bits 010
        case 2: return (vflav & 1) ? int32_t(0xa0000000u | b) : int32_t(0x60000000u | b); // top bits 101 (negative) / 011
        default: return (vflav & 1) ? 4 : int32_t(b | other); // old-style version / top bits 000
        }
    }
    /** append one block on top of `parent` */
    int add_block(int parent)
    {
        Node nd{};
        nd.parent = parent;
        nd.height = parent < 0 ? 0 : m.n[parent].height + 1;
        int pos = nd.height % m.P;
        if (pos == 0 || fresh_segment) { draw_period(); fresh_segment = false; }
        if (parent < 0) {
            nd.time = 1000000;
        } else {
            const Node& p = m.n[parent];
            int64_t lo = p.mtp + 1, cand;
            switch (tmode) {
            case 0: cand = lo; break;
            case 1: cand = p.time + 600; break;
            case 2: cand = lo + s.range<int>(0, 3); break;
            case 3: cand = (nd.height & 1) ? p.time + 50000 : lo; break;
            default: cand = p.time + s.range<int>(0, 7200); break;
            }
            nd.time = std::max(cand, lo);
            if (nd.time < p.time) time_backwards = true;
        }
        bool sig = want_signal(pos);
        nd.version = make_version(sig);
        nd.sig = m.signals(nd.version);
        nd.state_after = -1;
        m.n.push_back(nd);
        int i = int(m.n.size()) - 1;
        m.n[i].mtp = m.calc_mtp(i);
        return i;
    }
    bool fresh_segment{true};
};

struct Checker : public VersionBitsConditionChecker {
    using VersionBitsConditionChecker::VersionBitsConditionChecker;
};

} // namespace

VERIF_TARGET(c53_versionbits, nullptr, 24, 640,
             "block trees (main chain of 0-40 periods + up to 3 forks, period 2-32, threshold 1..period) with per-period signalling counts around the "
             "threshold and five timestamp regimes, all obeying time > MTP(parent) (times may go backwards); start/timeout picked at +-1 around the "
             "median time of period-end blocks (or 0 / never / NO_TIMEOUT / ALWAYS_ACTIVE / NEVER_ACTIVE), min_activation_height at +-1 around period "
             "boundaries; queries in random order on a warm cache shared by all branches and on fresh caches, one full-period sweep, final sweep of every "
             "block; oracle = own forward BIP9 machine (state, since-height, statistics); "
             "non-trivial = ordinary deployment whose queried answers cover >= 3 distinct states; "
             "distinct = (period/threshold class, main-chain state run sequence, fork divergence, boundary classes hit)")
{
    Model m;
    m.P = s.chance(80) ? s.range<int>(9, 32) : s.range<int>(2, 8);
    {
        int tm = s.range<int>(0, 3);
        m.thr = tm == 0 ? s.range<int>(1, m.P) : tm == 1 ? m.P : tm == 2 ? 1 : (m.P * 3 + 3) / 4;
    }
    m.bit = s.range<int>(0, 28);
    int nper = s.chance(40) ? s.range<int>(13, 40) : s.range<int>(0, 12);
    int extra = s.range<int>(0, m.P - 1);
    int nforks = s.range<int>(0, 3);
    int special = s.range<int>(0, 15); // 14 = always active, 15 = never active
    int start_mode = s.range<int>(0, 7), start_d = s.range<int>(-1, 1);
    int to_mode = s.range<int>(0, 7), to_d = s.range<int>(-1, 1);
    int mah_mode = s.range<int>(0, 3), mah_d = s.range<int>(-1, 1);

    // ---- build the tree (model nodes first; start/timeout are chosen afterwards from the resulting median times)
    m.start = 0; m.timeout = REF_NO_TIMEOUT; m.mah = 0;
    Gen g{s, m};
    int tip = -1;
    for (int k = 0; k < nper * m.P + extra; ++k) tip = g.add_block(tip);
    const int main_len = int(m.n.size());
    for (int f = 0; f < nforks && main_len > 0; ++f) {
        int at;
        if (s.boolean()) { // near a period boundary
            int per = s.range<int>(0, std::max(0, main_len / m.P));
            at = std::clamp(per * m.P - 1 + s.range<int>(-1, 1), 0, main_len - 1);
        } else {
            at = s.range<int>(0, main_len - 1);
        }
        int len = s.range<int>(1, 3 * m.P);
        g.fresh_segment = true;
        int t = at; // main-chain node index == height
        for (int k = 0; k < len; ++k) t = g.add_block(t);
    }
    const int N = int(m.n.size());

    std::vector<int> boundary; // nodes that end a period
    for (int i = 0; i < N; ++i) if ((m.n[i].height + 1) % m.P == 0) boundary.push_back(i);
    auto pick_boundary_mtp = [&]() -> int64_t { return boundary.empty() ? 1000000 : m.n[boundary[s.index(boundary.size())]].mtp; };
    int64_t max_time = 1000000;
    for (auto& nd : m.n) max_time = std::max(max_time, nd.time);

    if (special == 14) m.start = REF_ALWAYS_ACTIVE;
    else if (special == 15) m.start = REF_NEVER_ACTIVE;
    else switch (start_mode) {
        case 0: case 1: case 2: case 3: m.start = pick_boundary_mtp() + start_d; break;
        case 4: m.start = 0; break;
        case 5: m.start = 999999; break;                  // before the first block
        case 6: m.start = max_time + 1 + start_d; break;  // (almost) never reached
        default: m.start = s.range<int64_t>(1000000, max_time); break;
    }
    switch (to_mode) {
    case 0: m.timeout = REF_NO_TIMEOUT; break;
    case 1: case 2: case 3: { // around the median time of a period end at/after the start (where the deployment can be STARTED)
        std::vector<int> cand;
        for (int b : boundary) if (m.n[b].mtp >= m.start) cand.push_back(b);
        m.timeout = (cand.empty() ? pick_boundary_mtp() : m.n[cand[s.index(cand.size())]].mtp) + to_d;
        break;
    }
    case 4: m.timeout = (m.start >= 0 ? m.start : 0) + to_d; break; // around the start itself
    case 5: m.timeout = 0; break;
    case 6: m.timeout = max_time + 1; break;
    default: m.timeout = s.range<int64_t>(1000000, max_time); break;
    }
    {
        int per = s.range<int>(0, nper + 4);
        switch (mah_mode) {
        case 0: m.mah = 0; break;
        case 1: m.mah = std::max(0, per * m.P + mah_d); break;
        case 2: { // around the first height at which some locked-in branch could activate (or one period later)
            m.mah = 0;
            std::vector<int> lock;
            for (int i : boundary) {
                int pb = m.ancestor(i, m.n[i].height - m.P);
                m.n[i].state_after = m.step(pb < 0 ? R_DEFINED : m.n[pb].state_after, i);
                if (m.n[i].state_after == R_LOCKED_IN && (pb < 0 ? R_DEFINED : m.n[pb].state_after) == R_STARTED) lock.push_back(i);
            }
            if (lock.empty()) m.mah = std::max(0, per * m.P + mah_d);
            else m.mah = m.n[lock[s.index(lock.size())]].height + 1 + m.P * (1 + (per & 1)) + mah_d;
            break;
        }
        default: m.mah = s.boolean() ? INT_MAX : s.range<int>(0, (nper + 4) * m.P); break;
        }
    }
    const bool is_special = m.start < 0;

    // ---- model: forward pass in creation (= topological) order
    bool c_lockin_beats_timeout = false, c_cnt_eq = false, c_cnt_m1 = false, c_mtp_eq_start = false, c_mtp_lt_start = false,
         c_mtp_eq_to = false, c_mtp_lt_to = false, c_held = false, c_mah_exact = false, c_fork_div = false;
    std::vector<std::pair<int, int>> by_height; // (height, state_after) of boundary nodes
    for (int i : boundary) {
        Node& nd = m.n[i];
        int pb = m.ancestor(i, nd.height - m.P);
        int prev = pb < 0 ? R_DEFINED : m.n[pb].state_after;
        nd.state_after = m.step(prev, i);
        if (!is_special) {
            if (prev == R_DEFINED) { c_mtp_eq_start |= nd.mtp == m.start; c_mtp_lt_start |= nd.mtp == m.start - 1; }
            if (prev == R_STARTED) {
                int c = m.count_back(i, m.P);
                c_cnt_eq |= c == m.thr; c_cnt_m1 |= c == m.thr - 1;
                if (c >= m.thr && nd.mtp >= m.timeout) c_lockin_beats_timeout = true;
                if (c < m.thr) { c_mtp_eq_to |= nd.mtp == m.timeout; c_mtp_lt_to |= nd.mtp == m.timeout - 1; }
            }
            if (prev == R_LOCKED_IN) { c_held |= nd.state_after == R_LOCKED_IN; c_mah_exact |= nd.height + 1 == m.mah; }
            for (auto& [h, st2] : by_height) if (h == nd.height && st2 != nd.state_after) c_fork_div = true;
        }
        by_height.emplace_back(nd.height, nd.state_after);
    }

    // ---- implementation side: real CBlockIndex tree, one checker, a warm cache shared by all branches
    std::vector<std::unique_ptr<CBlockIndex>> idx;
    idx.reserve(N);
    for (int i = 0; i < N; ++i) {
        CBlockHeader hd;
        hd.nVersion = m.n[i].version;
        hd.nTime = uint32_t(m.n[i].time);
        hd.nBits = 0x207fffff;
        auto bi = std::make_unique<CBlockIndex>(hd);
        bi->pprev = m.n[i].parent < 0 ? nullptr : idx[m.n[i].parent].get();
        bi->nHeight = m.n[i].height;
        bi->BuildSkip();
        idx.push_back(std::move(bi));
    }
    Consensus::BIP9Deployment dep;
    dep.bit = m.bit;
    dep.nStartTime = m.start;
    dep.nTimeout = m.timeout;
    dep.min_activation_height = m.mah;
    dep.period = uint32_t(m.P);
    dep.threshold = uint32_t(m.thr);
    Checker checker(dep);
    ThresholdConditionCache warm;

    st.note("P=", m.P, " thr=", m.thr, " bit=", m.bit, " start=", m.start, " timeout=", m.timeout, " min_act_height=", m.mah,
            " main_blocks=", main_len, " total_blocks=", N);
    if (st.want_sample) {
        std::string seq;
        for (int i = 0; i < main_len; ++i) if (m.n[i].state_after >= 0) { seq += rname(m.n[i].state_after)[0]; if (m.n[i].state_after == R_LOCKED_IN) seq += 'k'; }
        st.note("main-chain period states after period 0: ", seq);
    }

    std::set<int> seen_states;
    unsigned n_fresh = 0, n_warm = 0;
    auto query = [&](int prev, bool fresh, bool with_since, bool with_stats, bool verbose) {
        const CBlockIndex* pp = prev < 0 ? nullptr : idx[prev].get();
        ThresholdConditionCache cold;
        ThresholdConditionCache& cache = fresh ? cold : warm;
        (fresh ? n_fresh : n_warm)++;
        int want = m.state_for(prev);
        int got = to_r(checker.GetStateFor(pp, cache));
        st.steps++;
        if (verbose) st.note("state(prev=", prev, " h=", (prev < 0 ? -1 : m.n[prev].height), fresh ? " fresh" : " warm", ")=", rname(want));
        VCHECK(got == want, "c53.state-vs-forward-machine", "prev_node", prev, "prev_height", (prev < 0 ? -1 : m.n[prev].height), "fresh_cache", fresh,
               "impl", rname(got), "model", rname(want), "P", m.P, "thr", m.thr, "start", m.start, "timeout", m.timeout, "mah", m.mah);
        seen_states.insert(want);
        if (with_since) {
            int ws = m.since_for(prev);
            int gs = checker.GetStateSinceHeightFor(pp, cache);
            st.steps++;
            VCHECK(gs == ws, "c53.since-height", "prev_node", prev, "impl", gs, "model", ws, "state", rname(want));
        }
        if (with_stats && prev >= 0) {
            std::vector<bool> sigs;
            BIP9Stats bs = checker.GetStateStatisticsFor(pp, &sigs);
            int h = m.n[prev].height;
            int elapsed = h % m.P + 1;
            int count = m.count_back(prev, elapsed);
            st.steps++;
            VCHECK(int(bs.period) == m.P && int(bs.threshold) == m.thr && int(bs.elapsed) == elapsed && int(bs.count) == count, "c53.statistics",
                   "prev_node", prev, "elapsed", bs.elapsed, elapsed, "count", bs.count, count);
            VCHECK(bs.possible == ((m.P - m.thr) >= (elapsed - count)), "c53.statistics", "possible flag", bs.possible);
            VCHECK(int(sigs.size()) == elapsed, "c53.statistics", "signalling vector size", sigs.size());
            int j = prev;
            for (int k = elapsed - 1; k >= 0; --k, j = m.n[j].parent) VCHECK(sigs[k] == m.n[j].sig, "c53.statistics", "signalling bit", k);
        }
    };

    // random-order queries, biased towards blocks around period boundaries
    int nq = s.range<int>(0, 24);
    for (int q = 0; q < nq; ++q) {
        int prev;
        unsigned how = s.range<unsigned>(0, 3);
        if (N == 0 || (how == 0 && s.chance(32))) prev = -1;
        else if (how <= 1 || boundary.empty()) prev = int(s.index(size_t(N)));
        else prev = std::clamp(boundary[s.index(boundary.size())] + s.range<int>(-1, 1), 0, N - 1); // note: index neighbour, usually height neighbour
        unsigned flags = s.range<unsigned>(0, 7);
        query(prev, flags & 1, flags & 2, flags & 4, true);
    }
    // all blocks of one period give the same answer (prev = last block of the previous period .. second-to-last of this one)
    if (!boundary.empty()) {
        int b = boundary[s.index(boundary.size())];
        // walk forward along the main chain if b is on it, else backwards over the previous period
        std::vector<int> group;
        if (b < main_len) { for (int h = m.n[b].height; h < std::min(main_len, m.n[b].height + m.P); ++h) group.push_back(h); }
        else { int j = m.n[b].parent; for (int k = 0; k < m.P && j >= 0 && (m.n[j].height + 1) % m.P != 0; ++k, j = m.n[j].parent) group.push_back(j); if (j >= 0) group.push_back(j); }
        bool fresh = s.boolean();
        int first = -2;
        for (int j : group) {
            int v = m.state_for(j);
            if (first == -2) first = v;
            VCHECK(v == first, "c53.model-selftest", "model gave two states within one period");
            query(j, fresh, true, false, false);
        }
        st.note("period sweep from node ", b, " (", group.size(), " blocks)");
    }
    // final sweep over every block on the warm cache (order: descending index, i.e. tips first), then again on one shared new cache ascending
    for (int i = N - 1; i >= -1; --i) query(i, false, (i % 3) == 0, (i % 5) == 0, false);
    {
        ThresholdConditionCache second;
        for (int i = -1; i < N; i += 1 + (N > 200 ? 2 : 0)) {
            const CBlockIndex* pp = i < 0 ? nullptr : idx[i].get();
            int got = to_r(checker.GetStateFor(pp, second));
            st.steps++;
            VCHECK(got == m.state_for(i), "c53.state-vs-forward-machine", "ascending sweep, node", i, "impl", rname(got), "model", rname(m.state_for(i)));
        }
    }

    // ---- accounting
    std::string runs; // run-length-compressed main-chain state sequence (run length capped at 3)
    {
        int last = -1, run = 0;
        for (int i = 0; i < main_len; ++i) {
            int v = m.n[i].state_after;
            if (v < 0) continue;
            if (v == last) { if (++run <= 3) runs += char('0' + v); }
            else { last = v; run = 1; runs += char('0' + v); }
        }
    }
    st.mix(runs);
    st.mix(uint64_t(m.P <= 4 ? 0 : m.P <= 11 ? 1 : 2));
    st.mix(uint64_t(m.thr == 1 ? 0 : m.thr == m.P ? 2 : 1));
    st.mix(uint64_t(c_fork_div) | uint64_t(c_lockin_beats_timeout) << 1 | uint64_t(c_cnt_eq) << 2 | uint64_t(c_cnt_m1) << 3 | uint64_t(c_mtp_eq_start) << 4 |
           uint64_t(c_mtp_eq_to) << 5 | uint64_t(c_held) << 6 | uint64_t(c_mah_exact) << 7 | uint64_t(is_special) << 8 | uint64_t(g.time_backwards) << 9 |
           uint64_t(std::min(nforks, N > 0 ? nforks : 0)) << 10);
    st.nontrivial = !is_special && seen_states.size() >= 3;
    if (m.start == REF_ALWAYS_ACTIVE) st.cls("special:always-active");
    if (m.start == REF_NEVER_ACTIVE) st.cls("special:never-active");
    if (!is_special) for (int v : seen_states) st.cls(std::string("reach:") + rname(v));
    if (c_lockin_beats_timeout) st.cls("lockin-beats-timeout");
    if (c_cnt_eq) st.cls("started:count==threshold");
    if (c_cnt_m1) st.cls("started:count==threshold-1");
    if (c_mtp_eq_start) st.cls("defined:mtp==start");
    if (c_mtp_lt_start) st.cls("defined:mtp==start-1");
    if (c_mtp_eq_to) st.cls("started:mtp==timeout");
    if (c_mtp_lt_to) st.cls("started:mtp==timeout-1");
    if (c_held) st.cls("lockedin-held-by-min-activation-height");
    if (c_mah_exact) st.cls("lockedin:height==min-activation-height");
    if (c_fork_div) st.cls("fork-divergent-states");
    if (g.time_backwards) st.cls("time-goes-backwards");
    if (n_fresh && n_warm) st.cls("warm-and-fresh-cache");
    if (m.timeout == REF_NO_TIMEOUT) st.cls("no-timeout");
}
