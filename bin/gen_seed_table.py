#!/usr/bin/env python3
"""Print the markdown table of independently seeded changes (seeded/<id>/meta.json + confirm.json) for DESIGN.md §8."""
import glob, json, os
V = os.path.dirname(os.path.dirname(os.path.abspath(__file__)))
rows = []
for d in sorted([p for p in glob.glob(os.path.join(V, "seeded", "C*")) if os.path.isdir(p)]):
    pid = os.path.basename(d)
    try:
        meta = json.load(open(os.path.join(d, "meta.json")))
    except Exception:
        meta = {}
    try:
        conf = json.load(open(os.path.join(d, "confirm.json")))["confirmed_by_coordinator"]
    except Exception:
        conf = None
    summ = (meta.get("summary") or "").replace("\n", " ").replace("|", "/")
    needs = (meta.get("needs_to_manifest") or "").replace("\n", " ").replace("|", "/")
    if len(summ) > 260: summ = summ[:257] + "..."
    if len(needs) > 220: needs = needs[:217] + "..."
    if conf is None:
        res = "not confirmed yet"
    else:
        ok = conf.get("suite_passes_with_patch") and conf.get("demo_on_baseline") == "pass" and str(conf.get("demo_with_patch", "")).startswith("FAIL")
        res = ("**caught** by `%s`" % conf.get("first_oracle")) if conf.get("check_quick_reports_violation") else "**MISSED** by the quick tier"
        if not ok:
            res += " (confirmation incomplete: suite=%s demo=%s/%s)" % (conf.get("suite_passes_with_patch"), conf.get("demo_on_baseline"), conf.get("demo_with_patch"))
    rows.append(f"| {pid} | {summ} | {needs} | {res} |")
print("| property | seeded change (author's summary) | needs to manifest | our quick check |")
print("|---|---|---|---|")
print("\n".join(rows))
