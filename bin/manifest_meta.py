"""Human-written manifest text per property (level text, trusted base, technique)."""
HOOKS = {
    "guard": "BITCOIN_VERIF_HOOKS",
    "enable": "bin/configure.sh passes -DBITCOIN_VERIF_HOOKS via APPEND_CPPFLAGS to the san/tsan build trees under /verif/build; /repo/_build never defines it",
    "baseline_off_cmd": "cmake --build /repo/_build -j16 && ctest --test-dir /repo/_build -j8 --timeout 900",
    "source_commits": ["b80b6ad"],
    "add_only": True,
}
ENGINES = [
    {"name": "E1", "path": "harness/engine", "kind_free_text": "choice-sequence property driver (C++): seeded generation / exhaustive enumeration, out-of-process byte shrinking, replay; targets in harness/targets, kits in harness/kits; upstream fuzz targets bridged as supplementary stages",
     "serves_properties": []},
    {"name": "E1+F", "path": "harness/engine/covshim.c", "kind_free_text": "libFuzzer coverage-guided campaigns on the same targets (g++ trace-pc/trace-cmp + shim + clang libFuzzer runtime), thorough tier, build tree build/fz",
     "serves_properties": ["C03", "C04", "C07", "C15", "C18", "C24", "C25", "C30", "C33", "C34", "C35", "C37", "C38", "C40", "C47", "C51", "C53", "C54", "C59", "C60", "C61"]},
    {"name": "E2", "path": "py/e2.py", "kind_free_text": "Hypothesis strategies + independent Python references (test_framework, refscript.py, ref_aes.py) against the C++ code through the persistent JSON-lines daemon harness/sutd",
     "serves_properties": ["C10", "C12", "C45", "C48", "C49", "C50"]},
    {"name": "E3", "path": "bin/crashsim", "kind_free_text": "crash-image enumeration: strace recorder, op-log parser, image builder (kill / dropped unsynced suffix / torn write / second crash during recovery), recovery oracle in a separate process",
     "serves_properties": ["C16", "C42", "C43", "C62"]},
    {"name": "E4", "path": "harness/kits/schedhook.h", "kind_free_text": "harness-owned schedules: thread-count and task-runner configurations against the serial run, seeded yields, ThreadSanitizer tree build/tsan in the thorough tier",
     "serves_properties": ["C14", "C63", "C65"]},
]
NOTES = ("All checks rebuild from /repo's working tree through ninja in /verif/build/san (g++ ASan+UBSan, -DABORT_ON_FAILED_ASSUME) before running. "
         "Exit 2 = broken run (build failure / degenerate generator), never a violation.")
NOT_APPLICABLE = {}
