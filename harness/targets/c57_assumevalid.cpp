// C57 — Scripts are skipped only under the assumed-valid conditions.
//
// Process-wide fixture (built once, deterministic): over the 104-block base a funding block F (height 105, pays four
// P2WPKH coins of a harness key) and two competing chains
//     A:  X1 X2 X3 (heights 106..108, each spends one P2WPKH coin with a CORRUPTED signature)  + 2030 crafted headers on X3
//     B:  Y1       (height 106, same kind of bad-signature block)                               + 2040 crafted headers on Y1
//     G1: the twin of X1 with the genuine signature (control).
// The long tails are header-only (real regtest PoW, arbitrary merkle roots): only their work matters.
// Per case: the assumed-valid hash (none / F / a block of A or B below, at or above the bad blocks / a header that is never
// delivered / a random hash), minimum chain work (none, best-header work -1/0/+1, far above), how many headers of each chain are known
// (so that the work on top of a bad block is 2016 +- 2 blocks = two weeks +- 20 minutes, or small), and which chain is fed first.
// Then the bad blocks are delivered in full, one by one.
//
// Oracle: own predicate from the statement, evaluated at the moment the block is connected
//     skip(b) = AV configured and its header known  &&  b is an ancestor of (or is) AV  &&  b lies on the best known header chain
//               &&  work(best header) >= minimum chain work  &&  (work on top of b in that chain) / (work per block) * 600 s  >  14 days
//   (cpp_int work from nBits).  A bad-signature block must be REJECTED unless skip(b)            [c57.bad-script-accepted]  (the statement)
//   and is accepted when skip(b) holds (DESIGN entry: iff)                                        [c57.skip-expected]
#include <engine/verif.h>
#include <kits/chainsim.h>

#include <chainparams.h>
#include <pow.h>
#include <test/util/script.h>

#include <boost/multiprecision/cpp_int.hpp>

using namespace verif;
using boost::multiprecision::cpp_int;

namespace {

constexpr int NE = 2030; //!< crafted headers above X3
constexpr int NS = 2040; //!< crafted headers above Y1
constexpr uint32_t BITS = 0x207fffff;

struct Fixture {
    bool built{false};
    std::shared_ptr<const CBlock> F, X[3], Y1, G1;
    std::vector<CBlockHeader> A; //!< chain A headers: index 0..2 = X1..X3, then the crafted tail        (A[i] has height 106+i)
    std::vector<CBlockHeader> B; //!< chain B headers: index 0 = Y1, then the crafted tail               (B[i] has height 106+i)
} g_fx;

CBlockHeader Craft(const CBlockHeader& prev, uint32_t salt)
{
    CBlockHeader h;
    h.nVersion = 0x20000000;
    h.hashPrevBlock = prev.GetHash();
    h.hashMerkleRoot = (HashWriter{} << salt << prev.GetHash()).GetHash(); // never validated: no block data is ever offered for these
    h.nTime = prev.nTime + 1;
    h.nBits = BITS;
    h.nNonce = 0;
    while (!CheckProofOfWork(h.GetHash(), h.nBits, Params().GetConsensus())) ++h.nNonce;
    return h;
}

void BuildFixture(ChainSim& sim, const std::vector<uint256>& base)
{
    if (g_fx.built) return;
    const CScript wpkh = sim.keys.Script(SpkType::P2WPKH, 1);
    // F: coinbase of height 1 -> four P2WPKH coins
    const CTransactionRef& cb1 = sim.block_store.at(base[0])->vtx[0];
    CAmount v = cb1->vout[0].nValue;
    std::vector<CTxOut> outs;
    for (int i = 0; i < 4; ++i) outs.emplace_back(v / 4, wpkh);
    CMutableTransaction fund = sim.MakeTx({{COutPoint(cb1->GetHash(), 0), RefCoin{v, cb1->vout[0].scriptPubKey, 1, true}}}, outs);
    BlockSpec sp;
    sp.prev = base.back(); sp.txs = {MakeTransactionRef(fund)}; sp.extra_nonce = 5700;
    g_fx.F = sim.Build(sp);
    const Txid fid = fund.GetHash();
    auto spend = [&](int out, bool corrupt) {
        CMutableTransaction tx = sim.MakeTx({{COutPoint(fid, out), RefCoin{v / 4, wpkh, 105, false}}}, {CTxOut(v / 4, P2WSH_OP_TRUE)});
        assert(tx.vin[0].scriptWitness.stack.size() == 2 && tx.vin[0].scriptWitness.stack[0].size() > 40);
        if (corrupt) tx.vin[0].scriptWitness.stack[0][20] ^= 0x01; // inside r of the DER signature: still well-formed, no longer valid
        return MakeTransactionRef(tx);
    };
    uint256 prev = g_fx.F->GetHash();
    for (int i = 0; i < 3; ++i) {
        BlockSpec s2; s2.prev = prev; s2.txs = {spend(i, true)}; s2.extra_nonce = 5710 + i;
        g_fx.X[i] = sim.Build(s2);
        prev = g_fx.X[i]->GetHash();
        g_fx.A.push_back(static_cast<const CBlockHeader&>(*g_fx.X[i]));
    }
    { BlockSpec s2; s2.prev = g_fx.F->GetHash(); s2.txs = {spend(3, true)}; s2.extra_nonce = 5720; g_fx.Y1 = sim.Build(s2); g_fx.B.push_back(static_cast<const CBlockHeader&>(*g_fx.Y1)); }
    { BlockSpec s2; s2.prev = g_fx.F->GetHash(); s2.txs = {spend(0, false)}; s2.extra_nonce = 5730; g_fx.G1 = sim.Build(s2); }
    for (int i = 0; i < NE; ++i) g_fx.A.push_back(Craft(g_fx.A.back(), 0xA0000000u + i));
    for (int i = 0; i < NS; ++i) g_fx.B.push_back(Craft(g_fx.B.back(), 0xB0000000u + i));
    g_fx.built = true;
}

cpp_int BlockProof(uint32_t bits)
{
    int exp = bits >> 24;
    cpp_int target = bits & 0x007fffff;
    if (exp <= 3) target >>= 8 * (3 - exp); else target <<= 8 * (exp - 3);
    return (cpp_int(1) << 256) / (target + 1);
}

} // namespace

VERIF_TARGET(c57_assumevalid, nullptr, 12, 40,
             "fixture: funding block + chain A (three bad-signature blocks X1..X3 + 2030 headers) and competing chain B (bad-signature block Y1 + 2040 "
             "headers) over a regtest base. Case: assumed-valid hash (none, below, at X1/X2/X3/Y1, a header above, the chain top, an undelivered header, "
             "random), minimum chain work (none, best-header work -1/0/+1 unit, far above), headers known per chain (work on top of a chosen bad block = 2016+d "
             "blocks, d in -2..2, or small), which chain has more header work, which chain is fed first; then the bad blocks are delivered in full in order. "
             "Oracle: own five-condition predicate (cpp_int work, 600 s spacing, >14 days) <=> the bad-signature block is accepted. non-trivial = a verdict "
             "was decided with at most one condition false; distinct = (AV choice, minwork choice, boundary offset, chain order, verdict vector)")
{
    // ---- choices
    unsigned avsel = s.range<unsigned>(0, 11);
    unsigned target_i = s.range<unsigned>(0, 3);         // bad block whose two-week boundary is aimed at: X1,X2,X3 (chain A) or Y1 (3)
    int d = s.pick<int>({1, 0, 1, 0, 2, -1, -2, 1, 0, 3}); // blocks on top of the target = 2016 + d   (skip needs d >= 1)
    bool small = s.chance(30);                          // instead: only a handful of headers on top
    unsigned bestsel = s.range<unsigned>(0, 3);         // 0,1: the target's chain has the most header work; 2: the other chain has one block more; 3: other chain short
    unsigned minsel = s.pick<unsigned>({0, 0, 2, 1, 3, 2, 0, 4});
    bool b_first = s.boolean();
    bool control = s.chance(12);

    const bool tgtA = target_i < 3;
    int on_top = small ? s.range<int>(0, 40) : 2016 + d;
    // known headers per chain, counted from the first block after F (X1 / Y1 = 1)
    int hA, hB;
    if (tgtA) { hA = int(target_i) + 1 + on_top; hA = std::max(hA, 3); hB = bestsel == 2 ? hA + 1 : (bestsel == 3 ? s.range<int>(1, 8) : hA - 1 - s.range<int>(0, 3)); }
    else      { hB = 1 + on_top;                 hA = bestsel == 2 ? hB + 1 : (bestsel == 3 ? s.range<int>(3, 8) : hB - 1 - s.range<int>(0, 3)); }
    hA = std::clamp(hA, 3, 3 + NE);
    hB = std::clamp(hB, 1, 1 + NS);
    if (hA == hB) { if (hB < 1 + NS) ++hB; else --hA; } // never a tie between the two header chains
    const cpp_int proof = BlockProof(BITS);
    auto work_at = [&](int height) { return proof * (height + 1); };
    const int best0_h = 105 + std::max(hA, hB);
    cpp_int minwork = 0;
    if (minsel == 1) minwork = work_at(best0_h) - 1;
    else if (minsel == 2) minwork = work_at(best0_h);
    else if (minsel == 3) minwork = work_at(best0_h) + 1;
    else if (minsel == 4) minwork = work_at(best0_h) * 4;

    ChainSimOpts o;
    o.check_block_index = 0; // CheckBlockIndex walks the whole 4000-header tree on every header
    // the fixture is needed to name the assumed-valid block: build it with a throw-away node on first use
    if (!g_fx.built) { ChainSim tmp{ChainSimOpts{}}; auto b0 = tmp.LoadBase(104); BuildFixture(tmp, b0); }
    // AV choice -> (chain, index) ; chain 0 = A, 1 = B, 2 = F, 3 = none, 4 = random hash
    int av_chain = 3, av_idx = -1;
    switch (avsel) {
    case 0: av_chain = 3; break;
    case 1: av_chain = 2; break;
    case 2: av_chain = 0; av_idx = 0; break;
    case 3: av_chain = 0; av_idx = 1; break;
    case 4: case 5: av_chain = 0; av_idx = 2; break;
    case 6: av_chain = 0; av_idx = 3 + int(s.range<unsigned>(0, 5)); break;          // a header a little above the bad blocks
    case 7: av_chain = 0; av_idx = hA - 1; break;                                    // the top of chain A
    case 8: av_chain = 0; av_idx = std::min(hA + int(s.range<unsigned>(0, 2)), 2 + NE); break; // (mostly) not delivered
    case 9: av_chain = 1; av_idx = 0; break;
    case 10: av_chain = 1; av_idx = s.boolean() ? hB - 1 : std::min(1 + int(s.range<unsigned>(0, 5)), NS); break;
    default: av_chain = 4; break;
    }
    uint256 av_hash;
    if (av_chain == 0) av_hash = g_fx.A[av_idx].GetHash();
    else if (av_chain == 1) av_hash = g_fx.B[av_idx].GetHash();
    else if (av_chain == 2) av_hash = g_fx.F->GetHash();
    else if (av_chain == 4) av_hash = uint256{uint8_t(0x57)};
    if (av_chain != 3) o.assumed_valid = av_hash;
    if (minsel > 0) {
        // arith_uint256 from the decimal-free hex of the cpp_int
        std::string hexs = minwork.str(0, std::ios_base::hex);
        o.minimum_chain_work = UintToArith256(uint256::FromHex(std::string(64 - hexs.size(), '0') + hexs).value());
    }
    ChainSim sim(o);
    auto base = sim.LoadBase(104);
    assert(Params().GetConsensus().nPowTargetSpacing == 600);
    auto deliver_full = [&](const std::shared_ptr<const CBlock>& b) { return sim.Deliver(b, true); };
    { auto dl = deliver_full(g_fx.F); assert(dl.processed && sim.TipHash() == g_fx.F->GetHash()); }

    st.note("AV=", av_chain == 3 ? "none" : av_chain == 2 ? "F" : av_chain == 4 ? "random" : (std::string(av_chain == 0 ? "A[" : "B[") + std::to_string(av_idx + 1) + "]"),
            " headers A=", hA, " B=", hB, " minwork=", minsel == 0 ? "none" : minsel == 1 ? "best-1" : minsel == 2 ? "best" : minsel == 3 ? "best+1" : "4*best", b_first ? " B-first" : " A-first");
    st.mix(uint64_t(avsel)); st.mix(uint64_t(minsel)); st.mix(uint64_t(small ? 99 : d + 5)); st.mix(uint64_t(bestsel)); st.mix(uint64_t(b_first));

    if (control) {
        // the same spend with the genuine signature is accepted whatever the configuration: the rejections below are about the signature
        auto dl = deliver_full(g_fx.G1);
        st.steps++;
        VCHECK(dl.processed && sim.TipHash() == g_fx.G1->GetHash(), "c57.control-valid-rejected", dl.verdict ? StateStr(*dl.verdict) : "");
        st.cls("control");
        st.note("control block with genuine signature accepted");
        return;
    }
    // ---- announce headers (both orders occur)
    auto announce = [&](const std::vector<CBlockHeader>& v, int n) {
        BlockValidationState state;
        bool ok = sim.chainman().ProcessNewBlockHeaders(std::span<const CBlockHeader>(v.data(), size_t(n)), true, state);
        assert(ok);
    };
    if (b_first) { announce(g_fx.B, hB); announce(g_fx.A, hA); } else { announce(g_fx.A, hA); announce(g_fx.B, hB); }

    // ---- model of the header tree: valid top of each chain (height), shrinking when a chain is found invalid
    int topA = 105 + hA, topB = 105 + hB; // heights of the best non-failed header of each chain
    int min_false = 9;
    std::string verdicts;
    auto decide = [&](int chain, int idx) { // bad block at chain[idx], height 106+idx, about to be connected on its parent
        int h = 106 + idx;
        bool c_av = false, c_anc = false;
        if (av_chain == 0) { c_av = av_idx < hA; c_anc = chain == 0 && av_idx >= idx; }
        else if (av_chain == 1) { c_av = av_idx < hB; c_anc = chain == 1 && av_idx >= idx; }
        else if (av_chain == 2) { c_av = true; c_anc = false; }
        int my_top = chain == 0 ? topA : topB, other_top = chain == 0 ? topB : topA;
        bool c_best = my_top > other_top && my_top >= h;
        int best_h = std::max({topA, topB, 105});
        bool c_min = work_at(best_h) >= minwork;
        // equivalent time of the work between the block and the best header of its chain
        cpp_int on_top_work = work_at(std::max(my_top, h)) - work_at(h);
        bool c_2w = on_top_work * 600 > cpp_int(14 * 24 * 3600) * proof;
        int nfalse = !c_av + !c_anc + !c_best + !c_min + !c_2w;
        min_false = std::min(min_false, nfalse);
        if (nfalse == 0) st.cls("skip-all-conditions");
        if (nfalse == 1) st.cls(!c_av ? "only-av-unknown" : !c_anc ? "only-not-ancestor" : !c_best ? "only-not-best-chain" : !c_min ? "only-below-minwork" : "only-within-two-weeks");
        if (!small && c_av && c_anc && c_best && c_min) st.cls(c_2w ? "two-weeks-just-passed" : "two-weeks-not-yet");
        st.note("  ", chain == 0 ? "X" : "Y", idx + 1, ": av-known=", c_av, " ancestor=", c_anc, " best-chain=", c_best, " minwork=", c_min, " >2w=", c_2w, " (on top: ", my_top - h, ")");
        return nfalse == 0;
    };
    auto feed = [&](int chain) {
        int nbad = chain == 0 ? 3 : 1;
        for (int idx = 0; idx < nbad; ++idx) {
            const auto& blk = chain == 0 ? g_fx.X[idx] : g_fx.Y1;
            uint256 parent = blk->hashPrevBlock;
            if (sim.TipHash() != parent) return; // not connectable right now (the other chain holds the tip): nothing to decide
            bool skip = decide(chain, idx);
            auto dl = deliver_full(blk);
            bool accepted = sim.TipHash() == blk->GetHash();
            st.steps++;
            verdicts += accepted ? 'a' : 'r';
            st.note("  -> ", accepted ? "accepted" : "rejected", dl.verdict ? " (" + StateStr(*dl.verdict) + ")" : "");
            if (!skip) {
                VCHECK(!accepted, "c57.bad-script-accepted", "block with an invalid signature connected although the assumed-valid conditions do not hold; chain", chain == 0 ? "A" : "B", "index", idx + 1);
                VCHECK(sim.TipHash() == parent, "c57.bad-script-accepted", "tip moved");
                VCHECK(dl.verdict && dl.verdict->IsInvalid(), "c57.no-verdict", "rejected block without an invalid verdict");
                st.cls("rejected");
                // the chain is invalid from here on: its valid part ends at the parent
                if (chain == 0) topA = 105 + idx; else topB = 105;
                return;
            }
            VCHECK(accepted, "c57.skip-expected", "all assumed-valid conditions hold but the block was not connected:", dl.verdict ? StateStr(*dl.verdict) : "no verdict");
            st.cls("accepted-by-skip");
        }
    };
    if (b_first) { feed(1); feed(0); } else { feed(0); feed(1); }
    st.mix(verdicts);
    st.nontrivial = min_false <= 1;
    st.note("verdicts=", verdicts);
}
