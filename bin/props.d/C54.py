# C54: stage list (what ./check C54 quick|thorough runs) and manifest text. Helpers gen()/enum()/hyp()/custom() come from props.py.
SPEC = {'level': 'exploration',
 'assumptions': ['trees of <= 6000 block index entries sharing one genesis (LastCommonAncestor/FindFork are only called on blocks of one tree)',
                 'skip pointers built with CBlockIndex::BuildSkip in insertion order and nTimeMax maintained as max over the ancestry, as AddToBlockIndex does',
                 'locator rules checked at statement level: block itself first, strictly decreasing own ancestors, genesis last, gaps equal-or-doubling and '
                 'doubling once they started to grow (final gap clamped), length <= 12 + log2(height)',
                 'chainwork: entries created by BlockManager::AddToBlockIndex on a regtest node; total work kept < 2^256 by construction (targets >= 2^24)',
                 'compact target decoding per the format definition (mantissa * 256^(exponent-3), bit 23 = sign); invalid (negative/zero/overflow) => work 0'],
 'stages': [gen('vh_c54', 'c54_blockindex', 36000, 600000, min_cases_quick=5000,
                floors={'tree:forks>=3': 0.3, 'tree:height>=1000': 0.2, 'lca:different-branches': 0.1, 'findfork:off-chain': 0.15,
                        'findfork:above-chain-height': 0.1, 'chain:settip-reorg': 0.04, 'anc:full-sweep': 0.15, 'anc:distance>64': 0.1,
                        'anc:own-height': 0.15, 'anc:above-own-height': 0.1, 'locator:height>=1000': 0.2},
                rule='random block trees, naive parent-walk oracle; non-trivial = forked tree, height >= 12, cross-branch LCA/FindFork with non-genesis fork point'),
            gen('vh_c54', 'c54_blockproof', 1200000, 20000000, min_cases_quick=100000,
                floors={'valid-target': 0.3, 'valid:exponent>=32': 0.02, 'valid:exponent<=3': 0.03, 'invalid:overflow': 0.05, 'invalid:sign-bit': 0.1},
                rule='nBits lattice vs cpp_int floor(2^256/(target+1)); non-trivial = valid target'),
            gen('vh_c54', 'c54_chainwork', 480, 8000, min_cases_quick=100,
                floors={'forked': 0.5, 'mixed-nbits-ancestry': 0.5},
                rule='AddToBlockIndex header trees on a regtest node; nChainWork vs cpp_int sum over the naive ancestry'),
            gen('vh_c54', 'up_chain', 20000, 300000, rule="upstream fuzz target 'chain' (CDiskBlockIndex accessors, no model); supplementary"),
            gen('vh_c54', 'up_block_index_tree', 1500, 30000,
                rule="upstream fuzz target 'block_index_tree' (block index / candidate-set invariants via CheckBlockIndex); supplementary"),
        # coverage-guided libFuzzer campaign on the same target (thorough tier only; fz tree = g++ trace-pc + covshim)
        fuzz('vh_c54', 'c54_blockindex', 300, max_len=420),
    ]}

META = {'level_text': 'Generated block trees (36k per quick run, up to 6000 entries, spines up to 2000 blocks) queried through GetAncestor, LastCommonAncestor, '
               'CChain (SetTip reorg sequences, Contains/Next/FindFork/FindEarliestAtLeast) and LocatorEntries, each answer compared with a naive parent walk '
               'or statement-level locator rules; GetBitsProof compared with big-integer floor(2^256/(target+1)) on a 1.2M-point nBits lattice; nChainWork of '
               'entries inserted by the real AddToBlockIndex compared with the big-integer sum over the ancestry. Exploration: sampled trees and nBits values.',
 'technique': 'property-based testing: random tree generator + naive reference walks (differential), exact big-integer arithmetic reference (boost cpp_int); '
              'upstream chain / block_index_tree fuzz targets as supplementary stages',
 'level_note': 'trusted base: naive walks over (parent,height) arrays (~40 lines), boost::multiprecision::cpp_int, arith_uint256::GetHex for the conversion'}
