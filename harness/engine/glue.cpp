// Glue symbols the repo's test_util library expects from its host binary.
#include <test/util/setup_common.h>

#include <functional>
#include <string>
#include <vector>

const std::function<std::vector<const char*>()> G_TEST_COMMAND_LINE_ARGUMENTS = []() {
    return std::vector<const char*>{};
};

const std::function<std::string()> G_TEST_GET_FULL_NAME = []() {
    return std::string{"verif"};
};
