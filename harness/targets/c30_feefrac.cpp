// C30 — Feerate arithmetic is exact.
// Oracle: exact integer / rational arithmetic in a 256-bit integer type (boost::multiprecision::int256_t), written from
// the statement: rational order of fee/size (ties by size where specified), floor / ceil of fee*at/size, value of the
// 64x32 product, piecewise-linear diagram comparison by evaluation at all breakpoints, ceil(rate*size/1000).
#include <engine/verif.h>

#include <policy/feerate.h>
#include <util/feefrac.h>

#include <boost/multiprecision/cpp_int.hpp>

#include <algorithm>
#include <compare>
#include <cstdint>
#include <limits>
#include <utility>
#include <vector>

namespace {

using I256 = boost::multiprecision::int256_t; // values here stay below 2^135 in magnitude: no wrap-around possible

const I256 TWO32 = I256(1) << 32;
const I256 TWO63 = I256(1) << 63;
const I256 TWO64 = I256(1) << 64;

int cmp3(const I256& a, const I256& b) { return a < b ? -1 : a > b ? 1 : 0; }
int ord(std::strong_ordering o) { return o < 0 ? -1 : o > 0 ? 1 : 0; }
/** -1 / 0 / 1, or 2 for unordered */
int ord(std::partial_ordering o) { return o == std::partial_ordering::unordered ? 2 : o < 0 ? -1 : o > 0 ? 1 : 0; }
bool fits64(const I256& v) { return v >= -TWO63 && v < TWO63; }
I256 absI(const I256& v) { return v < 0 ? I256(-v) : v; }

/** floor(n/d), d > 0 (boost's / truncates towards zero, % has the sign of the dividend) */
I256 floor_div(const I256& n, const I256& d)
{
    I256 q = n / d, r = n % d;
    if (r < 0) q -= 1;
    return q;
}
I256 ceil_div(const I256& n, const I256& d)
{
    I256 q = n / d, r = n % d;
    if (r > 0) q += 1;
    return q;
}

I256 from128(__int128 v)
{
    // v = hi * 2^64 + lo with hi signed, lo unsigned
    int64_t hi = int64_t(v >> 64);
    uint64_t lo = uint64_t(v);
    return I256(hi) * TWO64 + I256(lo);
}
I256 from_pair(const std::pair<int64_t, uint32_t>& p) { return I256(p.first) * TWO32 + I256(p.second); }

unsigned bitlen(uint64_t v) { return v ? 64 - unsigned(__builtin_clzll(v)) : 0; }
unsigned bitlen_s(int64_t v) { return bitlen(v < 0 ? ~uint64_t(v) + 1 : uint64_t(v)); }

/** zigzag around zero so that an exhausted source (zeros) yields 0 */
int64_t small_signed(verif::Src& s, unsigned max_abs)
{
    unsigned v = s.range<unsigned>(0, 2 * max_abs);
    return (v & 1) ? -int64_t((v + 1) / 2) : int64_t(v / 2);
}

/** value with uniformly chosen bit length (<= maxbits), random sign if allowed */
int64_t by_bitlen(verif::Src& s, unsigned maxbits, bool allow_neg)
{
    unsigned L = s.range<unsigned>(0, maxbits);
    if (L == 0) return 0;
    uint64_t top = uint64_t{1} << (L - 1);
    uint64_t mag = top | (s.ConsumeIntegral<uint64_t>() & (top - 1));
    if (s.chance(40)) mag = top;                 // exact power of two
    else if (s.chance(40)) mag = top | (top - 1); // all ones
    bool neg = allow_neg && s.boolean();
    return neg ? -int64_t(mag) : int64_t(mag);
}

const std::initializer_list<int64_t> FEE_BOUNDARIES = {
    0, 1, -1, INT64_MAX, INT64_MIN, INT64_MIN + 1, int64_t{1} << 31, int64_t{1} << 32, int64_t{1} << 33, (int64_t{1} << 33) - 1,
    -(int64_t{1} << 31), -(int64_t{1} << 32), -(int64_t{1} << 33), int64_t{1} << 62, -(int64_t{1} << 62), 0xffffffffLL, 0x100000001LL,
    2100000000000000LL, INT64_MAX / 1000, INT64_MIN / 1000};

int64_t gen_fee(verif::Src& s)
{
    switch (s.range<unsigned>(0, 5)) {
    case 0: return small_signed(s, 8);
    case 1: case 2: return by_bitlen(s, 63, true);
    case 3: return s.biased64(FEE_BOUNDARIES);
    case 4: { // k*2^32 +- small: low-word carries
        __int128 v = __int128(s.range<int32_t>(INT32_MIN, INT32_MAX)) * (__int128(1) << 32) + small_signed(s, 2);
        return int64_t(std::clamp<__int128>(v, INT64_MIN, INT64_MAX));
    }
    default: return s.ConsumeIntegral<int64_t>();
    }
}

/** strictly positive int32 */
int32_t gen_size_pos(verif::Src& s)
{
    switch (s.range<unsigned>(0, 4)) {
    case 0: return s.range<int32_t>(1, 8);
    case 1: case 2: { int64_t v = by_bitlen(s, 31, false); return v <= 0 ? 1 : int32_t(std::min<int64_t>(v, INT32_MAX)); }
    case 3: return INT32_MAX - s.range<int32_t>(0, 3);
    default: return s.range<int32_t>(1, INT32_MAX);
    }
}

/** any int32 (negative, zero, positive) */
int32_t gen_size_any(verif::Src& s)
{
    switch (s.range<unsigned>(0, 3)) {
    case 0: return int32_t(small_signed(s, 4));
    case 1: return s.pick<int32_t>({0, INT32_MIN, INT32_MAX, INT32_MIN + 1, -1, 1, 1 << 16, -(1 << 16)});
    case 2: { int64_t v = by_bitlen(s, 31, true); return int32_t(std::clamp<int64_t>(v, INT32_MIN, INT32_MAX)); }
    default: return s.ConsumeIntegral<int32_t>();
    }
}

/** Checks that Mul / MulFallback both equal the exact product and are ordered like it. Returns true if the product needs > 64 bits. */
bool check_mul(int64_t a, int32_t b, verif::Stats& st)
{
    I256 exact = I256(a) * I256(b);
    st.steps += 2;
    VCHECK(from128(FeeFrac::Mul(a, b)) == exact, "c30.mul-native", "a", a, "b", b);
    VCHECK(from_pair(FeeFrac::MulFallback(a, b)) == exact, "c30.mul-fallback", "a", a, "b", b);
    return !fits64(exact);
}

} // namespace

// ------------------------------------------------------------------------------------------------------------------
VERIF_TARGET(c30_feefrac, nullptr, 8, 96,
             "pairs (fee1,size1),(fee2,size2): fees over all of int64 (uniform bit length, boundary dictionary around 2^31/2^32/2^33/2^63, "
             "k*2^32+-d), sizes 1..2^31-1 (or any int32 incl. 0/negative in the 'general' mode, where only the 64x32 products and their order "
             "are checked); relation modes: independent | exactly equal rational with different sizes | equal rational perturbed by +-1 | shared "
             "fee or size. Oracle (int256): ByRatio ==,<=>,<,>,<=,>= vs exact rational order; ByRatioNegSize <=> (larger size first on ties) and ==; "
             "CFeeRate <=>/==; Mul and MulFallback == exact product and ordered alike; empty FeeFrac sorts last. "
             "non-trivial = some cross product fee_i*size_j does not fit in 64 bits; distinct = (mode, bit lengths, signs, expected order)")
{
    unsigned mode = s.range<unsigned>(0, 5);
    int64_t f1, f2;
    int32_t s1, s2;
    const char* mname = "independent";
    if (mode == 1 || mode == 2) {
        // equal rationals a/b scaled by k and m (sizes k*b, m*b; fees k*a, m*a)
        mname = mode == 1 ? "equal-ratio" : "near-equal";
        int32_t b = int32_t(std::max<int64_t>(1, by_bitlen(s, 30, false)));
        int32_t kmax = INT32_MAX / b;
        int32_t k = s.chance(128) ? s.range<int32_t>(1, std::min(kmax, 16)) : s.range<int32_t>(1, kmax);
        int32_t m = s.chance(128) ? s.range<int32_t>(1, std::min(kmax, 16)) : s.range<int32_t>(1, kmax);
        int64_t amax = INT64_MAX / std::max(k, m);
        int64_t a = gen_fee(s);
        if (std::max(k, m) > 1 && (a > amax || a < -amax)) a %= (amax + 1); // keep k*a, m*a representable
        f1 = a * k; s1 = b * k; f2 = a * m; s2 = b * m;
        if (mode == 2) {
            switch (s.range<unsigned>(0, 3)) {
            case 0: if (f2 < INT64_MAX) f2 += 1; break;
            case 1: if (f2 > INT64_MIN) f2 -= 1; break;
            case 2: if (s2 < INT32_MAX) s2 += 1; break;
            default: if (s2 > 1) s2 -= 1; break;
            }
        }
    } else if (mode == 3) {
        mname = "shared-component";
        f1 = gen_fee(s); s1 = gen_size_pos(s);
        if (s.boolean()) { f2 = f1; s2 = gen_size_pos(s); } else { f2 = gen_fee(s); s2 = s1; }
    } else if (mode == 4) {
        mname = "general-sizes";
        f1 = gen_fee(s); s1 = gen_size_any(s); f2 = gen_fee(s); s2 = gen_size_any(s);
        if (s1 == 0) f1 = 0; // "The size of a FeeFrac cannot be zero unless the fee is also zero."
        if (s2 == 0) f2 = 0;
    } else {
        f1 = gen_fee(s); s1 = gen_size_pos(s); f2 = gen_fee(s); s2 = gen_size_pos(s);
    }
    if (s.boolean()) { std::swap(f1, f2); std::swap(s1, s2); }

    FeeFrac a{f1, s1}, b{f2, s2};
    st.note(mname, " a=", f1, "/", s1, " b=", f2, "/", s2);
    st.cls(std::string("mode:") + mname);

    // products (all int32 sizes): native and fallback equal the exact value
    bool big = check_mul(f1, s2, st);
    big |= check_mul(f2, s1, st);
    I256 xa = I256(f1) * I256(s2), xb = I256(f2) * I256(s1);
    int cross = cmp3(xa, xb);
    st.steps += 2;
    VCHECK(ord(FeeFrac::MulFallback(f1, s2) <=> FeeFrac::MulFallback(f2, s1)) == cross, "c30.mul-fallback-order", "f1", f1, "s1", s1, "f2", f2, "s2", s2);
    VCHECK(ord(FeeFrac::Mul(f1, s2) <=> FeeFrac::Mul(f2, s1)) == cross, "c30.mul-native", "f1", f1, "s1", s1, "f2", f2, "s2", s2);

    st.steps++;
    VCHECK(a.IsEmpty() == (s1 == 0) && b.IsEmpty() == (s2 == 0), "c30.feefrac-empty", "s1", s1, "s2", s2);

    if (s1 > 0 && s2 > 0) {
        // exact rational order of f1/s1 vs f2/s2 (positive denominators => sign of f1*s2 - f2*s1)
        int exp = cross;
        int exp_total = exp != 0 ? exp : (s2 < s1 ? -1 : s2 > s1 ? 1 : 0); // equal feerate: larger size sorts first
        st.steps += 9;
        VCHECK(ord(ByRatio{a} <=> ByRatio{b}) == exp, "c30.feefrac-compare", "f1", f1, "s1", s1, "f2", f2, "s2", s2, "exp", exp);
        VCHECK((ByRatio{a} == ByRatio{b}) == (exp == 0), "c30.feefrac-compare", "op== f1", f1, "s1", s1, "f2", f2, "s2", s2, "exp", exp);
        VCHECK((ByRatio{a} < ByRatio{b}) == (exp < 0), "c30.feefrac-compare", "op< f1", f1, "s1", s1, "f2", f2, "s2", s2, "exp", exp);
        VCHECK((ByRatio{a} > ByRatio{b}) == (exp > 0), "c30.feefrac-compare", "op> f1", f1, "s1", s1, "f2", f2, "s2", s2, "exp", exp);
        VCHECK((ByRatio{a} <= ByRatio{b}) == (exp <= 0), "c30.feefrac-compare", "op<= f1", f1, "s1", s1, "f2", f2, "s2", s2, "exp", exp);
        VCHECK((ByRatio{a} >= ByRatio{b}) == (exp >= 0), "c30.feefrac-compare", "op>= f1", f1, "s1", s1, "f2", f2, "s2", s2, "exp", exp);
        VCHECK(ord(ByRatioNegSize{a} <=> ByRatioNegSize{b}) == exp_total, "c30.feefrac-total-order", "f1", f1, "s1", s1, "f2", f2, "s2", s2, "exp", exp_total);
        VCHECK((ByRatioNegSize{a} == ByRatioNegSize{b}) == (f1 == f2 && s1 == s2), "c30.feefrac-total-order", "op== f1", f1, "s1", s1, "f2", f2, "s2", s2);
        VCHECK((ByRatioNegSize{a} < ByRatioNegSize{b}) == (exp_total < 0) && (ByRatioNegSize{a} > ByRatioNegSize{b}) == (exp_total > 0),
               "c30.feefrac-total-order", "op<,> f1", f1, "s1", s1, "f2", f2, "s2", s2);
        // total order is consistent with equality: 0 only for identical pairs
        VCHECK((exp_total == 0) == (f1 == f2 && s1 == s2), "c30.oracle-self", "total order tie for distinct pairs");
        // CFeeRate keeps the exact fraction (size > 0) and orders by it
        CFeeRate ra(f1, s1), rb(f2, s2);
        st.steps += 2;
        VCHECK(ord(ra <=> rb) == exp, "c30.feerate-compare", "f1", f1, "s1", s1, "f2", f2, "s2", s2, "exp", exp);
        VCHECK((ra == rb) == (exp == 0), "c30.feerate-compare", "op== f1", f1, "s1", s1, "f2", f2, "s2", s2, "exp", exp);
        st.cls(exp < 0 ? "exp:less" : exp > 0 ? "exp:greater" : "exp:equal");
        if (exp == 0 && s1 != s2) st.cls("equal-ratio-different-size");
        if (exp == 0 && s1 == s2) st.cls("identical");
        // decided by a difference that is tiny relative to the products
        if (exp != 0 && absI(xa - xb) <= I256(INT32_MAX) && big) st.cls("big-and-close");
        st.mix(uint64_t(exp + 1));
    } else if ((s1 == 0) != (s2 == 0) && (s1 > 0 || s2 > 0)) {
        // documented: the empty FeeFrac sorts last in the total order
        st.steps++;
        int exp_total = s1 == 0 ? 1 : -1;
        VCHECK(ord(ByRatioNegSize{a} <=> ByRatioNegSize{b}) == exp_total, "c30.feefrac-empty-last", "f1", f1, "s1", s1, "f2", f2, "s2", s2);
        st.cls("one-empty");
    } else {
        st.cls("nonpositive-size(products only)");
    }
    if (f1 < 0 || f2 < 0) st.cls("negative-fee");
    if (f1 == 0 || f2 == 0) st.cls("zero-fee");
    if (big) st.cls("product>64bit");
    st.nontrivial = big;
    st.mix(uint64_t(mode)); st.mix(uint64_t(bitlen_s(f1))); st.mix(uint64_t(bitlen_s(f2))); st.mix(uint64_t(bitlen_s(s1))); st.mix(uint64_t(bitlen_s(s2)));
    st.mix(uint64_t((f1 < 0) | ((f2 < 0) << 1) | ((s1 < 0) << 2) | ((s2 < 0) << 3)));
}

// ------------------------------------------------------------------------------------------------------------------
VERIF_TARGET(c30_muldiv, nullptr, 8, 64,
             "(a) fee:int64 x at:int32 / size:int32>0 with rounding mode: Div(Mul) and DivFallback(MulFallback) == floor/ceil of the exact "
             "quotient whenever it fits int64; EvaluateFeeDown/Up(at>=0) likewise (at in [0,size] emphasised: always representable; fees around "
             "the 2^33 fast-path switch); (b) raw 96-bit numerators (hi:int64, lo:uint32) / d: DivFallback == Div == exact floor/ceil. "
             "non-trivial = the numerator needs > 64 bits; distinct = (sub-mode, bit lengths, signs, rounding, remainder class)")
{
    bool raw96 = s.chance(64);
    bool round_down = s.boolean();
    int32_t d = gen_size_pos(s);
    if (raw96) {
        int64_t hi = s.chance(128) ? by_bitlen(s, 63, true) : gen_fee(s);
        uint32_t lo = s.chance(64) ? s.pick<uint32_t>({0u, 1u, 0xffffffffu, 0x80000000u, 0x7fffffffu}) : s.ConsumeIntegral<uint32_t>();
        if (s.chance(128)) {
            // make the quotient land near the int64 limits: hi ~ +-(d * 2^31)
            int64_t lim = int64_t(d) << 31;
            hi = (s.boolean() ? lim : -lim) + small_signed(s, 2);
        }
        I256 n = I256(hi) * TWO32 + I256(lo);
        I256 q = round_down ? floor_div(n, d) : ceil_div(n, d);
        st.note("raw96 hi=", hi, " lo=", lo, " d=", d, " round_down=", round_down);
        st.cls("raw96");
        st.mix(uint64_t(1)); st.mix(uint64_t(bitlen_s(hi))); st.mix(uint64_t(hi < 0)); st.mix(uint64_t(bitlen_s(d))); st.mix(uint64_t(round_down));
        if (!fits64(q)) { st.cls("skipped:quotient-unrepresentable"); return; }
        st.steps += 2;
        int64_t got_fb = FeeFrac::DivFallback({hi, lo}, d, round_down);
        VCHECK(I256(got_fb) == q, "c30.div-fallback", "hi", hi, "lo", lo, "d", d, "round_down", round_down, "got", got_fb);
        __int128 n128 = (__int128(hi) * (__int128(1) << 32)) + lo;
        int64_t got = FeeFrac::Div(n128, d, round_down);
        VCHECK(I256(got) == q, "c30.div-native", "hi", hi, "lo", lo, "d", d, "round_down", round_down, "got", got);
        bool exactdiv = (n % d) == 0;
        st.cls(exactdiv ? "remainder:zero" : n < 0 ? "remainder:negative-numerator" : "remainder:positive-numerator");
        st.mix(uint64_t(exactdiv));
        st.nontrivial = !fits64(n);
        if (st.nontrivial) st.cls("numerator>64bit");
        if (absI(q) >= (TWO63 - TWO32)) st.cls("quotient-near-int64-limit");
        return;
    }
    int64_t fee = gen_fee(s);
    if (s.chance(96)) { int64_t m = (int64_t{1} << s.range<unsigned>(34, 62)) + s.range<int64_t>(-(int64_t{1} << 33), int64_t{1} << 33); fee = s.boolean() ? -m : m; } // wide fees
    int32_t at;
    unsigned amode = s.range<unsigned>(0, 3);
    if (amode <= 1) at = s.chance(100) ? s.pick<int32_t>({0, 1, d, d - 1, d / 2}) : s.range<int32_t>(0, d); // 0 <= at <= size: representable
    else if (amode == 2) at = gen_size_pos(s);
    else at = gen_size_any(s);
    if (s.chance(40) && d > 1) {
        // exact multiples and +-1 around them: fee*at = k*d (+-1)
        at = d; // fee*d/d = fee exactly
    }
    I256 n = I256(fee) * I256(at);
    I256 q = round_down ? floor_div(n, d) : ceil_div(n, d);
    st.note("fee=", fee, " at=", at, " size=", d, " round_down=", round_down);
    st.cls(at >= 0 && at <= d ? "at-within-size" : at < 0 ? "at-negative(Mul/Div only)" : "at-beyond-size");
    bool big = check_mul(fee, at, st);
    st.mix(uint64_t(0)); st.mix(uint64_t(bitlen_s(fee))); st.mix(uint64_t(fee < 0)); st.mix(uint64_t(bitlen_s(at))); st.mix(uint64_t(at < 0));
    st.mix(uint64_t(bitlen_s(d))); st.mix(uint64_t(round_down));
    if (!fits64(q)) { st.cls("skipped:quotient-unrepresentable"); return; }
    st.steps += 2;
    int64_t got = FeeFrac::Div(FeeFrac::Mul(fee, at), d, round_down);
    VCHECK(I256(got) == q, "c30.div-native", "fee", fee, "at", at, "size", d, "round_down", round_down, "got", got);
    int64_t got_fb = FeeFrac::DivFallback(FeeFrac::MulFallback(fee, at), d, round_down);
    VCHECK(I256(got_fb) == q, "c30.div-fallback", "fee", fee, "at", at, "size", d, "round_down", round_down, "got", got_fb);
    if (at >= 0) {
        FeeFrac ff{fee, d};
        st.steps += 2;
        int64_t ev = round_down ? ff.EvaluateFeeDown(at) : ff.EvaluateFeeUp(at);
        VCHECK(I256(ev) == q, round_down ? "c30.evaluate-down" : "c30.evaluate-up", "fee", fee, "at", at, "size", d, "got", ev);
        // and the other direction differs by exactly 0 (exact division) or 1
        I256 q2 = round_down ? ceil_div(n, d) : floor_div(n, d);
        if (fits64(q2)) {
            int64_t ev2 = round_down ? ff.EvaluateFeeUp(at) : ff.EvaluateFeeDown(at);
            VCHECK(I256(ev2) == q2, round_down ? "c30.evaluate-up" : "c30.evaluate-down", "fee", fee, "at", at, "size", d, "got", ev2);
        }
        st.cls(fee >= 0 && fee < 0x200000000LL ? "evaluate:fast-path" : "evaluate:mul-div-path");
    }
    bool exactdiv = (n % d) == 0;
    st.cls(exactdiv ? "remainder:zero" : n < 0 ? "remainder:negative-numerator" : "remainder:positive-numerator");
    st.mix(uint64_t(exactdiv));
    if (fee < 0) st.cls("negative-fee");
    if (big) st.cls("numerator>64bit");
    st.nontrivial = big;
}

// ------------------------------------------------------------------------------------------------------------------
VERIF_TARGET(c30_feerate, nullptr, 8, 48,
             "non-negative rates: CFeeRate(rate_per_kvB).GetFee(vsize) == ceil(rate*vsize/1000); CFeeRate(fee>=0, vbytes>0).GetFee(n) == "
             "ceil(fee*n/vbytes) (also via CFeeRate(FeePerVSize)); vsize/n >= 0 incl. 0, 1, 999/1000/1001 and 2^31-1; rates with rate*vsize "
             "beyond 2^64 as long as the result fits int64; GetFeePerK == floor(fee*1000/vbytes). "
             "non-trivial = rate*vsize does not fit in 64 bits; distinct = (form, bit lengths, remainder class)")
{
    unsigned form = s.range<unsigned>(0, 2);
    int32_t vsize = s.chance(110) ? s.pick<int32_t>({0, 1, 2, 999, 1000, 1001, 100000, 1000000, INT32_MAX, INT32_MAX - 1}) : int32_t(by_bitlen(s, 31, false));
    int64_t fee;
    // non-negative fee / rate
    switch (s.range<unsigned>(0, 4)) {
    case 0: fee = s.range<int64_t>(0, 2000); break;
    case 1: fee = by_bitlen(s, 63, false); break;
    case 2: fee = s.biased64(FEE_BOUNDARIES); break;
    case 3: fee = s.range<int64_t>(0, 2100000000000000LL); break;
    default: fee = s.range<int64_t>(0, INT64_MAX); break;
    }
    if (fee < 0) fee = fee == INT64_MIN ? INT64_MAX : -fee;
    int32_t den = 1000;
    if (form != 0) den = gen_size_pos(s);
    I256 n = I256(fee) * I256(vsize);
    I256 exp = ceil_div(n, den);
    st.note("form=", form, " fee_or_rate=", fee, " den=", den, " vsize=", vsize);
    st.cls(form == 0 ? "form:per-kvB" : form == 1 ? "form:fee,vbytes" : "form:FeePerVSize");
    st.mix(uint64_t(form)); st.mix(uint64_t(bitlen_s(fee))); st.mix(uint64_t(bitlen_s(vsize))); st.mix(uint64_t(bitlen_s(den)));
    CFeeRate rate = form == 0 ? CFeeRate(fee) : form == 1 ? CFeeRate(fee, den) : CFeeRate(FeePerVSize(fee, den));
    st.steps++;
    VCHECK(rate.GetFeePerVSize().fee == fee && rate.GetFeePerVSize().size == den, "c30.feerate-construct", "fee", fee, "den", den);
    // floor(fee*1000/den) (only where it is representable)
    I256 perk = floor_div(I256(fee) * 1000, den);
    if (fits64(perk)) {
        st.steps++;
        VCHECK(I256(rate.GetFeePerK()) == perk, "c30.feerate-perk", "fee", fee, "den", den, "got", rate.GetFeePerK());
    }
    if (!fits64(exp)) { st.cls("skipped:result-unrepresentable"); return; }
    st.steps++;
    int64_t got = rate.GetFee(vsize);
    VCHECK(I256(got) == exp, "c30.feerate-getfee", "fee", fee, "den", den, "vsize", vsize, "got", got);
    // "rounded up to the next satoshi": smallest integer g with g*den >= fee*vsize
    VCHECK(I256(got) * den >= n && (I256(got) - 1) * den < n, "c30.feerate-getfee", "not the least upper integer: fee", fee, "den", den, "vsize", vsize, "got", got);
    bool exactdiv = (n % den) == 0;
    st.cls(exactdiv ? "remainder:zero" : "remainder:nonzero(rounds-up)");
    if (fee == 0) st.cls("zero-rate");
    if (vsize == 0) st.cls("zero-size");
    st.mix(uint64_t(exactdiv));
    st.nontrivial = !fits64(n);
    if (st.nontrivial) st.cls("product>64bit");
    if (fee >= 0x200000000LL) st.cls("mul-div-path");
}

// ------------------------------------------------------------------------------------------------------------------
namespace {

struct Pt { I256 size, fee; };

/** cumulative points (0,0), (s1,f1), (s1+s2,f1+f2), ... */
std::vector<Pt> points(const std::vector<FeeFrac>& ch)
{
    std::vector<Pt> p{{0, 0}};
    for (auto& c : ch) p.push_back({p.back().size + c.size, p.back().fee + c.fee});
    return p;
}

/** exact value (num/den, den > 0) of the diagram at x >= 0: linear between points, horizontal after the last */
std::pair<I256, I256> eval_at(const std::vector<Pt>& p, const I256& x)
{
    if (x >= p.back().size) return {p.back().fee, 1};
    size_t i = 0;
    while (!(p[i].size <= x && x < p[i + 1].size)) ++i;
    I256 ds = p[i + 1].size - p[i].size, df = p[i + 1].fee - p[i].fee;
    return {p[i].fee * ds + df * (x - p[i].size), ds};
}

/** definition: -1/0/1/2(unordered) of diagram(a) vs diagram(b), from evaluation at all breakpoints with x <= limit (limit<0: all) */
int ref_compare(const std::vector<Pt>& pa, const std::vector<Pt>& pb, const I256& limit, bool& big)
{
    std::vector<I256> xs;
    for (auto& q : pa) xs.push_back(q.size);
    for (auto& q : pb) xs.push_back(q.size);
    bool a_better = false, b_better = false;
    for (auto& x : xs) {
        if (limit >= 0 && x > limit) continue;
        auto [na, da] = eval_at(pa, x);
        auto [nb, db] = eval_at(pb, x);
        I256 l = na * db, r = nb * da;
        if (!fits64(l) || !fits64(r)) big = true;
        if (l > r) a_better = true;
        if (l < r) b_better = true;
    }
    if (a_better && b_better) return 2;
    return a_better ? 1 : b_better ? -1 : 0;
}

constexpr int64_t DIAG_FEE_BUDGET = (int64_t{1} << 62) - 1; // sum of |fee| per diagram (keeps differences between the two diagrams in int64)
constexpr int MAX_CHUNKS = 40;

std::vector<FeeFrac> gen_chunks(verif::Src& s, unsigned fee_scale, unsigned size_scale)
{
    std::vector<FeeFrac> ch;
    size_t n = s.chance(160) ? s.range<size_t>(0, 6) : s.range<size_t>(0, MAX_CHUNKS);
    for (size_t i = 0; i < n; ++i) {
        int32_t size;
        switch (size_scale) {
        case 0: size = s.range<int32_t>(1, 4); break;
        case 1: size = s.range<int32_t>(1, 100000); break;
        default: size = s.range<int32_t>(1, INT32_MAX / (MAX_CHUNKS + 8)); break;
        }
        int64_t fee;
        switch (fee_scale) {
        case 0: fee = small_signed(s, 6); break;
        case 1: fee = s.range<int64_t>(0, 5000000); break;
        case 2: fee = int64_t(s.range<int32_t>(INT32_MIN, INT32_MAX)); break;
        default: { int64_t lim = DIAG_FEE_BUDGET / (MAX_CHUNKS + 8); fee = s.range<int64_t>(-lim, lim); if (s.chance(40)) fee = s.boolean() ? lim : -lim; break; }
        }
        ch.emplace_back(fee, size);
    }
    return ch;
}

bool feerate_desc(const FeeFrac& x, const FeeFrac& y) { return I256(x.fee) * y.size > I256(y.fee) * x.size; }

} // namespace

VERIF_TARGET(c30_diagram, nullptr, 16, 700,
             "two chunk lists (0..40 chunks each, sizes > 0, fee scales small / 5e6 / 2^31 / 2^56; size scales 1..4 / 1e5 / 2^25; sum |fee| <= 2^62-1, "
             "sum size < 2^31): independent, or the second derived from the first by splits (proportional or not), merges, fee +-1, moving one size "
             "unit, dropping / appending a tail chunk; 75% sorted by non-increasing feerate (the documented input form), 25% unsorted. Oracle: "
             "definition of the comparison: both piecewise-linear diagrams (horizontal after the last point) evaluated exactly (int256 rationals) at "
             "every breakpoint of either; >= everywhere and > somewhere => greater, both ways => unordered; plus antisymmetry and self-equivalence. "
             "non-trivial = some exact comparison needs > 64 bits; distinct = (scales, chunk counts, relation, expected, tail-decides)")
{
    unsigned fee_scale = s.range<unsigned>(0, 3), size_scale = s.range<unsigned>(0, 2);
    bool derived = s.chance(150);
    bool sorted = !s.chance(64);
    std::vector<FeeFrac> c0 = gen_chunks(s, fee_scale, size_scale), c1;
    unsigned nedits = 0;
    if (!derived) {
        c1 = gen_chunks(s, s.chance(200) ? fee_scale : s.range<unsigned>(0, 3), s.chance(200) ? size_scale : s.range<unsigned>(0, 2));
    } else {
        if (sorted) std::stable_sort(c0.begin(), c0.end(), feerate_desc);
        c1 = c0;
        nedits = s.range<unsigned>(0, 4);
        for (unsigned e = 0; e < nedits; ++e) {
            unsigned kind = s.range<unsigned>(0, 6);
            size_t i = s.index(c1.size());
            if (kind == 0 && !c1.empty() && c1[i].size >= 2 && c1.size() < MAX_CHUNKS + 6) {
                // split chunk i in two; proportional split keeps the diagram when the fee divides evenly
                int32_t sa = s.range<int32_t>(1, c1[i].size - 1);
                int64_t fa = s.boolean() ? int64_t(floor_div(I256(c1[i].fee) * sa, c1[i].size)) : c1[i].fee / 2;
                FeeFrac a{fa, sa}, b{c1[i].fee - fa, c1[i].size - sa};
                if (I256(absI(a.fee)) + absI(b.fee) <= absI(c1[i].fee) + 2) { c1[i] = a; c1.insert(c1.begin() + i + 1, b); st.cls("edit:split"); }
            } else if (kind == 1 && c1.size() >= 2 && i + 1 < c1.size()) {
                c1[i] += c1[i + 1]; c1.erase(c1.begin() + i + 1); st.cls("edit:merge");
            } else if (kind == 2 && !c1.empty()) {
                c1[i].fee += s.boolean() ? 1 : -1; st.cls("edit:fee+-1");
            } else if (kind == 3 && c1.size() >= 2 && i + 1 < c1.size() && c1[i].size >= 2) {
                c1[i].size -= 1; c1[i + 1].size += 1; st.cls("edit:move-size-unit");
            } else if (kind == 4 && !c1.empty()) {
                c1.pop_back(); st.cls("edit:drop-tail");
            } else if (kind == 5 && c1.size() < MAX_CHUNKS + 6) {
                c1.emplace_back(small_signed(s, 2), s.range<int32_t>(1, 3)); st.cls("edit:append-tail");
            } else if (kind == 6 && c1.size() >= 2) {
                std::swap(c1[i], c1[(i + 1) % c1.size()]); st.cls("edit:swap");
            }
        }
        if (s.boolean()) std::swap(c0, c1);
    }
    if (sorted) { std::stable_sort(c0.begin(), c0.end(), feerate_desc); std::stable_sort(c1.begin(), c1.end(), feerate_desc); }

    // preconditions of CompareChunks: sizes > 0, sums representable (and differences between the diagrams, see assumptions)
    for (auto* c : {&c0, &c1}) {
        I256 fs = 0, ss = 0;
        for (auto& x : *c) { fs += absI(x.fee); ss += x.size; VCHECK(x.size > 0, "c30.generator-self", "chunk size <= 0"); }
        VCHECK(fs <= I256(DIAG_FEE_BUDGET) + 64 && ss <= I256(INT32_MAX), "c30.generator-self", "budget exceeded");
    }
    auto p0 = points(c0), p1 = points(c1);
    bool big = false;
    int exp = ref_compare(p0, p1, -1, big);
    I256 common = std::min(p0.back().size, p1.back().size);
    bool dummy = false;
    int exp_common = ref_compare(p0, p1, common, dummy);
    bool tail_decides = exp_common != exp;

    if (st.want_sample) {
        std::ostringstream os;
        os << (sorted ? "sorted " : "unsorted ") << (derived ? "derived " : "independent ");
        for (int k = 0; k < 2; ++k) { os << (k ? " B=[" : "A=["); for (auto& x : (k ? c1 : c0)) os << x.fee << "/" << x.size << " "; os << "]"; }
        os << " expected=" << exp;
        st.note(os.str());
    }
    st.steps += 4;
    int got = ord(CompareChunks(c0, c1));
    VCHECK(got == exp, "c30.diagram-compare", "got", got, "expected", exp, "n0", c0.size(), "n1", c1.size(), "tail_decides", tail_decides);
    int rev = ord(CompareChunks(c1, c0));
    VCHECK(rev == (exp == 2 ? 2 : -exp), "c30.diagram-compare", "reversed got", rev, "expected", (exp == 2 ? 2 : -exp));
    VCHECK(ord(CompareChunks(c0, c0)) == 0 && ord(CompareChunks(c1, c1)) == 0, "c30.diagram-compare", "self comparison not equivalent");

    st.cls(exp == 0 ? "exp:equivalent" : exp == 1 ? "exp:greater" : exp == -1 ? "exp:less" : "exp:unordered");
    if (exp == 0 && c0 != c1) st.cls("equivalent-but-different-chunking");
    if (tail_decides) st.cls("tail-decides");
    if (p0.back().size != p1.back().size) st.cls("different-total-size");
    st.cls(sorted ? "sorted" : "unsorted");
    st.cls(derived ? "derived" : "independent");
    if (c0.empty() || c1.empty()) st.cls("one-empty");
    bool negf = false;
    for (auto* c : {&c0, &c1}) for (auto& x : *c) negf |= x.fee < 0;
    if (negf) st.cls("negative-fees");
    if (big) st.cls("compare>64bit");
    st.nontrivial = big;
    st.mix(uint64_t(fee_scale)); st.mix(uint64_t(size_scale)); st.mix(uint64_t(derived)); st.mix(uint64_t(sorted)); st.mix(uint64_t(nedits));
    st.mix(uint64_t(c0.size())); st.mix(uint64_t(c1.size())); st.mix(uint64_t(exp)); st.mix(uint64_t(tail_decides));
}
