"""Engine E2 (DESIGN.md 3.3): Hypothesis-driven differential checks of the C++ code (reached through `sutd`)
against independent Python references. See py/README.md for how to write a module.

A module is a script  py/cNN_<name>.py  that ends with

    if __name__ == "__main__":
        e2.main(__file__, strategy=cases(), check=check)

where `cases()` is a Hypothesis strategy producing ONE JSON-like example (dict/list/str/int/bool/None/bytes) and
`check(sut, ex, c)` compares C++ (sut.call(op, ...)) with the reference for that example, reporting through the
Case object `c` (c.expect / c.cls / c.nontrivial / c.mix / c.note). main() implements the orchestrator's worker protocol
(bin/check.py worker_cmd / run_stage / replay_cmd):

    python3-vt py/cNN_x.py --seed S --worker W --nworkers K --examples N --out DIR --tier quick|thorough [--max-seconds T]
    python3-vt py/cNN_x.py --replay FILE

exit 0 = all examples passed; exit 77 + `ORACLE-FAIL <oracle_id> <msg>` on stderr + DIR/fail-<name>-W.json = oracle
failure (shrunk by Hypothesis); exit 2 = broken run (health check, harness bug, sutd missing) -- never a violation.
"""
import argparse
import hashlib
import json
import os
import struct
import subprocess
import sys
import time
import traceback

VERIF = os.path.dirname(os.path.dirname(os.path.abspath(__file__)))
REPO = os.environ.get("VERIF_REPO", "/repo")
_tf = os.path.join(REPO, "test", "functional")
if _tf not in sys.path:
    sys.path.insert(0, _tf)          # `import test_framework.script` etc. (the independent references)
if os.path.dirname(os.path.abspath(__file__)) not in sys.path:
    sys.path.insert(0, os.path.dirname(os.path.abspath(__file__)))

SUTD = os.environ.get("VERIF_SUTD", os.path.join(VERIF, "build", "san", "vh", "sutd"))
BATCH = 200                              # examples per Hypothesis run (time budget / stats flush granularity)


# ----------------------------------------------------------------------------------------------------------------
# errors

class OracleFail(Exception):
    """The code under test disagrees with the oracle."""

    def __init__(self, oracle_id, msg):
        super().__init__(f"{oracle_id} {msg}")
        self.oracle_id, self.msg = oracle_id, msg


class SutCrash(OracleFail):
    """sutd died (sanitizer report, assert, abort) while serving a request."""

    def __init__(self, request, stderr_tail):
        msg = "sutd died on request " + _clip(json.dumps(request), 1500) + " :: " + _clip(stderr_tail.replace("\n", " | "), 1500)
        super().__init__("abort:sutd", msg)


class HarnessError(Exception):
    """Bug on our side (bad request, module exception): broken run, never a violation."""


def _clip(s, n):
    return s if len(s) <= n else s[:n] + f"...(+{len(s) - n})"


# ----------------------------------------------------------------------------------------------------------------
# JSON encoding of examples (bytes <-> {"__b": hex}); tuples become lists, so write check() for lists.

def to_jsonable(x):
    if isinstance(x, (bytes, bytearray)):
        return {"__b": bytes(x).hex()}
    if isinstance(x, dict):
        return {str(k): to_jsonable(v) for k, v in x.items()}
    if isinstance(x, (list, tuple)):
        return [to_jsonable(v) for v in x]
    if isinstance(x, (str, int, bool)) or x is None:
        return x
    raise HarnessError(f"example contains a non-JSON value of type {type(x).__name__}")


def from_jsonable(x):
    if isinstance(x, dict):
        if set(x.keys()) == {"__b"}:
            return bytes.fromhex(x["__b"])
        return {k: from_jsonable(v) for k, v in x.items()}
    if isinstance(x, list):
        return [from_jsonable(v) for v in x]
    return x


def normalize(ex):
    """What check() sees is always the JSON round trip of what the strategy produced (so replay == original run)."""
    return from_jsonable(json.loads(json.dumps(to_jsonable(ex))))


# ----------------------------------------------------------------------------------------------------------------
# sutd client

class Sut:
    """One persistent sutd subprocess. call(op, **fields) -> reply dict. bytes values are sent as hex."""

    def __init__(self, stderr_path=None, binary=None):
        self.binary = binary or SUTD
        self.stderr_path = stderr_path or os.devnull
        self.p = None
        self.requests = 0
        self.starts = 0

    def _env(self):
        e = dict(os.environ)
        e.setdefault("ASAN_OPTIONS", "detect_leaks=0:quarantine_size_mb=16")
        e.setdefault("UBSAN_OPTIONS", "print_stacktrace=1:halt_on_error=1")
        return e

    def start(self):
        if not os.path.exists(self.binary):
            raise HarnessError(f"sutd binary missing: {self.binary} (bin/vbuild sutd)")
        self.errf = open(self.stderr_path, "ab")
        self.err_start = self.errf.tell()
        self.p = subprocess.Popen([self.binary], stdin=subprocess.PIPE, stdout=subprocess.PIPE, stderr=self.errf, env=self._env(),
                                  text=True, bufsize=1)
        self.starts += 1

    def alive(self):
        return self.p is not None and self.p.poll() is None

    def ensure(self):
        if not self.alive():
            self.close()
            self.start()

    def close(self):
        if self.p is not None:
            try:
                self.p.stdin.close()
                self.p.wait(timeout=10)
            except Exception:
                self.p.kill()
            try:
                self.p.stdout.close()
                self.errf.close()
            except Exception:
                pass
            self.p = None

    def _stderr_tail(self):
        try:
            with open(self.stderr_path, "rb") as f:
                f.seek(self.err_start)
                return f.read()[-6000:].decode("utf-8", "replace")
        except Exception:
            return ""

    @staticmethod
    def _enc(v):
        if isinstance(v, (bytes, bytearray)):
            return bytes(v).hex()
        if isinstance(v, (list, tuple)):
            return [Sut._enc(x) for x in v]
        if isinstance(v, dict):
            return {k: Sut._enc(x) for k, x in v.items()}
        return v

    def call(self, op, allow_error=False, **fields):
        self.ensure()
        req = {"op": op}
        for k, v in fields.items():
            if v is not None:
                req[k] = Sut._enc(v)
        line = json.dumps(req)
        try:
            self.p.stdin.write(line + "\n")
            self.p.stdin.flush()
            out = self.p.stdout.readline()
        except (BrokenPipeError, OSError):
            out = ""
        self.requests += 1
        if not out:
            try:
                self.p.wait(timeout=30)
            except Exception:
                self.p.kill()
            tail = self._stderr_tail()
            self.close()
            raise SutCrash(req, tail)
        rep = json.loads(out)
        if "error" in rep and not allow_error:
            raise HarnessError(f"sutd rejected request {_clip(line, 600)}: {rep['error']}")
        return rep


# ----------------------------------------------------------------------------------------------------------------
# per-case accounting (mirrors verif::Stats of the C++ engine)

def h64(*vals):
    return struct.unpack("<Q", hashlib.blake2b(repr(vals).encode(), digest_size=8).digest())[0]


class Case:
    def __init__(self, want_notes=True):
        self.steps = 0
        self.nt = False
        self.labels = {}
        self.shape = []
        self.notes = []
        self.want_notes = want_notes

    def expect(self, cond, oracle_id, msg="", **kv):
        """One oracle comparison. oracle_id is stable: '<cNN>.<name>'."""
        self.steps += 1
        if not cond:
            detail = " ".join(f"{k}={_fmt(v)}" for k, v in kv.items())
            raise OracleFail(oracle_id, (msg + " " + detail).strip())

    def eq(self, got, want, oracle_id, msg="", **kv):
        self.expect(got == want, oracle_id, msg, got=got, want=want, **kv)

    def cls(self, label, n=1):
        self.labels[label] = self.labels.get(label, 0) + n

    def nontrivial(self, flag=True):
        self.nt = self.nt or bool(flag)

    def mix(self, *vals):
        self.shape.append(vals)

    def note(self, *parts):
        if self.want_notes and len(self.notes) < 40:
            self.notes.append(_clip(" ".join(_fmt(p) for p in parts), 400))

    def shape_hash(self):
        return h64(self.shape)


def _fmt(v):
    if isinstance(v, (bytes, bytearray)):
        return _clip(bytes(v).hex(), 300)
    return _clip(str(v), 300)


class Stats:
    def __init__(self, name, worker, seed, outdir):
        self.name, self.worker, self.seed, self.outdir = name, worker, seed, outdir
        self.cases = self.nontrivial = self.steps = 0
        self.classes, self.class_cases = {}, {}
        self.shapes, self.all_shapes = set(), set()
        self.samples = {}     # slot -> sample
        self.t0 = time.time()
        self.stopped_by = "cases"

    def account(self, case, ex_len):
        idx = self.cases
        self.cases += 1
        self.steps += case.steps
        sh = case.shape_hash()
        self.all_shapes.add(sh)
        if case.nt:
            self.nontrivial += 1
            self.shapes.add(sh)
        rare = None
        for k, v in case.labels.items():
            self.classes[k] = self.classes.get(k, 0) + v
            if k not in self.class_cases:
                rare = k
            self.class_cases[k] = self.class_cases.get(k, 0) + 1
        smp = {"index": idx, "len": ex_len, "nontrivial": bool(case.nt), "decoded": _clip("; ".join(case.notes), 1500)}
        if "first" not in self.samples:
            self.samples["first"] = smp
        if case.nt and "first_nt" not in self.samples:
            self.samples["first_nt"] = smp
        if case.nt and ("largest" not in self.samples or ex_len > self.samples["largest"]["len"]):
            self.samples["largest"] = smp
        if rare is not None and case.nt:
            self.samples["rare"] = dict(smp, decoded=f"[first case of class {rare}] " + smp["decoded"])

    def flush(self):
        seen, samples = set(), []
        for slot in ("first_nt", "largest", "rare", "first"):
            s = self.samples.get(slot)
            if s and s["index"] not in seen:
                seen.add(s["index"])
                samples.append(s)
        d = {"target": self.name, "worker": self.worker, "mode": "hyp", "seed": self.seed, "cases": self.cases, "nontrivial": self.nontrivial,
             "steps": self.steps, "distinct_nontrivial_shapes": len(self.shapes), "distinct_shapes": len(self.all_shapes), "enum_total": 0,
             "wall_s": round(time.time() - self.t0, 3), "stopped_by": self.stopped_by, "classes": self.classes, "class_cases": self.class_cases,
             "samples": samples}
        tmp = os.path.join(self.outdir, f".stats-{self.name}-{self.worker}.tmp")
        with open(tmp, "w") as f:
            json.dump(d, f)
        os.replace(tmp, os.path.join(self.outdir, f"stats-{self.name}-{self.worker}.json"))
        with open(os.path.join(self.outdir, f"shapes-{self.name}-{self.worker}.bin"), "wb") as f:
            f.write(b"".join(struct.pack("<Q", h) for h in sorted(self.shapes)))


# ----------------------------------------------------------------------------------------------------------------
# driver

def derive_seed(seed, worker, name, batch):
    return int.from_bytes(hashlib.sha256(f"{seed}:{worker}:{name}:{batch}".encode()).digest()[:8], "little")


def dispatch(table):
    """check function for examples of the form {"kind": k, ...}: table maps k -> fn(sut, ex, c)."""
    def check(sut, ex, c):
        k = ex.get("kind")
        if k not in table:
            raise HarnessError(f"unknown example kind {k!r}")
        c.cls("kind:" + k)
        c.mix("kind", k)
        table[k](sut, ex, c)
    return check


def module_name(path):
    return os.path.splitext(os.path.basename(path))[0]


def _report_fail(e):
    sys.stderr.write(f"ORACLE-FAIL {e.oracle_id} {_clip(e.msg, 3000)}\n")
    sys.stderr.flush()


def run_replay(name, check, path):
    raw = json.load(open(path))
    ex = from_jsonable(raw["example"] if isinstance(raw, dict) and "example" in raw and "module" in raw else raw)
    sut = Sut(stderr_path=os.path.join(os.environ.get("TMPDIR", "/tmp"), f"sutd-replay-{os.getpid()}.txt"))
    c = Case()
    try:
        check(sut, ex, c)
    except OracleFail as e:
        print("example:", _clip(json.dumps(to_jsonable(ex)), 4000))
        for n in c.notes:
            print("  ", n)
        _report_fail(e)
        return 77
    finally:
        sut.close()
        try:
            os.unlink(sut.stderr_path)
        except OSError:
            pass
    for n in c.notes:
        print("  ", n)
    print(f"REPLAY-OK steps={c.steps} nontrivial={c.nt} classes={sorted(c.labels)}")
    return 0


def run_worker(name, strategy, check, a, suppress):
    import hypothesis
    from hypothesis import HealthCheck, Phase, Verbosity, given, seed, settings
    from hypothesis import errors as herr

    os.makedirs(a.out, exist_ok=True)
    stats = Stats(name, a.worker, a.seed, a.out)
    sut = Sut(stderr_path=os.path.join(a.out, f"sutd-stderr-{name}-{a.worker}.txt"))
    total = max(1, (a.examples + a.nworkers - 1) // a.nworkers)
    state = {"last_fail": None, "broken": None}
    strat = strategy(a.tier) if callable(strategy) else strategy

    def inner(ex):
        if state["broken"] is not None:
            raise state["broken"]
        try:
            ex = normalize(ex)
            c = Case()
            try:
                check(sut, ex, c)
            except OracleFail as e:
                state["last_fail"] = (ex, e)          # Hypothesis re-runs the minimal example last
                raise
            stats.account(c, len(json.dumps(to_jsonable(ex))))
        except OracleFail:
            raise
        except (herr.HypothesisException, herr.StopTest, KeyboardInterrupt, SystemExit):
            raise
        except BaseException as e:                   # harness bug: make the remaining (shrink) calls fail fast
            state["broken"] = HarnessError("".join(traceback.format_exception(type(e), e, e.__traceback__))[-4000:])
            raise state["broken"]

    done, batch, rc = 0, 0, 0
    try:
        while done < total:
            if a.max_seconds and time.time() - stats.t0 > a.max_seconds:
                stats.stopped_by = "time"
                break
            n = min(BATCH, total - done)
            st_ = settings(database=None, deadline=None, derandomize=False, report_multiple_bugs=False, max_examples=n,
                           suppress_health_check=list(suppress), verbosity=Verbosity.quiet, print_blob=False,
                           phases=(Phase.explicit, Phase.generate, Phase.target, Phase.shrink))
            fn = seed(derive_seed(a.seed, a.worker, name, batch))(st_(given(strat)(inner)))
            before = stats.cases
            fn()
            # Hypothesis may stop early when the example space is exhausted: count what was asked for
            done += max(n, stats.cases - before)
            batch += 1
            stats.flush()
    except OracleFail as e:
        ex, e2_ = state["last_fail"] if state["last_fail"] else (None, e)
        stats.stopped_by = "failure"
        stats.flush()
        if ex is not None:
            with open(os.path.join(a.out, f"fail-{name}-{a.worker}.json"), "w") as f:
                json.dump({"module": name, "example": to_jsonable(ex)}, f)
            with open(os.path.join(a.out, f"fail-{name}-{a.worker}.txt"), "w") as f:
                f.write(f"{e2_.oracle_id} {e2_.msg}\n")
        _report_fail(e2_)
        rc = 77
    except (herr.FailedHealthCheck, herr.Unsatisfiable, herr.InvalidArgument, herr.Flaky) as e:
        stats.stopped_by = "broken"
        stats.flush()
        sys.stderr.write(f"BROKEN-GENERATOR {type(e).__name__}: {_clip(str(e), 3000)}\n")
        rc = 2
    except HarnessError as e:
        stats.stopped_by = "broken"
        stats.flush()
        sys.stderr.write(f"HARNESS-ERROR {_clip(str(e), 6000)}\n")
        rc = 2
    except Exception as e:   # anything else (incl. exception groups from Hypothesis): broken run
        stats.stopped_by = "broken"
        stats.flush()
        sys.stderr.write("HARNESS-ERROR " + "".join(traceback.format_exception(type(e), e, e.__traceback__))[-6000:] + "\n")
        rc = 2
    else:
        stats.flush()
    finally:
        sut.close()
    return rc


def main(module_file, strategy, check, suppress_health_check=()):
    """strategy: a Hypothesis strategy, or a function tier -> strategy. check(sut, ex, c)."""
    name = module_name(module_file)
    ap = argparse.ArgumentParser(description=f"E2 module {name}")
    ap.add_argument("--seed", type=int, default=1)
    ap.add_argument("--worker", type=int, default=0)
    ap.add_argument("--nworkers", type=int, default=1)
    ap.add_argument("--examples", type=int, default=100)
    ap.add_argument("--out", default=None)
    ap.add_argument("--tier", default="quick", choices=("quick", "thorough"))
    ap.add_argument("--max-seconds", type=float, default=0)
    ap.add_argument("--replay", default=None)
    a = ap.parse_args()
    try:
        if a.replay:
            sys.exit(run_replay(name, check, a.replay))
        if not a.out:
            ap.error("--out is required")
        sys.exit(run_worker(name, strategy, check, a, suppress_health_check))
    except HarnessError as e:
        sys.stderr.write(f"HARNESS-ERROR {e}\n")
        sys.exit(2)
