// C29 — Package acceptance is well-formed and leaves no dangling children.
//
// Generated packages (1-27 transactions) are submitted through ProcessNewPackage to a MempoolSim node with a generated pool. The harness decides
// with its OWN model (written from the statement) whether the package is malformed:
//   count > 25 | more than one tx and total weight > 404000 (own weight) | duplicate txid (incl. same-txid-different-witness) | a transaction spends an
//   output of a LATER package transaction | two transactions spend the same outpoint (or one has no inputs) | (submission only) more than one tx and
//   some non-last transaction is not a direct parent of the last one.
// Oracles
//   c29.malformed-evaluated   model says malformed  =>  no per-transaction result at all, package state invalid, pool transaction set unchanged
//   c29.dangling-child        after a submission: a package tx that is in the pool has every in-package parent in the pool (or that parent's output is
//                             an unspent output of the active chain, i.e. the parent is confirmed)
//   c29.result-membership     per-tx results vs pool membership after the submission, looked up BY WTXID:
//                             VALID => in pool by wtxid and was not before;  MEMPOOL_ENTRY => in pool by wtxid, and was before;
//                             DIFFERENT_WITNESS => pool holds the same txid with another wtxid, which is the wtxid the result reports;
//                             INVALID or no result => not in pool by wtxid (unless it was there before);
//                             conversely in pool by wtxid => VALID/MEMPOOL_ENTRY; in pool by txid only => DIFFERENT_WITNESS
//   c29.foreign-entry         nothing entered the pool that is not a package transaction
// test-accept packages are only judged for the context-free part (malformed => no results) and for leaving the pool untouched.
#include <engine/verif.h>
#include <kits/mempoolsim.h>

#include <algorithm>
#include <map>
#include <set>

using namespace verif;

namespace {

int64_t OwnWeight(const CTransaction& tx) { return int64_t(::GetSerializeSize(TX_NO_WITNESS(tx))) * 3 + int64_t(::GetSerializeSize(TX_WITH_WITNESS(tx))); }

/** "" if the package is well-formed by the statement, else the first malformation found */
std::string ModelMalformed(const Package& p, bool submission)
{
    if (p.size() > 25) return "count";
    int64_t w = 0;
    for (const auto& t : p) w += OwnWeight(*t);
    if (p.size() > 1 && w > 404000) return "weight";
    std::set<Txid> ids;
    for (const auto& t : p) if (!ids.insert(t->GetHash()).second) return "duplicates";
    for (size_t i = 0; i < p.size(); ++i) {
        for (const auto& in : p[i]->vin) {
            for (size_t j = i; j < p.size(); ++j) if (p[j]->GetHash() == in.prevout.hash) return "unsorted";
        }
    }
    std::set<COutPoint> seen;
    for (const auto& t : p) {
        if (t->vin.empty()) return "conflict";
        std::set<COutPoint> own;
        for (const auto& in : t->vin) own.insert(in.prevout);
        for (const auto& o : own) if (!seen.insert(o).second) return "conflict";
    }
    if (submission && p.size() > 1) {
        std::set<Txid> child_inputs;
        for (const auto& in : p.back()->vin) child_inputs.insert(in.prevout.hash);
        for (size_t i = 0; i + 1 < p.size(); ++i) if (!child_inputs.count(p[i]->GetHash())) return "not-child-with-parents";
    }
    return "";
}

CTxOut Padding(size_t bytes)
{
    CScript sc;
    sc << OP_RETURN;
    std::vector<unsigned char> data(bytes, 0x33);
    sc << data;
    return CTxOut(0, sc);
}

Spendable OutputOf(const CTransactionRef& tx, uint32_t n)
{
    return Spendable{COutPoint(tx->GetHash(), n), RefCoin{tx->vout[n].nValue, tx->vout[n].scriptPubKey, -1, false}, true, std::nullopt};
}

/** same txid, other wtxid (extra witness item on the first input that has a witness); nullptr if the tx has no witness */
CTransactionRef WitnessTwin(const CTransactionRef& tx)
{
    CMutableTransaction m(*tx);
    for (auto& in : m.vin) {
        if (in.scriptWitness.IsNull()) continue;
        in.scriptWitness.stack.insert(in.scriptWitness.stack.begin(), std::vector<unsigned char>{0x01});
        return MakeTransactionRef(m);
    }
    return nullptr;
}

uint64_t ReasonHash(const std::string& r)
{
    uint64_t h = 1469598103934665603ULL;
    for (unsigned char c : r) { h ^= c; h *= 1099511628211ULL; }
    return h;
}

struct Ctx {
    MempoolSim& ms;
    Stats& st;
    Src& s;
    CAmount minrate{100}; //!< sat/kvB
    std::set<COutPoint> used; //!< coins already taken by this case's builders

    int64_t VSize(const CTransaction& tx) { return (OwnWeight(tx) + 3) / 4; }

    std::optional<Spendable> TakeCoin(bool allow_unconfirmed)
    {
        std::vector<Spendable> sp = ms.Spendables();
        std::vector<size_t> idx;
        for (size_t i = 0; i < sp.size(); ++i) {
            const auto& x = sp[i];
            if (x.spent_by || used.count(x.op)) continue;
            if (x.unconfirmed) { if (!allow_unconfirmed || ModelIsDust(CTxOut(x.coin.value, x.coin.spk))) continue; }
            else if (!ms.IsMatureAtNext(x.coin) || x.coin.value < 200000) continue;
            idx.push_back(i);
        }
        if (idx.empty()) return std::nullopt;
        const Spendable r = sp[idx[s.index(idx.size())]];
        used.insert(r.op);
        return r;
    }

    CAmount PickFee(int64_t vsize, unsigned mode)
    {
        switch (mode) {
        case 0: return vsize * 5 * minrate / 100;                 // fine
        case 1: return 0;                                         // needs a sponsor
        case 2: return std::max<CAmount>(0, (vsize * minrate + 999) / 1000 - 1); // one below the relay minimum
        case 3: return (vsize * minrate + 999) / 1000;            // exactly the relay minimum
        case 4: return vsize * 60 * minrate / 100;                // high (sponsor)
        default: return vsize * 2 * minrate / 100;
        }
    }

    CTransactionRef BuildWithFeeMode(TxPlan plan, unsigned fee_mode)
    {
        plan.fee = 1000;
        CTransactionRef probe = ms.Build(plan);
        ms.known_txs.erase(probe->GetHash());
        CAmount in = 0, fixed = 0;
        for (const auto& i : plan.inputs) in += i.coin.value;
        for (const auto& o : plan.fixed_outputs) fixed += o.nValue;
        plan.fee = std::min<CAmount>(PickFee(VSize(*probe), fee_mode), std::max<CAmount>(0, in - fixed - 1000));
        return ms.Build(plan);
    }
};

} // namespace

VERIF_TARGET(c29_packages, nullptr, 128, 1500,
             "a regtest node (MempoolSim; default pool, or a 200 kB pool (cluster size limit 5 kvB) pre-filled with ~4.5 kB high-feerate transactions so that accepted package members get evicted again) with 0-8 "
             "generated pool transactions receives 2-6 packages: single tx, child-with-1..6-parents (also 23-26 parents spending a 27-output in-pool fan-out), parents depending on "
             "parents, grandparent chains, two children, unrelated transactions, [P1 spending a pool tx M, P2 replacing M (and thereby evicting the just-accepted P1), child of both]; parents with zero/below-minimum/exact-minimum fee and a sponsoring child, parents spending "
             "unconfirmed pool outputs, parents already in the pool (same or different witness); mutations: swapped order, duplicated transaction / witness twin, conflicting "
             "extra parent, total weight around 404000, a parent that is invalid. Rarely test-accept. non-trivial = a well-formed package of >= 3 transactions was evaluated with at "
             "least one member entering the pool and the case also contained a malformed package; distinct = shapes, mutations, model verdicts, result kinds")
{
    MempoolSimOpts o;
    const unsigned cfg = s.range<unsigned>(0, 4);
    const bool tiny = cfg == 4;
    if (tiny) o.tweak_mempool = [](CTxMemPool::Options& mo) { mo.max_size_bytes = 200'000; mo.limits.cluster_size_vbytes = 5'000; };
    if (cfg == 3) o.extra_args.push_back("-limitclustercount=8");
    o.with_mempool_checks = cfg != 2 && !tiny;
    MempoolSim ms(o);
    Ctx c{ms, st, s, 100, {}};
    st.mix(uint64_t(cfg));
    Note(st, "cfg=", cfg);
    if (tiny) st.cls("cfg:tiny-pool");

    // ---- pool fill
    if (tiny) {
        // a confirmed fan-out, then ~4.5 kB high-feerate transactions until the 200 kB pool is ~85% full
        auto coin = c.TakeCoin(false);
        assert(coin);
        TxPlan f;
        f.inputs = {*coin};
        f.fee = 20000;
        for (unsigned k = 0; k < 48; ++k) f.change_scripts.push_back(ms.sim().keys.Script(SpkType::ANYONE_P2WSH));
        CTransactionRef fan = ms.Build(f);
        auto mined = ms.MineTxs({fan});
        assert(mined.became_tip && mined.dropped.empty());
        ms.Sync();
        unsigned nbig = 0;
        for (uint32_t k = 0; k < fan->vout.size(); ++k) {
            { LOCK(ms.pool().cs); if (ms.pool().DynamicMemoryUsage() > 192'000) break; }
            TxPlan p;
            p.inputs = {Spendable{COutPoint(fan->GetHash(), k), RefCoin{fan->vout[k].nValue, fan->vout[k].scriptPubKey, ms.TipHeight(), false}, false, std::nullopt}};
            p.fixed_outputs.push_back(Padding(4400));
            p.change_scripts = {ms.sim().keys.Script(SpkType::ANYONE_P2WSH)};
            c.used.insert(p.inputs[0].op);
            ms.Submit(c.BuildWithFeeMode(p, 4));
            nbig++;
        }
        ms.Sync();
        Note(st, "tiny pool pre-filled with ", nbig, " txs, usage ", ms.LastSnap().usage);
    }
    const unsigned nfill = s.range<unsigned>(0, 8);
    static const GenKind fill_kinds[] = {GenKind::PLAIN, GenKind::CHAIN, GenKind::PLAIN, GenKind::TRUC_PARENT, GenKind::CHAIN, GenKind::MERGE, GenKind::CPFP_PKG};
    for (unsigned i = 0; i < nfill; ++i) {
        GenTx g = ms.GenOfKind(s, fill_kinds[s.index(std::size(fill_kinds))]);
        if (!g.tx) continue;
        if (!g.package.empty()) ms.SubmitPackage(g.package); else ms.Submit(g.tx);
        ms.Sync();
    }
    for (const auto& [id, e] : ms.LastSnap().entries) for (const auto& in : e.tx->vin) c.used.insert(in.prevout);

    bool saw_malformed = false, saw_good_eval = false;
    const unsigned npk = s.range<unsigned>(2, 6);
    for (unsigned pk = 0; pk < npk && !s.exhausted(); ++pk) {
        const unsigned shape = s.range<unsigned>(0, 13);
        std::optional<Txid> evict_p1, evict_p2; // shape "later parent replaces ancestor": the parent expected to be evicted / the replacing parent
        st.mix(uint64_t(100 + shape));
        Package pkg;
        std::string shape_name;
        const bool v3 = s.chance(40);
        auto parent_plan = [&](const Spendable& coin, unsigned nout) {
            TxPlan p;
            p.inputs = {coin};
            p.version = v3 ? 3 : 2;
            if (coin.unconfirmed) p.version = ms.Belief().Has(coin.op.hash) && ms.Belief().txs.at(coin.op.hash)->version == 3 ? 3 : 2;
            for (unsigned k = 0; k < nout; ++k) p.change_scripts.push_back(ms.OutScript(s));
            if (tiny && s.chance(160)) p.fixed_outputs.push_back(Padding(s.pick<size_t>({3500, 2500, 3900})));
            return p;
        };
        auto make_child = [&](const std::vector<Spendable>& ins, unsigned fee_mode, size_t pad = 0) {
            TxPlan p;
            p.inputs = ins;
            p.version = v3 ? 3 : 2;
            p.change_scripts = {ms.OutScript(s)};
            if (pad) p.fixed_outputs.push_back(Padding(pad));
            return c.BuildWithFeeMode(p, fee_mode);
        };
        if (shape == 0) {
            shape_name = "single";
            auto coin = c.TakeCoin(true);
            if (!coin) continue;
            pkg.push_back(c.BuildWithFeeMode(parent_plan(*coin, 1), s.range<unsigned>(0, 5)));
        } else if (shape <= 5) {
            // child with n parents
            unsigned n = s.pick<unsigned>({1, 1, 2, 2, 3, 4, 6});
            bool count_boundary = false;
            std::vector<Spendable> fan_coins;
            if (shape == 5 && !tiny && !v3) { // 23..26 parents on an in-pool fan-out
                count_boundary = true;
                n = s.pick<unsigned>({24, 25, 23, 26});
                auto coin = c.TakeCoin(false);
                if (!coin) continue;
                TxPlan f;
                f.inputs = {*coin};
                for (unsigned k = 0; k < 27; ++k) f.change_scripts.push_back(ms.sim().keys.Script(SpkType::ANYONE_P2WSH));
                CTransactionRef fan = c.BuildWithFeeMode(f, 0);
                auto r = ms.Submit(fan);
                ms.Sync();
                if (r.m_result_type != MempoolAcceptResult::ResultType::VALID) continue;
                for (uint32_t k = 0; k < fan->vout.size(); ++k) fan_coins.push_back(OutputOf(fan, k));
            }
            shape_name = count_boundary ? "child-with-many-parents" : "child-with-parents";
            std::vector<Spendable> child_ins;
            const bool dependent_parents = !count_boundary && n >= 2 && s.chance(110);
            CTransactionRef prev_parent;
            for (unsigned i = 0; i < n; ++i) {
                std::optional<Spendable> coin;
                if (count_boundary) { if (i < fan_coins.size()) coin = fan_coins[i]; }
                else if (dependent_parents && prev_parent && prev_parent->vout.size() >= 2 && i == 1) coin = OutputOf(prev_parent, 1);
                else coin = c.TakeCoin(s.chance(48));
                if (!coin) break;
                const unsigned fm = count_boundary ? 0 : s.range<unsigned>(0, 5);
                CTransactionRef par = c.BuildWithFeeMode(parent_plan(*coin, (dependent_parents && i == 0) ? 2 : s.range<unsigned>(1, 2)), fm);
                pkg.push_back(par);
                child_ins.push_back(OutputOf(par, 0));
                prev_parent = par;
            }
            if (pkg.empty()) continue;
            if (dependent_parents) shape_name = "child-with-dependent-parents";
            if (s.chance(40)) if (auto extra = c.TakeCoin(s.chance(64))) child_ins.push_back(*extra);
            pkg.push_back(make_child(child_ins, s.pick<unsigned>({4, 4, 0, 1, 5})));
        } else if (shape == 6 || shape == 7) {
            shape_name = "grandparent-chain";
            auto coin = c.TakeCoin(false);
            if (!coin) continue;
            const unsigned len = s.range<unsigned>(3, 4);
            CTransactionRef prev = c.BuildWithFeeMode(parent_plan(*coin, 1), s.range<unsigned>(0, 5));
            pkg.push_back(prev);
            for (unsigned i = 1; i < len; ++i) { prev = make_child({OutputOf(prev, 0)}, s.pick<unsigned>({0, 4, 5})); pkg.push_back(prev); }
        } else if (shape == 8) {
            shape_name = "two-children";
            auto coin = c.TakeCoin(false);
            if (!coin) continue;
            CTransactionRef par = c.BuildWithFeeMode(parent_plan(*coin, 2), s.range<unsigned>(0, 5));
            pkg.push_back(par);
            pkg.push_back(make_child({OutputOf(par, 0)}, 0));
            if (par->vout.size() >= 2) pkg.push_back(make_child({OutputOf(par, 1)}, 4));
        } else if (shape == 9) {
            shape_name = "unrelated";
            const unsigned n = s.range<unsigned>(2, 3);
            for (unsigned i = 0; i < n; ++i) { auto coin = c.TakeCoin(true); if (!coin) break; pkg.push_back(c.BuildWithFeeMode(parent_plan(*coin, 1), s.range<unsigned>(0, 5))); }
            if (pkg.size() < 2) continue;
        } else if (shape >= 12) {
            // pool holds M (optionally with a descendant D); package = [P1 spends M:0, P2 double-spends M's confirmed input, child spends P1 and P2]:
            // P1 is accepted on its own, then P2 (if it pays enough) replaces M and with it the just-accepted P1 -- without any trim/expiry
            shape_name = "later-parent-replaces-ancestor";
            auto coin = c.TakeCoin(false);
            if (!coin) continue;
            CTransactionRef m = c.BuildWithFeeMode(parent_plan(*coin, 2), 0);
            auto rm = ms.Submit(m);
            ms.Sync();
            if (rm.m_result_type != MempoolAcceptResult::ResultType::VALID || m->vout.size() < 2) { Note(st, "pre-submit M -> ", TxStateStr(rm)); continue; }
            if (s.chance(70)) { // a descendant of M that is not part of the package
                auto rd = ms.Submit(c.BuildWithFeeMode(parent_plan(OutputOf(m, 1), 1), 0));
                ms.Sync();
                Note(st, "pre-submit descendant of M -> ", TxStateStr(rd));
            }
            CTransactionRef p1 = c.BuildWithFeeMode(parent_plan(OutputOf(m, 0), s.range<unsigned>(1, 2)), s.pick<unsigned>({0, 0, 4, 5}));
            TxPlan rp;
            rp.inputs = {*coin};
            rp.version = m->version;
            rp.change_scripts = {ms.OutScript(s)};
            const bool pays = !s.chance(64);
            CTransactionRef p2 = c.BuildWithFeeMode(rp, pays ? 4 : s.pick<unsigned>({5, 0, 3})); // 60 sat/vB replaces M (5 sat/vB) and its few descendants; else the replacement fails
            if (s.chance(64)) pkg = {p2, p1}; else pkg = {p1, p2};
            pkg.push_back(make_child({OutputOf(p1, 0), OutputOf(p2, 0)}, 4));
            evict_p1 = p1->GetHash(); evict_p2 = p2->GetHash();
            st.cls(pays ? "replacing-parent:pays" : "replacing-parent:underpays");
        } else {
            // parents, one of them first sent to the pool on its own (same witness or a twin in the package)
            shape_name = "parent-already-in-pool";
            const unsigned n = s.range<unsigned>(1, 3);
            std::vector<Spendable> child_ins;
            for (unsigned i = 0; i < n; ++i) {
                auto coin = c.TakeCoin(false);
                if (!coin) break;
                CTransactionRef par = c.BuildWithFeeMode(parent_plan(*coin, 1), i == 0 ? 0 : s.range<unsigned>(0, 5));
                child_ins.push_back(OutputOf(par, 0));
                if (i == 0) {
                    auto r = ms.Submit(par);
                    ms.Sync();
                    Note(st, "pre-submit parent -> ", TxStateStr(r));
                    if (shape == 11) { if (auto tw = WitnessTwin(par)) { par = tw; st.cls("package-holds-witness-twin-of-pool-tx"); } }
                }
                pkg.push_back(par);
            }
            if (pkg.empty()) continue;
            pkg.push_back(make_child(child_ins, s.pick<unsigned>({4, 0, 1})));
        }
        // ---- mutation
        const unsigned mut = s.range<unsigned>(0, 11);
        std::string mut_name = "none";
        if ((mut == 5 || mut == 6) && shape_name == "child-with-dependent-parents" && pkg.size() >= 3) { // the two dependent parents change places: unsorted, still child-with-parents shaped
            mut_name = "swap-dependent-parents";
            std::swap(pkg[0], pkg[1]);
        } else if (mut == 6 && pkg.size() >= 2) { // swap two transactions
            mut_name = "swap";
            size_t a = s.index(pkg.size()), b = s.index(pkg.size());
            if (s.chance(128) && pkg.size() >= 3) { a = s.index(pkg.size() - 1); b = s.index(pkg.size() - 1); } // among the parents only
            std::swap(pkg[a], pkg[b]);
        } else if (mut == 7) { // duplicate
            mut_name = "duplicate";
            const size_t a = s.index(pkg.size());
            CTransactionRef dup = pkg[a];
            if (s.boolean()) if (auto tw = WitnessTwin(dup)) { dup = tw; mut_name = "duplicate-witness-twin"; }
            pkg.insert(pkg.begin() + s.index(pkg.size() + 1), dup);
        } else if (mut == 8 && pkg.size() >= 2) { // conflicting extra parent, also spent by the child (keeps the child-with-parents shape)
            mut_name = "conflicting-parent";
            const size_t a = s.index(pkg.size() - 1);
            TxPlan p;
            const CTransactionRef& victim = pkg[a];
            auto coin = ms.LookupCoin(victim->vin[0].prevout);
            if (coin) {
                p.inputs = {Spendable{victim->vin[0].prevout, *coin, false, std::nullopt}};
                p.version = victim->version;
                p.change_scripts = {ms.OutScript(s), ms.OutScript(s)};
                CTransactionRef rival = c.BuildWithFeeMode(p, 4);
                // child additionally spends the rival
                CMutableTransaction child(*pkg.back());
                std::vector<Spendable> ins;
                for (const auto& in : child.vin) if (auto cc = ms.LookupCoin(in.prevout)) ins.push_back(Spendable{in.prevout, *cc, true, std::nullopt});
                ins.push_back(OutputOf(rival, 0));
                TxPlan cp;
                cp.inputs = ins;
                cp.version = child.version;
                cp.change_scripts = {ms.OutScript(s)};
                CTransactionRef newchild = c.BuildWithFeeMode(cp, 4);
                pkg.back() = newchild;
                pkg.insert(pkg.begin() + a + 1, rival);
            }
        } else if (mut == 9 && !tiny) { // total weight around the limit: a fresh padded parent + padded child replace the package
            if (auto coin = c.TakeCoin(false)) {
                mut_name = "weight-boundary";
                TxPlan pp;
                pp.inputs = {*coin};
                pp.change_scripts = {ms.sim().keys.Script(SpkType::ANYONE_P2WSH)};
                pp.fixed_outputs.push_back(Padding(s.pick<size_t>({50000, 30000, 70000})));
                CTransactionRef par = c.BuildWithFeeMode(pp, s.pick<unsigned>({0, 1, 0}));
                TxPlan cp;
                cp.inputs = {OutputOf(par, 0)};
                cp.change_scripts = {ms.sim().keys.Script(SpkType::ANYONE_P2WSH)};
                cp.fixed_outputs.push_back(Padding(1000));
                cp.fee = 60000;
                CTransactionRef probe = ms.Build(cp);
                ms.known_txs.erase(probe->GetHash());
                const int64_t base = OwnWeight(*probe) + OwnWeight(*par) - 4000; // total without the 1000 padding bytes
                const int64_t target = 404000 + s.pick<int64_t>({0, 4, -4, 8, 400, -400});
                const int64_t padbytes = (target - base) / 4; // > 65535: the push-length prefix stays 5 bytes (as for 1000 it is 3: corrected below)
                cp.fixed_outputs.clear();
                cp.fixed_outputs.push_back(Padding(size_t(std::clamp<int64_t>(padbytes, 300, 99000))));
                CTransactionRef child = ms.Build(cp);
                // the length prefixes of a longer push add a few bytes: trim the padding by the overshoot
                int64_t over = (OwnWeight(*child) + OwnWeight(*par) - target) / 4;
                if (over != 0 && padbytes - over > 300) {
                    ms.known_txs.erase(child->GetHash());
                    cp.fixed_outputs.clear();
                    cp.fixed_outputs.push_back(Padding(size_t(std::clamp<int64_t>(padbytes - over, 300, 99000))));
                    child = ms.Build(cp);
                }
                pkg = {par, child};
            }
        } else if (mut == 10 && pkg.size() >= 2) { // one parent made invalid (wrecked witness / signature)
            mut_name = "invalid-parent";
            const size_t a = s.index(pkg.size() - 1);
            CMutableTransaction m(*pkg[a]);
            if (!m.vin[0].scriptWitness.stack.empty()) m.vin[0].scriptWitness.stack[0] = std::vector<unsigned char>{0x00};
            else if (m.vin[0].scriptSig.size() > 10) m.vin[0].scriptSig[5] ^= 1;
            // txid may change (scriptSig): the child then spends a non-existent parent; either way the package stays a generated object the model can judge
            pkg[a] = MakeTransactionRef(m);
        } else if (mut == 11 && pkg.size() >= 2) { // reverse
            mut_name = "reverse";
            std::reverse(pkg.begin(), pkg.end());
        }
        st.mix(uint64_t(200 + mut));
        if (pkg.empty()) continue;
        const bool test_accept = s.chance(20);
        const std::string model = ModelMalformed(pkg, !test_accept);
        int64_t total_w = 0;
        for (const auto& t : pkg) total_w += OwnWeight(*t);
        // ---- submit
        const PoolSnap before = ms.LastSnap();
        const auto r = ms.SubmitPackage(pkg, test_accept);
        const PoolSnap& after = ms.Sync();
        st.steps++;
        Note(st, "package ", shape_name, " n=", pkg.size(), " mut=", mut_name, " w=", total_w, test_accept ? " TEST-ACCEPT" : "", " model=", model.empty() ? "well-formed" : model, " -> ",
             PkgStateStr(r));
        st.cls("shape:" + shape_name);
        st.cls("mutation:" + mut_name);
        st.mix(ReasonHash(model));
        st.mix(ReasonHash(r.m_state.GetRejectReason()));
        st.mix(uint64_t(pkg.size()));
        std::set<Txid> before_ids, after_ids;
        for (const auto& [id, e] : before.entries) before_ids.insert(id);
        for (const auto& [id, e] : after.entries) after_ids.insert(id);
        if (pkg.size() == 25) st.cls("count=25");
        if (pkg.size() == 26) st.cls("count=26");
        if (pkg.size() > 26) st.cls("count>26");
        if (pkg.size() > 1 && total_w > 403000 && total_w <= 404000) st.cls("weight:just-within");
        if (pkg.size() > 1 && total_w > 404000 && total_w < 405000) st.cls("weight:just-above");
        if (test_accept) {
            st.cls("test-accept");
            VCHECK(before_ids == after_ids, "c29.malformed-evaluated", "test-accept of a package changed the pool's transaction set");
        }
        if (!model.empty()) {
            saw_malformed = true;
            st.cls("malformed:" + model);
            VCHECK(r.m_tx_results.empty(), "c29.malformed-evaluated", "package is malformed by the model (", model, ") but", r.m_tx_results.size(),
                   "transactions were evaluated; n=", pkg.size(), "shape", shape_name, "mutation", mut_name, "result", PkgStateStr(r));
            VCHECK(r.m_state.IsInvalid(), "c29.malformed-evaluated", "package is malformed by the model (", model, ") but the package state is valid");
            VCHECK(before_ids == after_ids, "c29.malformed-evaluated", "package is malformed by the model (", model, ") but the pool changed");
            continue;
        }
        st.cls(pkg.size() > 1 ? "well-formed:multi" : "well-formed:single");
        if (test_accept) continue;
        if (evict_p1 && before.entries.count(*evict_p1) == 0 && !after.entries.count(*evict_p1) && after.entries.count(*evict_p2)) {
            size_t i1 = 0, i2 = 0;
            for (size_t i = 0; i < pkg.size(); ++i) { if (pkg[i]->GetHash() == *evict_p1) i1 = i; if (pkg[i]->GetHash() == *evict_p2) i2 = i; }
            if (i1 < i2) st.cls("parent-evicted-by-later-parent-rbf"); else st.cls("parent-orphaned-by-earlier-parent-rbf");
        }
        // ---- results vs membership (by wtxid)
        std::set<Txid> pkg_ids;
        for (const auto& t : pkg) pkg_ids.insert(t->GetHash());
        for (const auto& id : after_ids) if (!before_ids.count(id)) VCHECK(pkg_ids.count(id), "c29.foreign-entry", "transaction", id.ToString(), "entered the pool but is not in the package");
        unsigned in_pool = 0, entered = 0;
        for (const auto& t : pkg) {
            const Txid id = t->GetHash();
            const Wtxid wid = t->GetWitnessHash();
            auto ait = after.entries.find(id);
            const bool pool_txid = ait != after.entries.end();
            const bool pool_wtxid = pool_txid && ait->second.tx->GetWitnessHash() == wid;
            auto bit = before.entries.find(id);
            const bool was_wtxid = bit != before.entries.end() && bit->second.tx->GetWitnessHash() == wid;
            auto rit = r.m_tx_results.find(wid);
            std::string kind = "absent";
            if (rit != r.m_tx_results.end()) {
                switch (rit->second.m_result_type) {
                case MempoolAcceptResult::ResultType::VALID: kind = "VALID"; break;
                case MempoolAcceptResult::ResultType::MEMPOOL_ENTRY: kind = "MEMPOOL_ENTRY"; break;
                case MempoolAcceptResult::ResultType::DIFFERENT_WITNESS: kind = "DIFFERENT_WITNESS"; break;
                case MempoolAcceptResult::ResultType::INVALID: kind = "INVALID"; break;
                }
            }
            st.cls("result:" + kind);
            if (kind == "INVALID") st.cls("result:INVALID:" + rit->second.m_state.GetRejectReason());
            st.steps++;
            const std::string ctx = strprintf("tx %s (wtxid %s) result %s pool_by_txid=%d pool_by_wtxid=%d was_in_pool=%d; package %s", id.ToString().substr(0, 10),
                                              wid.ToString().substr(0, 10), kind, pool_txid, pool_wtxid, was_wtxid, PkgStateStr(r));
            if (kind == "VALID") {
                VCHECK(pool_wtxid, "c29.result-membership", "reported VALID but not in the pool by wtxid:", ctx);
                VCHECK(!was_wtxid, "c29.result-membership", "reported VALID (newly accepted) but it was in the pool before:", ctx);
            } else if (kind == "MEMPOOL_ENTRY") {
                VCHECK(pool_wtxid && was_wtxid, "c29.result-membership", "reported MEMPOOL_ENTRY but not an unchanged pool member:", ctx);
            } else if (kind == "DIFFERENT_WITNESS") {
                VCHECK(pool_txid && !pool_wtxid, "c29.result-membership", "reported DIFFERENT_WITNESS but the pool does not hold the same txid with another witness:", ctx);
                VCHECK(rit->second.m_other_wtxid.has_value() && *rit->second.m_other_wtxid == ait->second.tx->GetWitnessHash(), "c29.result-membership",
                       "DIFFERENT_WITNESS reports a wtxid that is not the pool's:", ctx);
            } else { // INVALID or no result
                VCHECK(!pool_wtxid, "c29.result-membership", "transaction is in the pool by wtxid but its result is", kind, ":", ctx);
                VCHECK(!pool_txid || before.entries.count(id), "c29.result-membership", "a same-txid transaction entered the pool but the result is", kind, ":", ctx);
            }
            if (pool_txid && !pool_wtxid) VCHECK(kind == "DIFFERENT_WITNESS", "c29.result-membership", "pool holds a witness twin but the result is", kind, ":", ctx);
            if (pool_txid) in_pool++;
            if (pool_wtxid && !was_wtxid) entered++;
            if (kind == "INVALID" && rit->second.m_state.GetRejectReason() == "mempool full") st.cls("evicted-after-acceptance");
            // dangling: every in-package parent of a pool member is in the pool or confirmed
            if (pool_txid) {
                const CTransaction& ptx = *ait->second.tx;
                for (const auto& in : ptx.vin) {
                    if (!pkg_ids.count(in.prevout.hash)) continue;
                    const bool parent_in_pool = after.entries.count(in.prevout.hash) > 0;
                    const bool parent_confirmed = ms.ChainUtxo().count(in.prevout) > 0;
                    VCHECK(parent_in_pool || parent_confirmed, "c29.dangling-child", "package tx", id.ToString(), "is in the pool but its in-package parent",
                           in.prevout.hash.ToString(), "is neither in the pool nor confirmed; package", PkgStateStr(r));
                }
            }
        }
        if (entered > 0) st.cls("evaluated:some-entered");
        if (entered == pkg.size()) st.cls("evaluated:all-entered");
        if (entered > 0 && in_pool < pkg.size()) st.cls("evaluated:partial");
        if (pkg.size() >= 3 && entered > 0) saw_good_eval = true;
        if (pkg.size() >= 2) {
            // a parent that failed on its own for fee reasons but is in the pool now was sponsored by the child
            for (size_t i = 0; i + 1 < pkg.size(); ++i) {
                auto rit = r.m_tx_results.find(pkg[i]->GetWitnessHash());
                if (rit != r.m_tx_results.end() && rit->second.m_result_type == MempoolAcceptResult::ResultType::VALID && rit->second.m_wtxids_fee_calculations &&
                    rit->second.m_wtxids_fee_calculations->size() > 1) { st.cls("evaluated:cpfp-sponsored-parent"); break; }
            }
        }
        st.mix(uint64_t(entered));
        for (const auto& t : pkg) for (const auto& in : t->vin) c.used.insert(in.prevout);
    }
    st.nontrivial = saw_malformed && saw_good_eval;
}
