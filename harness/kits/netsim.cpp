#include <kits/netsim.h>

#include <chainparams.h>
#include <netgroup.h>
#include <node/peerman_args.h>
#include <streams.h>
#include <test/util/validation.h>
#include <util/time.h>

#include <arpa/inet.h>
#include <netinet/in.h>

#include <cassert>
#include <cstring>

extern void MakeRandDeterministicDANGEROUS(const uint256& seed) noexcept;

namespace verif {

bool AddrKindIsLocal(AddrKind k) { return k == AddrKind::LOOPBACK_V4 || k == AddrKind::LOOPBACK_V6 || k == AddrKind::ZERO_V4; }

const char* AddrKindName(AddrKind k)
{
    switch (k) {
    case AddrKind::ROUTABLE_V4: return "routable4";
    case AddrKind::LOOPBACK_V4: return "loopback4";
    case AddrKind::ZERO_V4: return "zero4";
    case AddrKind::LOOPBACK_V6: return "loopback6";
    case AddrKind::ROUTABLE_V6: return "routable6";
    case AddrKind::PRIVATE_V4: return "private4";
    case AddrKind::ONION: return "onion";
    }
    return "?";
}

const char* ConnTypeName(ConnectionType t)
{
    switch (t) {
    case ConnectionType::INBOUND: return "inbound";
    case ConnectionType::OUTBOUND_FULL_RELAY: return "outbound-full";
    case ConnectionType::MANUAL: return "manual";
    case ConnectionType::FEELER: return "feeler";
    case ConnectionType::BLOCK_RELAY: return "block-relay";
    case ConnectionType::ADDR_FETCH: return "addr-fetch";
    case ConnectionType::PRIVATE_BROADCAST: return "private-broadcast";
    }
    return "?";
}

CAddress NetSim::MakeAddr(AddrKind k, unsigned n)
{
    auto v4 = [&](uint8_t a, uint8_t b) {
        in_addr ia;
        ia.s_addr = htonl((uint32_t(a) << 24) | (uint32_t(b) << 16) | (uint32_t((n / 200) & 0xff) << 8) | uint32_t(n % 200 + 1));
        return CNetAddr(ia);
    };
    CNetAddr a;
    switch (k) {
    case AddrKind::ROUTABLE_V4: a = v4(45, 33); break;
    case AddrKind::LOOPBACK_V4: a = v4(127, 0); break;
    case AddrKind::ZERO_V4: a = v4(0, 1); break;
    case AddrKind::PRIVATE_V4: a = v4(10, 0); break;
    case AddrKind::LOOPBACK_V6: {
        in6_addr i6{};
        i6.s6_addr[15] = 1;
        a = CNetAddr(i6);
        break;
    }
    case AddrKind::ROUTABLE_V6: {
        in6_addr i6{};
        i6.s6_addr[0] = 0x20; i6.s6_addr[1] = 0x01; i6.s6_addr[2] = 0x48; i6.s6_addr[3] = 0x60;
        i6.s6_addr[14] = uint8_t(n >> 8); i6.s6_addr[15] = uint8_t(n + 1);
        a = CNetAddr(i6);
        break;
    }
    case AddrKind::ONION: {
        std::vector<uint8_t> pk(32, 0x5a);
        pk[0] = uint8_t(n); pk[1] = uint8_t(n >> 8);
        bool ok = a.SetSpecial(OnionToString(pk));
        assert(ok);
        break;
    }
    }
    return CAddress(CService(a, uint16_t(18444 + (n % 1000))), NODE_NONE);
}

std::vector<uint8_t> NetSim::HeadersPayload(const std::vector<CBlockHeader>& h)
{
    DataStream ds;
    WriteCompactSize(ds, h.size());
    for (const auto& x : h) { ds << x; WriteCompactSize(ds, 0); }
    return std::vector<uint8_t>(UCharCast(ds.data()), UCharCast(ds.data()) + ds.size());
}

NetSim::NetSim(ChainSim& sim_in, NetSimOpts o) : sim(sim_in), opts(std::move(o))
{
    auto& node = sim.m_node;
    assert(!node.peerman && !node.connman);
    // time: just after the tip, so that the tip is recent (not IBD, direct fetch allowed) and new blocks are not "too far in the future"
    int64_t tip_time;
    {
        LOCK(cs_main);
        tip_time = sim.chainman().ActiveChain().Tip()->GetBlockTime();
    }
    SetTime(tip_time + opts.time_after_tip);
    {
        uint256 seed;
        uint64_t s = opts.rng_seed;
        std::memcpy(seed.begin(), &s, 8);
        seed.begin()[31] = 0x4e;
        MakeRandDeterministicDANGEROUS(seed);
    }
    if (opts.leave_ibd) {
        auto& tcm = static_cast<TestChainstateManager&>(sim.chainman());
        if (tcm.IsInitialBlockDownload()) tcm.JumpOutOfIbd();
    }

    node.netgroupman = std::make_unique<NetGroupManager>(NetGroupManager::NoAsmap());
    node.addrman = std::make_unique<AddrMan>(*node.netgroupman, /*deterministic=*/true, /*consistency_check_ratio=*/0);
    node.banman = std::make_unique<BanMan>(sim.m_args.GetDataDirBase() / "banlist", nullptr, DEFAULT_MISBEHAVING_BANTIME);
    auto cm = std::make_unique<ConnmanTestMsg>(0x1337, 0x1337, *node.addrman, *node.netgroupman, Params());
    m_connman = cm.get();
    node.connman = std::move(cm);
    PeerManager::Options popts;
    node::ApplyArgsManOptions(*node.args, popts);
    popts.deterministic_rng = true;
    popts.ignore_incoming_txs = opts.blocksonly;
    if (opts.tweak_peerman) opts.tweak_peerman(popts);
    node.peerman = PeerManager::make(*node.connman, *node.addrman, node.banman.get(), *node.chainman, *node.mempool, *node.warnings, popts);
    {
        CConnman::Options co;
        co.m_msgproc = node.peerman.get();
        co.m_banman = node.banman.get();
        co.nSendBufferMaxSize = 64 * 1000 * 1000; // never pause for a full send buffer (the buffer is dropped after every step)
        co.nReceiveFloodSize = 64 * 1000 * 1000;
        co.m_local_services = ServiceFlags(NODE_NETWORK | NODE_WITNESS);
        if (opts.tweak_connman) opts.tweak_connman(co);
        node.connman->Init(co);
    }
    node.validation_signals->RegisterValidationInterface(node.peerman.get());

    m_capture_orig = CaptureMessage;
    CaptureMessage = [this](const CAddress& addr, const std::string& type, std::span<const unsigned char> data, bool is_incoming) {
        if (!is_incoming) OnSent(addr, type, data);
    };
    m_connman->SetCaptureMessages(true);
    m_msgproc_lock = std::make_unique<UniqueLock<Mutex>>(NetEventsInterface::g_msgproc_mutex, "NetEventsInterface::g_msgproc_mutex", __FILE__, __LINE__);
}

NetSim::~NetSim()
{
    auto& node = sim.m_node;
    for (auto& P : m_peers) {
        if (!P.reaped) { node.peerman->FinalizeNode(*P.node); P.reaped = true; }
    }
    m_msgproc_lock.reset();
    if (node.validation_signals) {
        node.validation_signals->FlushBackgroundCallbacks();
        node.validation_signals->UnregisterValidationInterface(node.peerman.get());
    }
    m_connman->SetCaptureMessages(false);
    CaptureMessage = m_capture_orig;
    m_connman->ClearTestNodes(); // deletes the CNode objects (FinalizeNode already done above)
    node.connman.reset();
    node.peerman.reset();
    node.banman.reset();
    node.addrman.reset();
    node.netgroupman.reset();
    SetMockTime(0s);
}

void NetSim::SetTime(int64_t t)
{
    m_now = t;
    SetMockTime(std::chrono::seconds{t});
}

void NetSim::OnSent(const CAddress& addr, const std::string& type, std::span<const unsigned char> data)
{
    auto it = m_by_addr.find(CService(addr));
    int p = it == m_by_addr.end() ? -1 : it->second;
    SentMsg m;
    m.seq = m_log.size();
    m.peer = p;
    m.type = type;
    m.payload.assign(data.begin(), data.end());
    m.time = m_now;
    if (p >= 0 && type == NetMsgType::PING && data.size() == 8 && m_peers[p].spec.auto_pong) {
        uint64_t nonce;
        std::memcpy(&nonce, data.data(), 8); // little endian host
        m_peers[p].pending_pong = nonce;
    }
    m_log.push_back(std::move(m));
}

int NetSim::AddPeer(const PeerSpec& spec)
{
    PeerRec P;
    P.spec = spec;
    unsigned n = m_addr_counter++;
    CAddress addr = MakeAddr(spec.addr, n);
    assert(!m_by_addr.count(CService(addr))); // ::1 can exist only once
    NodeId id = NodeId(m_peers.size());
    P.node = new CNode(id,
                       /*sock=*/nullptr,
                       addr,
                       /*nKeyedNetGroupIn=*/1000 + n,
                       /*nLocalHostNonceIn=*/0x5151000000ULL + n,
                       /*addrBindIn=*/CService{},
                       /*addrNameIn=*/"",
                       spec.conn,
                       /*inbound_onion=*/spec.inbound_onion,
                       /*network_key=*/n,
                       CNodeOptions{.permission_flags = spec.perms});
    m_connman->AddTestNode(*P.node);
    sim.m_node.peerman->InitializeNode(*P.node, spec.our_services);
    int idx = int(m_peers.size());
    m_by_addr[CService(addr)] = idx;
    m_peers.push_back(std::move(P));
    return idx;
}

void NetSim::Inject(PeerRec& P, const std::string& type, const std::vector<uint8_t>& payload)
{
    // frame with an independent V1 transport instance (valid magic, length, checksum), feed the bytes to the node's receive side
    CSerializedNetMsg msg;
    msg.m_type = type;
    msg.data = payload;
    V1Transport t{NodeId{0}};
    bool queued = t.SetMessageToSend(msg);
    assert(queued);
    std::vector<uint8_t> wire;
    while (true) {
        const auto& [bytes, more, mt] = t.GetBytesToSend(/*have_next_message=*/false);
        if (bytes.empty()) break;
        wire.insert(wire.end(), bytes.begin(), bytes.end());
        t.MarkBytesSent(bytes.size());
    }
    bool complete{false};
    bool ok = P.node->ReceiveMsgBytes(wire, complete);
    assert(ok);
    if (complete) P.node->MarkReceivedMsgsForProcessing();
}

void NetSim::Pump(int p)
{
    PeerRec& P = m_peers.at(p);
    if (P.reaped) return;
    CNode& n = *P.node;
    auto& pm = *sim.m_node.peerman;
    for (int i = 0; i < 400; ++i) {
        if (n.fDisconnect) break; // the message handler skips nodes marked for disconnection
        n.fPauseSend = false;
        bool more = m_connman->ProcessMessagesOnce(n);
        if (!n.fDisconnect) pm.SendMessages(n);
        m_connman->FlushSendBuffer(n);
        if (P.pending_pong && P.spec.auto_pong && !n.fDisconnect) {
            uint64_t nonce = *P.pending_pong;
            P.pending_pong.reset();
            CSerializedNetMsg m = NetMsg::Make(NetMsgType::PONG, nonce);
            Inject(P, NetMsgType::PONG, m.data);
            more = true;
        }
        if (!more) break;
    }
}

bool NetSim::ProcessOnce(int p)
{
    PeerRec& P = m_peers.at(p);
    if (P.reaped || P.node->fDisconnect) return false;
    P.node->fPauseSend = false;
    bool more = m_connman->ProcessMessagesOnce(*P.node);
    // answers pushed during message processing sit in the send buffer until the next SendMessagesTo/Pump drops it (they are already recorded)
    return more;
}

void NetSim::SendMessagesTo(int p)
{
    PeerRec& P = m_peers.at(p);
    if (P.reaped || P.node->fDisconnect) return;
    m_connman->FlushSendBuffer(*P.node);
    sim.m_node.peerman->SendMessages(*P.node);
    m_connman->FlushSendBuffer(*P.node);
    if (P.pending_pong && P.spec.auto_pong && !P.node->fDisconnect) {
        uint64_t nonce = *P.pending_pong;
        P.pending_pong.reset();
        CSerializedNetMsg m = NetMsg::Make(NetMsgType::PONG, nonce);
        Inject(P, NetMsgType::PONG, m.data);
    }
}

bool NetSim::SendRaw(int p, const std::string& type, std::vector<uint8_t> payload, bool pump)
{
    PeerRec& P = m_peers.at(p);
    if (P.reaped || P.node->fDisconnect) return false;
    Inject(P, type, payload);
    if (pump) Pump(p);
    return true;
}

void NetSim::TickAll()
{
    for (size_t p = 0; p < m_peers.size(); ++p) Pump(int(p));
}

void NetSim::Reap(int p)
{
    PeerRec& P = m_peers.at(p);
    if (P.reaped) return;
    P.node->fDisconnect = true;
    sim.m_node.peerman->FinalizeNode(*P.node);
    P.reaped = true;
}

void NetSim::SendVersion(int p)
{
    PeerRec& P = m_peers.at(p);
    CNode& n = *P.node;
    // outbound connections: the node speaks first (version), and refuses to process input before it has done so
    if (!n.fDisconnect) sim.m_node.peerman->SendMessages(n);
    m_connman->FlushSendBuffer(n);
    CSerializedNetMsg v = NetMsg::Make(NetMsgType::VERSION,
                                       P.spec.version,
                                       Using<CustomUintFormatter<8>>(P.spec.their_services),
                                       int64_t{m_now},            // the peer's clock agrees with ours
                                       int64_t{},                 // addr_recv services (ignored)
                                       CNetAddr::V1(CService{}),  // addr_recv: not routable => no SeenLocal
                                       int64_t{},                 // addr_from services (ignored)
                                       CNetAddr::V1(CService{}),  // addr_from (ignored)
                                       uint64_t{0x7e57000000ULL + uint64_t(p)}, // nonce, differs from every nLocalHostNonce
                                       std::string{"/verif-netsim:1/"},
                                       int32_t{0},                // starting height
                                       P.spec.relay_txs);
    P.version_sent = true;
    SendRaw(p, NetMsgType::VERSION, std::move(v.data));
}

bool NetSim::Handshake(int p)
{
    PeerRec& P = m_peers.at(p);
    CNode& n = *P.node;
    SendVersion(p);
    if (n.fDisconnect) return false;
    if (P.spec.wtxidrelay) SendRaw(p, NetMsgType::WTXIDRELAY, {});
    if (P.spec.sendaddrv2) SendRaw(p, NetMsgType::SENDADDRV2, {});
    SendRaw(p, NetMsgType::VERACK, {});
    if (n.fDisconnect || !n.fSuccessfullyConnected) return false;
    if (P.spec.sendcmpct) Send(p, NetMsgType::SENDCMPCT, uint8_t(P.spec.sendcmpct_hb ? 1 : 0), uint64_t{2});
    if (P.spec.sendheaders) SendRaw(p, NetMsgType::SENDHEADERS, {});
    return n.fSuccessfullyConnected && !n.fDisconnect;
}

std::vector<const SentMsg*> NetSim::SentSince(size_t mark, int p, const std::string& type) const
{
    std::vector<const SentMsg*> out;
    for (size_t i = mark; i < m_log.size(); ++i) {
        const SentMsg& m = m_log[i];
        if (p >= 0 && m.peer != p) continue;
        if (!type.empty() && m.type != type) continue;
        out.push_back(&m);
    }
    return out;
}

std::vector<CInv> NetSim::DecodeInvs(const SentMsg& m)
{
    std::vector<CInv> v;
    SpanReader{m.payload} >> v;
    return v;
}

CTransactionRef NetSim::DecodeTx(const SentMsg& m)
{
    CTransactionRef tx;
    SpanReader{m.payload} >> TX_WITH_WITNESS(tx);
    return tx;
}

std::vector<CBlockHeader> NetSim::DecodeHeaders(const SentMsg& m)
{
    std::vector<CBlockHeader> out;
    SpanReader r{m.payload};
    uint64_t n = ReadCompactSize(r);
    for (uint64_t i = 0; i < n; ++i) {
        CBlockHeader h;
        r >> h;
        ReadCompactSize(r);
        out.push_back(h);
    }
    return out;
}

} // namespace verif
