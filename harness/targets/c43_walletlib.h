// Shared helpers of the wallet persistence / crash targets (C42, C43, C62). Header-only: every property is its own binary
// (harness/targets/cNN_*.cpp -> vh_cNN), this file is included by each of them and is not a kit.
//
//   Env / Mark            : environment access, unbuffered "MARK ..." lines (write(1)) that the E3 recorder (crashlib.parse_trace)
//                           interleaves in order with the file operations; marks are only written when VH_W_MARKS=1
//   DescModel             : independent index of wallet scripts: descriptor id -> own expansion (Descriptor::Expand from the
//                           descriptor STRING; never DescriptorScriptPubKeyMan's script map / next_index)
//   ImportDescriptor      : importdescriptors-equivalent (AddWalletDescriptor [+ AddActiveScriptPubKeyMan])
//   LoadImage             : open a copy of a wallet directory (crash image) in a fresh node through CWallet::LoadExisting
//   CopyDir               : recursive directory copy
#ifndef VERIF_TARGETS_C43_WALLETLIB_H
#define VERIF_TARGETS_C43_WALLETLIB_H

#include <kits/walletsim.h>

#include <addresstype.h>
#include <key_io.h>
#include <script/descriptor.h>
#include <script/signingprovider.h>
#include <util/fs.h>
#include <util/strencodings.h>
#include <wallet/scriptpubkeyman.h>
#include <wallet/wallet.h>
#include <wallet/walletutil.h>

#include <unistd.h>

#include <cstdlib>
#include <filesystem>
#include <map>
#include <memory>
#include <optional>
#include <set>
#include <string>
#include <vector>

namespace wl {

using verif::ChainSim;
using verif::WalletSim;
using verif::WalletSimOpts;

inline std::string Env(const char* k) { const char* v = getenv(k); return v ? v : ""; }
inline bool MarksOn() { static const bool on = Env("VH_W_MARKS") == "1"; return on; }
/** One unbuffered line on fd 1; strace records it in order with the file operations of this thread. */
inline void Mark(const std::string& line)
{
    if (!MarksOn()) return;
    std::string l = "MARK " + line + "\n";
    ssize_t r = ::write(1, l.data(), l.size());
    (void)r;
}

inline void CopyDir(const fs::path& from, const fs::path& to)
{
    std::filesystem::create_directories(to);
    std::filesystem::copy(from, to, std::filesystem::copy_options::recursive | std::filesystem::copy_options::overwrite_existing);
}

inline const OutputType ALL_TYPES[4] = {OutputType::LEGACY, OutputType::P2SH_SEGWIT, OutputType::BECH32, OutputType::BECH32M};
inline const char* TypeName(OutputType t)
{
    switch (t) {
    case OutputType::LEGACY: return "pkh";
    case OutputType::P2SH_SEGWIT: return "sh-wpkh";
    case OutputType::BECH32: return "wpkh";
    case OutputType::BECH32M: return "tr";
    default: return "?";
    }
}

/** Own expansion of a descriptor string for indices [0, range): scripts (empty vector entry = not expandable without private keys). */
struct Expansion {
    uint256 id;                   //!< DescriptorID of the parsed descriptor (what the wallet uses as ScriptPubKeyMan id)
    bool ranged{false};
    std::vector<CScript> scripts; //!< by index; stops at the first index that cannot be expanded with the given string's keys
};

inline Expansion ExpandString(const std::string& desc_str, int range)
{
    Expansion e;
    FlatSigningProvider keys;
    std::string error;
    auto parsed = Parse(desc_str, keys, error, /*require_checksum=*/false);
    if (parsed.size() == 1) {
        e.id = DescriptorID(*parsed[0]);
        e.ranged = parsed[0]->IsRange();
        for (int i = 0; i < range; ++i) {
            std::vector<CScript> scripts;
            FlatSigningProvider out;
            if (!parsed[0]->Expand(i, keys, scripts, out) || scripts.size() != 1) break;
            e.scripts.push_back(scripts[0]);
            if (!e.ranged) break;
        }
    }
    return e;
}

/** Expansions of strings that repeat in every case (the fixed harness descriptors) are computed once per process. */
inline std::shared_ptr<const Expansion> ExpandCached(const std::string& desc_str, int range, bool persistent)
{
    static std::map<std::pair<std::string, int>, std::shared_ptr<const Expansion>> cache;
    auto key = std::make_pair(desc_str, range);
    auto it = cache.find(key);
    if (it != cache.end()) return it->second;
    auto e = std::make_shared<const Expansion>(ExpandString(desc_str, range));
    if (persistent && cache.size() < 64) cache.emplace(key, e);
    return e;
}

/** script -> (descriptor id, index) over every descriptor the harness has seen in the wallet. */
struct DescModel {
    int range{96};
    std::map<uint256, std::shared_ptr<const Expansion>> by_id;
    std::map<CScript, std::pair<uint256, int>> by_script;

    uint256 AddString(const std::string& desc_str, bool persistent = false)
    {
        auto e = ExpandCached(desc_str, range, persistent);
        if (e->id.IsNull() || by_id.count(e->id)) return e->id;
        by_id[e->id] = e;
        for (size_t i = 0; i < e->scripts.size(); ++i) by_script.emplace(e->scripts[i], std::make_pair(e->id, int(i)));
        return e->id;
    }
    /** Learn the descriptors the wallet holds now (public strings; harness-imported ones were added with their private string before). */
    void Refresh(wallet::CWallet& w)
    {
        std::vector<std::string> strs;
        {
            LOCK(w.cs_wallet);
            for (auto* spkm : w.GetAllScriptPubKeyMans()) {
                auto* d = dynamic_cast<wallet::DescriptorScriptPubKeyMan*>(spkm);
                if (!d || by_id.count(d->GetID())) continue;
                std::string s;
                if (d->GetDescriptorString(s, /*priv=*/false)) strs.push_back(s);
            }
        }
        for (auto& s : strs) AddString(s);
    }
    std::optional<std::pair<uint256, int>> Lookup(const CScript& spk) const
    {
        auto it = by_script.find(spk);
        if (it == by_script.end()) return std::nullopt;
        return it->second;
    }
    const CScript* ScriptAt(const uint256& id, int index) const
    {
        auto it = by_id.find(id);
        if (it == by_id.end() || index < 0 || size_t(index) >= it->second->scripts.size()) return nullptr;
        return &it->second->scripts[index];
    }
};

/** importdescriptors-equivalent. Returns the id of the ScriptPubKeyMan, or nullopt (+ error). Throws what the wallet throws. */
inline std::optional<uint256> ImportDescriptor(wallet::CWallet& w, const std::string& desc_str, bool active, bool internal, int range_end,
                                               const std::string& label, std::string* error_out = nullptr)
{
    FlatSigningProvider keys;
    std::string error;
    auto parsed = Parse(desc_str, keys, error, /*require_checksum=*/false);
    if (parsed.size() != 1) { if (error_out) *error_out = error; return std::nullopt; }
    const auto type = parsed[0]->GetOutputType();
    const bool ranged = parsed[0]->IsRange();
    wallet::WalletDescriptor wd{std::move(parsed[0]), /*creation_time=*/1, /*range_start=*/0, /*range_end=*/ranged ? range_end : 1, /*next_index=*/0};
    LOCK(w.cs_wallet);
    auto r = w.AddWalletDescriptor(wd, keys, label, internal);
    if (!r) { if (error_out) *error_out = util::ErrorString(r).original; return std::nullopt; }
    const uint256 id = r->get().GetID();
    if (active && type && ranged) w.AddActiveScriptPubKeyMan(id, *type, internal);
    return id;
}

/** Open the wallet directory `image_dir` in `sim` (fresh node) as wallet "w". The returned WalletSim has w == nullptr if loading failed. */
inline std::unique_ptr<WalletSim> LoadImage(ChainSim& sim, const std::string& image_dir, int keypool, bool* ok, std::string* error)
{
    WalletSimOpts wo;
    wo.name = "w";
    wo.on_disk = false; // placeholder wallet on the mockable database; replaced by the image below
    wo.rescan = false;
    wo.keypool = 1;
    auto ws = std::make_unique<WalletSim>(sim, wo);
    ws->Unload();
    CopyDir(fs::PathFromString(image_dir), ws->DbDir());
    ws->opts.on_disk = true;
    ws->opts.unsafe_sync = true; // the recovery process itself is never crashed; hot journals are rolled back regardless of the sync mode
    ws->opts.keypool = keypool;
    *ok = ws->Reload(error);
    return ws;
}

} // namespace wl

#endif // VERIF_TARGETS_C43_WALLETLIB_H
