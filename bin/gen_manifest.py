#!/usr/bin/env python3
"""Regenerate MANIFEST.json from bin/props.py + bin/manifest_meta.py (single source of truth for claimed checks)."""
import json, os, sys
V = os.path.dirname(os.path.dirname(os.path.abspath(__file__)))
sys.path.insert(0, os.path.join(V, "bin"))
import props, manifest_meta as mm
ids = [json.loads(l)["id"] for l in open(os.path.join(V, "properties.jsonl"))]
checks = []
for pid in ids:
    if pid not in props.PROPS:
        continue
    sp = props.PROPS[pid]
    meta = props.META.get(pid, {})
    checks.append({
        "property_id": pid,
        "quick_cmd": f"./check {pid} quick",
        "thorough_cmd": f"./check {pid} thorough",
        "evidence_file": f"evidence/{pid}.json",
        "replay_cmd_template": f"./check {pid} --replay {{path}}",
        "engine": meta.get("engine", "E1 choice-sequence driver"),
        "level_claimed": {"category": sp.get("level", "exploration"), "text": meta.get("level_text", ""), "design_ref": f"DESIGN.md §5 {pid}"},
        "level_note": meta.get("level_note", "; ".join(sp.get("assumptions", []))),
        "technique": meta.get("technique", "property-based testing: generated inputs vs reference model"),
    })
na = [{"property_id": pid, "reason": mm.NOT_APPLICABLE.get(pid, "designed in DESIGN.md §5 but the generated check is not built yet; not claimed rather than claimed with a hollow check")}
      for pid in ids if pid not in props.PROPS]
man = {
    "version": 1,
    "setup_cmd": "bin/setup.sh",
    "hooks": mm.HOOKS,
    "engines": mm.ENGINES,
    "checks": checks,
    "notes": mm.NOTES,
    "not_applicable": na,
}
json.dump(man, open(os.path.join(V, "MANIFEST.json"), "w"), indent=1)
print(f"MANIFEST.json: {len(checks)} checks, {len(na)} not_applicable")
