// C02 — An output can be spent at most once and only if it exists.
// Oracle: (a) double-spend catalogue: a block that spends a duplicate / already spent / other-fork / never created / OP_RETURN /
// later-in-block output, or re-creates a still unspent output (BIP30), is rejected, tip and coin existence (CoinsTip().HaveCoin over every
// outpoint the model has ever seen, both ways; hash_serialized on a sample) unchanged, valid twin accepted; (b) RefLedger replay of the
// active chain never needs a missing/spent coin and never overwrites an unspent one; node coins DB == model UTXO at check points.
#include <engine/verif.h>
#include <kits/chainsim.h>
#include <kits/consensus_ref.h>

#include <test/util/script.h>

using namespace verif;
using namespace verif::cref;

namespace {

struct Plan {
    BlockSpec spec;
    std::vector<TxGen::Made> made;
    CAmount fees{0};
    int height{0};
    RefUtxo after; //!< model UTXO after the planned txs (without the coinbase)
};

Plan plan_block(ChainSim& sim, ReplayCache& rc, TxGen& tg, Src& s, const uint256& parent, unsigned min_tx, unsigned max_tx, uint32_t nonce)
{
    Plan p;
    const RefReplay& pr = rc.Get(parent);
    assert(pr.ok);
    p.height = sim.ledger.At(parent).height + 1;
    RefUtxo u = pr.utxo;
    unsigned ntx = s.range<unsigned>(min_tx, std::max(min_tx, max_tx));
    for (unsigned t = 0; t < ntx; ++t) {
        auto m = tg.Make(s, u, p.height, s.pick<int>({0, 1, 1, 3}));
        if (!m) break;
        p.fees += m->fee();
        p.made.push_back(*m);
        p.spec.txs.push_back(m->tx);
    }
    p.spec.prev = parent;
    p.spec.fees = p.fees;
    p.spec.extra_nonce = nonce;
    p.after = std::move(u);
    return p;
}

/** spend of arbitrary (possibly non-existent / unspendable) outpoints mixed with real coins; signing is best effort (the block is expected
 *  to be rejected before any script runs) */
CTransactionRef lenient_tx(ChainSim& sim, const std::vector<std::pair<COutPoint, RefCoin>>& ins, const std::vector<CTxOut>& outs, const TxGen& tg)
{
    CMutableTransaction tx;
    tx.version = 2;
    std::map<COutPoint, RefCoin> spent;
    for (auto& [op, c] : ins) {
        tx.vin.emplace_back(op, CScript(), 0xffffffff);
        if (tg.Spendable(c.spk)) spent[op] = c;
    }
    tx.vout = outs;
    (void)sim.keys.Sign(tx, spent);
    return MakeTransactionRef(tx);
}

} // namespace

VERIF_TARGET(c02_spend, nullptr, 48, 1000,
             "histories (<=22 ops) on a regtest node over a 104-block base (half of them with BIP34 switched off so identical coinbases can be re-mined): valid "
             "blocks with 1-4 txs incl. spend-earlier-in-block chains; the double-spend catalogue on the tip, each followed by its valid twin: duplicate input at "
             "indices i!=j (with and without inflated outputs), two txs spending one outpoint, spend of an outpoint spent in an ancestor block / existing on "
             "another fork only / never created (random txid, index past the end) / created by an OP_RETURN output / created LATER in the same block, bad input "
             "at any index next to good inputs; BIP30: a block whose coinbase re-creates a still unspent coinbase (reject) or a fully spent one (accept); "
             "interleaved with overtaking reorgs, forced flushes (wipe/keep) and a tiny coins cache. non-trivial = a double-spend shape delivered after >=1 "
             "flush and >=1 reorg; distinct = op kinds + fault kinds + positions + reorg depths")
{
    ChainSimOpts o;
    const bool bip34_off = s.boolean();
    if (bip34_off) o.extra_args.push_back("-testactivationheight=bip34@1000000");
    if (s.chance(100)) o.coins_cache_bytes = size_t(s.pick<size_t>({4096, 65536}));
    ChainSim sim(o);
    TxGen tg(sim);
    ReplayCache rc(sim.ledger);
    auto base = sim.LoadBase(104);
    const int base_h = 104;

    // everything the model has ever seen created by a VALID registered block (any branch)
    std::map<COutPoint, RefCoin> all_coins;
    std::map<COutPoint, std::set<uint256>> created_in; // outpoint -> blocks that create it
    std::vector<std::pair<COutPoint, CTxOut>> opret;   // unspendable outputs (never in the UTXO set)
    std::vector<COutPoint> phantom;                    // never created
    auto record_block = [&](const CBlock& b, int height) {
        for (size_t ti = 0; ti < b.vtx.size(); ++ti) {
            const CTransaction& tx = *b.vtx[ti];
            for (uint32_t k = 0; k < tx.vout.size(); ++k) {
                COutPoint op(tx.GetHash(), k);
                const CScript& spk = tx.vout[k].scriptPubKey;
                if (spk.size() > 0 && spk[0] == 0x6a) { if (opret.size() < 64 && (ti > 0 || height <= 3)) opret.emplace_back(op, tx.vout[k]); continue; }
                all_coins[op] = RefCoin{tx.vout[k].nValue, spk, height, ti == 0};
                created_in[op].insert(b.GetHash());
            }
        }
    };
    for (auto& h : base) record_block(*sim.block_store.at(h), sim.ledger.At(h).height);

    int n_flush = 0, n_reorg = 0, n_faults = 0, n_faults_deep = 0, maxdepth = 0;

    auto sweep = [&](const char* where) {
        // coin existence, both ways, through the cache layers (no flush forced)
        const uint256 tip = sim.TipHash();
        const RefReplay& r = rc.Get(tip);
        st.steps++;
        VCHECK(r.ok, "c02.active-chain-violates-model", where, "model rule", r.why, "at block", r.bad_block.ToString());
        for (auto& [op, c] : all_coins) {
            bool node = NodeHaveCoin(sim, op), model = r.utxo.count(op) > 0;
            VCHECK(node == model, "c02.havecoin-vs-model", where, op.ToString(), "node HaveCoin", node, "model", model, "tip", tip.ToString());
        }
        for (auto& [op, out] : opret) VCHECK(!NodeHaveCoin(sim, op), "c02.havecoin-vs-model", where, "unspendable output is in the UTXO set", op.ToString());
        for (auto& op : phantom) VCHECK(!NodeHaveCoin(sim, op), "c02.havecoin-vs-model", where, "never created output is in the UTXO set", op.ToString());
    };
    auto full_check = [&](const char* where) {
        std::string diff = sim.CompareUtxoWithModel();
        st.steps++;
        VCHECK(diff.empty(), "c02.utxo-vs-model", where, diff, "tip", sim.TipHash().ToString());
    };
    auto note_reorg = [&](const uint256& old_tip, const uint256& new_tip) {
        if (new_tip == old_tip || sim.ledger.IsAncestor(old_tip, new_tip)) return;
        uint256 a = old_tip;
        int depth = 0;
        while (!sim.ledger.IsAncestor(a, new_tip)) { a = sim.ledger.At(a).prev; depth++; }
        n_reorg++;
        maxdepth = std::max(maxdepth, depth);
        st.mix(uint64_t(100 + depth));
        st.cls("reorg");
        st.note("reorg depth=", depth);
    };
    auto deliver_valid = [&](const std::shared_ptr<CBlock>& blk, bool expect_tip, const char* what) {
        uint256 old_tip = sim.TipHash();
        auto d = sim.Deliver(blk);
        st.steps++;
        VCHECK(d.processed, "c02.valid-block-rejected", what, "model-valid block not processed:", d.verdict ? StateStr(*d.verdict) : "no verdict", blk->GetHash().ToString());
        if (d.verdict) VCHECK(d.verdict->IsValid(), "c02.valid-block-rejected", what, "model-valid block judged invalid:", StateStr(*d.verdict));
        if (expect_tip) VCHECK(sim.TipHash() == blk->GetHash(), "c02.valid-block-rejected", what, "model-valid block with most work did not become tip");
        record_block(*blk, sim.ledger.At(blk->GetHash()).height);
        note_reorg(old_tip, sim.TipHash());
    };

    const unsigned nops = s.range<unsigned>(3, 22);
    for (unsigned op = 0; op < nops && !s.exhausted(); ++op) {
        const unsigned kind = s.range<unsigned>(0, 15);
        const uint256 tip = sim.TipHash();
        const int th = sim.ledger.At(tip).height;
        if (kind <= 2) {
            // ---------------- valid block on the tip
            Plan p = plan_block(sim, rc, tg, s, tip, 1, 4, op);
            auto blk = sim.Build(p.spec);
            deliver_valid(blk, true, "valid");
            st.mix(uint64_t(1)); st.mix(uint64_t(p.made.size()));
            st.cls("valid-block");
            for (auto& m : p.made) { if (m.spends_same_block) st.cls("spend-earlier-in-block"); if (m.spends_coinbase) st.cls("coinbase-spent"); }
            st.note("valid h=", p.height, " ntx=", p.made.size());
        } else if (kind <= 10) {
            // ---------------- catalogue fault on the tip + valid twin
            unsigned fk = s.range<unsigned>(0, 9);
            if (fk >= 8 && !bip34_off) fk = s.range<unsigned>(0, 7);
            Plan p = plan_block(sim, rc, tg, s, tip, 1, 3, op);
            if (p.made.empty()) { st.cls("fault-skipped"); continue; }
            const RefUtxo& U = rc.Get(tip).utxo;
            std::shared_ptr<CBlock> twin;
            CBlock bad;
            std::string want, label;
            bool twin_is_positive_case = false;
            const size_t pos = s.index(p.made.size()); // which tx of the block carries the fault
            auto base_block = [&]() { twin = sim.Build(p.spec); bad = CloneBlock(*twin); };
            // a bad coin next to the good inputs of tx `pos`, at a random input index
            auto splice_bad_input = [&](const COutPoint& bop, const RefCoin& bc) {
                base_block();
                auto ins = p.made[pos].ins;
                size_t at = s.index(ins.size() + 1);
                ins.insert(ins.begin() + at, {bop, bc});
                bad.vtx[1 + pos] = lenient_tx(sim, ins, p.made[pos].outs, tg);
                st.mix(uint64_t(at)); st.mix(uint64_t(ins.size()));
                return at;
            };
            switch (fk) {
            case 0: { // duplicate input inside one tx
                base_block();
                TxGen::Made m = p.made[pos];
                size_t i = s.index(m.ins.size());
                size_t j = s.index(m.ins.size() + 1);
                bool inflate = s.boolean();
                auto dup = m.ins[i];
                m.ins.insert(m.ins.begin() + j, dup);
                std::vector<CTxOut> outs = m.outs;
                if (inflate) outs[0].nValue += dup.second.value; // CVE-2018-17144 inflation shape: the coin's value is used twice
                bad.vtx[1 + pos] = tg.Remake(m, outs);
                want = "bad-txns-inputs-duplicate"; label = inflate ? "dup-input-inflating" : "dup-input";
                st.mix(uint64_t(i)); st.mix(uint64_t(j));
                break;
            }
            case 1: { // a second tx in the block spends an outpoint already spent by tx `pos`
                base_block();
                TxGen::Made m2;
                m2.ins = {p.made[pos].ins[s.index(p.made[pos].ins.size())]};
                std::vector<CTxOut> outs{CTxOut(m2.ins[0].second.value, sim.keys.Script(SpkType::ANYONE_P2WSH))};
                // nSequence 0xfffffffe (still final: nLockTime 0, BIP68 disable bit set) keeps this tx different from every generated one:
                // an identical twin would be a duplicated transaction (merkle-mutation class), not a double spend
                CTransactionRef conflict = tg.Remake(m2, outs, 0, 0xfffffffe);
                size_t at = 2 + pos + s.index(bad.vtx.size() - 1 - pos); // somewhere after tx `pos`
                bad.vtx.insert(bad.vtx.begin() + std::min(at, bad.vtx.size()), conflict);
                want = "bad-txns-inputs-missingorspent"; label = "two-txs-one-outpoint";
                break;
            }
            case 2: case 3: { // spent in an ancestor block (2) / exists on another fork only (3)
                std::vector<COutPoint> cand;
                for (auto& [cop, c] : all_coins) {
                    if (U.count(cop) || !tg.Spendable(c.spk)) continue;
                    bool on_active = false;
                    for (auto& bh : created_in[cop]) if (sim.ledger.IsAncestor(bh, tip)) on_active = true;
                    if ((fk == 2) == on_active) cand.push_back(cop);
                }
                if (cand.empty()) break;
                COutPoint bop = cand[cand.size() - 1 - s.index(cand.size())];
                splice_bad_input(bop, all_coins[bop]);
                want = "bad-txns-inputs-missingorspent"; label = fk == 2 ? "spent-in-ancestor" : "other-fork-only";
                break;
            }
            case 4: { // never created
                COutPoint bop;
                if (s.boolean() && !all_coins.empty()) {
                    // an existing transaction, output index one past its end
                    auto it = all_coins.begin();
                    std::advance(it, s.index(all_coins.size()));
                    uint32_t n = it->first.n;
                    while (all_coins.count(COutPoint(it->first.hash, n)) || std::any_of(opret.begin(), opret.end(), [&](auto& x) { return x.first == COutPoint(it->first.hash, n); })) ++n;
                    bop = COutPoint(it->first.hash, n);
                } else {
                    bop = COutPoint(Txid::FromUint256(uint256(uint8_t(0xd0 + op))), uint32_t(s.index(3)));
                }
                phantom.push_back(bop);
                splice_bad_input(bop, RefCoin{1000, sim.keys.Script(SpkType::ANYONE_P2WSH), 1, false});
                want = "bad-txns-inputs-missingorspent"; label = "never-created";
                break;
            }
            case 5: { // created by an OP_RETURN output
                if (opret.empty()) break;
                auto& [bop, out] = opret[s.index(opret.size())];
                splice_bad_input(bop, RefCoin{out.nValue, out.scriptPubKey, 1, false});
                want = "bad-txns-inputs-missingorspent"; label = "op-return-output";
                break;
            }
            case 6: case 7: { // created LATER in the same block; the valid twin has parent before child (spend-earlier-in-block)
                // parent = last planned tx's last output (never an OP_RETURN in fee modes 0/1/3); child spends it
                const TxGen::Made& par = p.made.back();
                uint32_t n = uint32_t(par.outs.size() - 1);
                if (!tg.Spendable(par.outs[n].scriptPubKey)) break;
                TxGen::Made ch;
                ch.ins = {{COutPoint(par.tx->GetHash(), n), RefCoin{par.outs[n].nValue, par.outs[n].scriptPubKey, p.height, false}}};
                std::vector<CTxOut> outs{CTxOut(par.outs[n].nValue, tg.RandomOutScript(s, false))};
                CTransactionRef child = tg.Remake(ch, outs);
                p.spec.txs.push_back(child);
                base_block();
                // move the child in front of its parent (anywhere before it)
                size_t parent_at = bad.vtx.size() - 2;
                size_t to = 1 + s.index(parent_at);
                bad.vtx.pop_back();
                bad.vtx.insert(bad.vtx.begin() + std::min(to, parent_at), child);
                want = "bad-txns-inputs-missingorspent"; label = "created-later-in-block";
                twin_is_positive_case = true;
                break;
            }
            default: { // BIP30: coinbase identical to an earlier coinbase on the active chain (BIP34 is off in this case)
                // candidates: base blocks on the active chain; unspent first instance => reject, fully spent => must be accepted
                const bool want_spent = fk == 9;
                std::vector<uint256> cand;
                for (int h = 1; h <= base_h; ++h) {
                    uint256 bh = base[h - 1];
                    const CTransaction& cb = *sim.block_store.at(bh)->vtx[0];
                    bool unspent = U.count(COutPoint(cb.GetHash(), 0)) > 0;
                    if (unspent != want_spent) cand.push_back(bh);
                }
                if (cand.empty()) break;
                uint256 src = cand[s.index(cand.size())];
                BlockSpec es;
                es.prev = tip;
                es.extra_nonce = op;
                twin = sim.Build(es); // ordinary empty block (valid twin of the rejected variant)
                bad = CloneBlock(*twin);
                bad.vtx[0] = sim.block_store.at(src)->vtx[0];
                sim.Finalize(bad, /*commit_witness=*/false); // the copied coinbase already carries the commitment of a coinbase-only block
                if (!want_spent) { want = "bad-txns-BIP30"; label = "bip30-recreate-unspent-coinbase"; }
                else {
                    // positive case: the re-created output was fully spent before => allowed
                    auto pb = std::make_shared<CBlock>(bad);
                    sim.Register(pb);
                    if (!sim.ledger.Replay(pb->GetHash()).ok) { st.cls("fault-degenerate"); continue; }
                    deliver_valid(pb, true, "bip30-respend-allowed");
                    st.mix(uint64_t(9));
                    st.cls("bip30-recreate-spent-coinbase-accepted");
                    st.note("BIP30 positive: coinbase of h=", sim.ledger.At(src).height, " re-mined at h=", th + 1, " after it was spent -> accepted");
                    sweep("after-bip30-positive");
                    continue;
                }
                break;
            }
            }
            if (want.empty()) { st.cls("fault-skipped"); continue; }
            if (fk <= 7) sim.Finalize(bad);
            {
                // the model decides: the constructed block must violate exactly the intended spend rule (e.g. a deterministic re-mined tx could
                // make an "other fork" output exist after all); otherwise the case is dropped, never asserted
                sim.Register(std::make_shared<const CBlock>(bad));
                RefReplay mr = sim.ledger.Replay(bad.GetHash());
                std::string model_want = mr.ok ? "" : mr.why == "duplicate-input" ? "bad-txns-inputs-duplicate" : mr.why == "missing-or-spent-input" ? "bad-txns-inputs-missingorspent" :
                                         mr.why == "bip30-overwrite" ? "bad-txns-BIP30" : "?" + mr.why;
                if (model_want != want) { st.cls("fault-degenerate"); st.note("degenerate fault ", label, " model says ", mr.ok ? "valid" : mr.why); continue; }
            }
            if (s.chance(100)) {
                BlockValidationState tv = sim.TestValidity(bad);
                st.steps++;
                VCHECK(!tv.IsValid(), "c02.fault-accepted", label, "TestBlockValidity accepts the block");
                VCHECK(tv.GetRejectReason() == want, "c02.reject-reason", label, "TestBlockValidity: expected", want, "got", tv.GetRejectReason());
            }
            const bool with_hash = s.chance(80);
            FaultOutcome fo = DeliverFault(sim, bad, true, /*finalize=*/false, with_hash);
            st.steps++;
            VCHECK(fo.rejected, "c02.fault-accepted", label, "block was not rejected; verdict:", fo.have_verdict ? (fo.reason.empty() ? "valid" : fo.reason) : "none", "hash", fo.hash.ToString());
            VCHECK(fo.tip_before == fo.tip_after, "c02.fault-moved-tip", label, "tip changed by a rejected block");
            if (with_hash) VCHECK(fo.utxo_before == fo.utxo_after, "c02.fault-changed-utxo", label, "hash_serialized changed by a rejected block");
            VCHECK(fo.reason == want, "c02.reject-reason", label, "expected", want, "got", fo.reason, fo.debug);
            sweep("after-fault"); // coin existence unchanged (model of the unchanged tip)
            n_faults++;
            if (n_flush >= 1 && n_reorg >= 1) n_faults_deep++;
            deliver_valid(twin, true, "twin");
            st.mix(uint64_t(2)); st.mix(uint64_t(fk)); st.mix(uint64_t(pos));
            st.cls("fault:" + label);
            if (twin_is_positive_case) st.cls("spend-earlier-in-block");
            st.note("fault ", label, " h=", th + 1, " tx#", pos, "/", p.made.size(), " -> ", fo.reason, "; twin accepted");
        } else if (kind <= 12) {
            // ---------------- overtaking side branch from 1..3 blocks back (valid reorg; leaves other-fork-only coins behind)
            int back = s.range<int>(1, 3);
            int fork_h = std::max(base_h, th - back);
            uint256 parent = sim.ledger.AncestorAt(tip, fork_h);
            int len = th - fork_h + 1;
            for (int i = 0; i < len; ++i) {
                Plan p = plan_block(sim, rc, tg, s, parent, 0, 2, op * 16 + i + 1);
                auto blk = sim.Build(p.spec);
                deliver_valid(blk, i + 1 == len, "branch");
                parent = blk->GetHash();
            }
            st.mix(uint64_t(3)); st.mix(uint64_t(len));
            st.cls("overtake");
            st.note("overtake from h=", fork_h, " len=", len);
        } else if (kind <= 14) {
            bool wipe = s.boolean();
            { LOCK(cs_main); sim.chainstate().ForceFlushStateToDisk(wipe); }
            n_flush++;
            st.mix(uint64_t(4)); st.mix(uint64_t(wipe));
            st.cls("flush");
            st.note("flush wipe=", wipe);
        } else {
            full_check("mid");
            n_flush++; // the dump flushes (cache kept)
            st.mix(uint64_t(5));
            st.note("full check");
        }
        sweep("after-op");
    }
    sweep("end");
    full_check("end");
    st.nontrivial = n_faults_deep >= 1;
    if (n_faults) st.cls("has-rejected-fault");
    if (n_faults_deep) st.cls("fault-after-flush-and-reorg");
    if (bip34_off) st.cls("bip34-off");
    st.mix(uint64_t(n_reorg)); st.mix(uint64_t(maxdepth)); st.mix(uint64_t(bip34_off));
    st.note("bip34_off=", bip34_off, " faults=", n_faults, " (after flush+reorg: ", n_faults_deep, ") reorgs=", n_reorg, " flushes=", n_flush, " tip h=", sim.TipHeight());
}
