# C04: stage list (what ./check C04 quick|thorough runs) and manifest text. Helpers gen()/enum()/hyp()/custom() come from props.py.
SPEC = {
    "level": "exploration",
    "assumptions": [
        "reference merkle tree: node(L,i) = SHA256d(node(L-1,2i) || node(L-1,min(2i+1,w-1))) over the generic CSHA256 primitive; mutated <=> some level has an "
        "equal pair at (2k,2k+1) with both nodes present; no SHA256d collisions among generated leaves",
        "reference IsBlockMutated predicate written from the statement + BIP141 (last matching commitment output wins, 32-byte single-item coinbase witness, "
        "no witness data without commitment); for coinbase-less lists only the 64-byte => mutated direction is asserted",
        "history target: regtest node (ChainSim), segwit always active, genuine blocks valid by construction (RefLedger replay) and extending the tip; "
        "delivery through ProcessNewBlock only (compact-block reconstruction path not exercised here)",
    ],
    "stages": [
        gen("vh_c04", "c04_merkle", 90000, 1500000, max_seconds_quick=600, min_cases_quick=5000,
            floors={"part-A-list": 0.2, "part-B-block": 0.2, "odd-level-above-leaves": 0.15, "list-mutated": 0.05, "repeats-but-not-mutated": 0.05, "dup-tail-variant": 0.1,
                    "same-header-malleation": 0.08, "variant:dup-tail": 0.02, "variant:witness-stripped": 0.01, "variant:witness-byte-changed": 0.005,
                    "variant:coinbase-nonce": 0.01, "variant:witness-added": 0.01, "verdict:64-byte-tx": 0.005, "checkblock-mutated": 0.1, "genuine-clean": 0.2},
            rule="leaf lists 1..300 with repeats + CVE-2012-2459 variants; blocks with witness commitment and one malleation; vs own SHA256d tree and reference mutation predicate"),
        enum("vh_c04", "c04_small", rule="exhaustive n=1..80: all adjacent repeats, aligned subtree repeats, CVE variants, merkle paths of every position"),
        gen("vh_c04", "c04_mutated_delivery", 900, 16000, max_seconds_quick=600, min_cases_quick=100,
            floors={"witness-level-variant": 0.3, "merkle-level-variant": 0.2, "variant:dup-tail": 0.05, "variant:witness-stripped": 0.03, "variant:coinbase-nonce": 0.05,
                    "header-announced-first": 0.1, "variants-redelivered-after": 0.2, "uncommitted-block": 0.05},
            rule="histories: 1-3 malleated variants with the genuine header delivered before the genuine block; verdict BLOCK_MUTATED, genuine hash never marked failed, genuine block accepted as tip"),
        gen("vh_c04", "up_merkle", 40000, 600000, max_seconds_quick=600, rule="upstream fuzz target merkle (asserts + sanitizers), supplementary"),
        # coverage-guided libFuzzer campaign on the same target (thorough tier only; fz tree = g++ trace-pc + covshim)
        fuzz('vh_c04', 'c04_merkle', 300, max_len=420),
    ],
}

META = {
    "level_text": "Generated leaf lists (1..300, with every kind of repeat and all CVE-2012-2459 duplicated-tail variants) and generated blocks with witness commitments "
                  "and one malleation each are compared with an own SHA256d merkle tree and a reference mutation predicate (roots, mutation flag, witness root, merkle "
                  "paths, IsBlockMutated, CheckBlock => BLOCK_MUTATED); all list lengths up to 80 are covered exhaustively for single repeats; and node-level histories "
                  "deliver malleated variants before the genuine block and require the verdict BLOCK_MUTATED, an unblemished block index entry and acceptance of the "
                  "genuine block. Exploration: sampled lists/blocks/histories.",
    "technique": "property-based testing: generators + independent reference model (own merkle tree, mutation predicate); stateful histories on an in-process node with a history invariant",
    "level_note": "Delivery via compact-block reconstruction (blockencodings.cpp) and multi-peer orderings are not exercised; 64-byte coinbase collisions are out of reach by design.",
}
