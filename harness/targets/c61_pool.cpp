// C61 — the pool memory resource behaves like a standard allocator: live allocations never overlap, are aligned, keep their
// contents, freed blocks are reused, and the chunk / free-list accounting is exact.
// Oracle: (1) an interval map of live allocations + per-allocation byte patterns (reference allocator semantics);
// (2) a reference model of the documented algorithm (size classes of ELEM_ALIGN bytes, bump allocation from fixed-size chunks,
// leftover of an exhausted chunk donated to the matching free list) predicting NumAllocatedChunks, the bytes still available in
// the current chunk and the length of every free list; (3) byte-exact recomputation: free-list bytes + available bytes ==
// chunks * chunk size once everything is returned; (4) node containers using PoolAllocator vs the same containers with std::allocator.
#include <engine/verif.h>

#include <memusage.h>
#include <support/allocators/pool.h>
#include <test/util/poolresourcetester.h>

#include <algorithm>
#include <cstdint>
#include <cstring>
#include <list>
#include <map>
#include <set>
#include <unordered_map>
#include <vector>

namespace {

template <size_t MAXB, size_t ALIGN>
struct PoolRun {
    static constexpr size_t ELEM = std::max(alignof(void*), ALIGN); // statement of the header: blocks are multiples of max(pointer alignment, ALIGN)
    static constexpr size_t NCLASS = MAXB / ELEM + 1;
    verif::Src& s;
    verif::Stats& st;

    struct Live { unsigned char* p; size_t bytes, align; uint8_t pat; bool pooled; };
    std::vector<Live> live;
    std::map<uintptr_t, uintptr_t> ranges; // begin -> end of live allocations (at least 1 byte each)

    // reference model of the documented algorithm
    size_t chunk_size{0}, m_chunks{0}, m_avail{0};
    size_t m_free[NCLASS]{};
    std::set<uintptr_t> m_known_free[NCLASS]; // blocks we returned ourselves (leftover donations have unknown addresses)
    size_t m_unknown_free[NCLASS]{};
    unsigned n_reuse{0}, n_newchunk{0}, n_leftover{0}, n_fallback{0}, n_zero{0};

    PoolRun(verif::Src& s_, verif::Stats& st_) : s(s_), st(st_) {}

    static bool eligible(size_t bytes, size_t align) { return align <= ELEM && bytes <= MAXB; }
    static size_t cls(size_t bytes) { return bytes == 0 ? 1 : (bytes + ELEM - 1) / ELEM; }

    void model_new_chunk()
    {
        if (m_avail) { size_t c = m_avail / ELEM; m_free[c]++; m_unknown_free[c]++; n_leftover++; }
        m_chunks++; m_avail = chunk_size; n_newchunk++;
    }

    template <typename R>
    void compare_model(R& res, const char* op)
    {
        st.steps++;
        VCHECK(res.NumAllocatedChunks() == m_chunks, "c61.pool-accounting", "NumAllocatedChunks after", op, "impl", res.NumAllocatedChunks(), "model", m_chunks);
        VCHECK(res.ChunkSizeBytes() == chunk_size, "c61.pool-accounting", "ChunkSizeBytes", res.ChunkSizeBytes(), chunk_size);
        VCHECK(PoolResourceTester::AvailableMemoryFromChunk(res) == m_avail, "c61.pool-accounting", "bytes available in current chunk after", op, "impl",
               PoolResourceTester::AvailableMemoryFromChunk(res), "model", m_avail);
        auto fl = PoolResourceTester::FreeListSizes(res);
        VCHECK(fl.size() == NCLASS, "c61.pool-accounting", "number of free lists", fl.size(), NCLASS);
        for (size_t c = 0; c < NCLASS; ++c) VCHECK(fl[c] == m_free[c], "c61.pool-accounting", "free list length after", op, "class", c, "impl", fl[c], "model", m_free[c]);
    }

    template <typename R>
    void do_alloc(R& res)
    {
        size_t bytes;
        switch (s.range<unsigned>(0, 5)) {
        case 0: bytes = s.range<size_t>(1, 2 * ELEM); break;
        case 1: { size_t k = s.range<size_t>(1, NCLASS); bytes = k * ELEM - s.range<size_t>(0, 1); break; }       // multiples of ELEM and one less
        case 2: bytes = MAXB + s.range<size_t>(0, 2) - 1; break;                                                     // MAXB-1 .. MAXB+1
        case 3: bytes = s.range<size_t>(1, MAXB + 2 * ELEM); break;
        case 4: bytes = s.chance(40) ? 0 : ELEM; break;
        default: bytes = s.range<size_t>(1, MAXB); break;
        }
        size_t align = size_t{1} << (s.chance(200) ? s.range<unsigned>(0, 3) : s.range<unsigned>(0, 6));
        if (!s.chance(24)) bytes = (bytes + align - 1) / align * align; // allocator-style requests: size is a multiple of the alignment (mostly)
        bool elig = eligible(bytes, align);
        size_t c = cls(bytes);
        bool expect_reuse = elig && m_free[c] > 0;
        if (elig) {
            if (m_free[c] > 0) { m_free[c]--; }
            else { if (c * ELEM > m_avail) model_new_chunk(); m_avail -= c * ELEM; }
        } else n_fallback++;
        if (bytes == 0) n_zero++;
        auto* p = static_cast<unsigned char*>(res.Allocate(bytes, align));
        uintptr_t u = reinterpret_cast<uintptr_t>(p);
        st.steps++;
        VCHECK(p != nullptr, "c61.pool-alloc", "null returned", bytes, align);
        VCHECK(u % align == 0, "c61.pool-align", "allocation not aligned as requested: bytes", bytes, "align", align, "addr%align", u % align);
        if (elig) VCHECK(u % ELEM == 0, "c61.pool-align", "pooled block not aligned to the pool alignment", bytes, align, u % ELEM);
        // no overlap with any live allocation
        uintptr_t b = u, e = u + std::max<size_t>(bytes, 1);
        auto it = ranges.upper_bound(b);
        if (it != ranges.end()) VCHECK(it->first >= e, "c61.pool-overlap", "new allocation overlaps a live one (above)", bytes, align);
        if (it != ranges.begin()) { --it; VCHECK(it->second <= b, "c61.pool-overlap", "new allocation overlaps a live one (below)", bytes, align); }
        ranges[b] = e;
        // freed blocks are reused (same size class only), fresh blocks are never blocks we hold as free
        if (elig) {
            bool known = m_known_free[c].count(u) > 0;
            if (expect_reuse) {
                if (known) m_known_free[c].erase(u);
                else { VCHECK(m_unknown_free[c] > 0, "c61.pool-reuse", "free list of the class was non-empty but a different block was returned: class", c); m_unknown_free[c]--; }
                n_reuse++;
            } else {
                VCHECK(!known, "c61.pool-reuse", "block returned although the model's free list of its class is empty", c);
            }
            for (size_t k = 0; k < NCLASS; ++k) if (k != c) VCHECK(m_known_free[k].count(u) == 0, "c61.pool-reuse", "block of another size class handed out: class", c, "from", k);
        }
        uint8_t pat = uint8_t(1 + (live.size() * 29 + bytes) % 251);
        if (bytes) std::memset(p, pat, bytes);
        live.push_back({p, bytes, align, pat, elig});
        st.note("A(", bytes, ",", align, ")", (elig ? (expect_reuse ? "reuse" : "carve") : "fallback"));
        st.mix(uint64_t(elig ? c : 0xff)); st.mix(uint64_t(expect_reuse));
        compare_model(res, "Allocate");
    }

    void check_pattern(const Live& l)
    {
        st.steps++;
        for (size_t k = 0; k < l.bytes; ++k) VCHECK(l.p[k] == l.pat, "c61.pool-content", "allocation content changed: bytes", l.bytes, "offset", k);
    }

    template <typename R>
    void do_free(R& res, size_t idx)
    {
        Live l = live[idx];
        live[idx] = live.back(); live.pop_back();
        check_pattern(l);
        ranges.erase(reinterpret_cast<uintptr_t>(l.p));
        res.Deallocate(l.p, l.bytes, l.align);
        if (l.pooled) { size_t c = cls(l.bytes); m_free[c]++; m_known_free[c].insert(reinterpret_cast<uintptr_t>(l.p)); }
        st.note("D(", l.bytes, ",", l.align, ")");
        st.mix(uint64_t(0x100 + (l.pooled ? cls(l.bytes) : 0xff)));
        compare_model(res, "Deallocate");
    }

    void run()
    {
        // chunk sizes near the minimum so that chunk boundaries and leftovers are frequent
        size_t req;
        switch (s.range<unsigned>(0, 3)) {
        case 0: req = MAXB; break;
        case 1: req = MAXB + s.range<size_t>(0, 3 * ELEM); break;
        case 2: req = 2 * MAXB + s.range<size_t>(0, 2 * ELEM) + 1; break;
        default: req = s.range<size_t>(MAXB, MAXB * 8 + 64); break;
        }
        chunk_size = (req + ELEM - 1) / ELEM * ELEM; // "chunk_size_bytes will be rounded up to next multiple of ELEM_ALIGN_BYTES"
        if (req == 0) chunk_size = ELEM;
        {
            PoolResource<MAXB, ALIGN> res(req);
            m_chunks = 1; m_avail = chunk_size; // "Construct a new PoolResource object which allocates the first chunk."
            compare_model(res, "construct");
            unsigned nops = 0;
            while (!s.exhausted() && nops < 3000) {
                unsigned r = s.range<unsigned>(0, 9);
                if (r < 5 && live.size() < 400) do_alloc(res);
                else if (r < 9) { if (!live.empty()) do_free(res, s.index(live.size())); }
                else { if (!live.empty()) check_pattern(live[s.index(live.size())]); }
                ++nops;
            }
            st.cls("ops", nops);
            // leave a few blocks allocated in half of the cases: the resource must free its chunks anyway (ASan would flag a bad free)
            bool leave = s.boolean();
            size_t keep = leave ? std::min<size_t>(live.size(), 3) : 0;
            // non-pooled blocks must always be returned (operator new fallback is not owned by the resource)
            for (size_t i = live.size(); i-- > 0;) if (!live[i].pooled) do_free(res, i);
            while (live.size() > keep) do_free(res, live.size() - 1);
            if (live.empty()) {
                // byte-exact accounting: everything the chunks hold is either on a free list or still available
                auto fl = PoolResourceTester::FreeListSizes(res);
                size_t total = PoolResourceTester::AvailableMemoryFromChunk(res);
                for (size_t c = 0; c < fl.size(); ++c) total += fl[c] * c * ELEM;
                st.steps++;
                VCHECK(total == res.NumAllocatedChunks() * res.ChunkSizeBytes(), "c61.pool-accounting", "free-list bytes + available != chunks*chunk_size: ", total,
                       res.NumAllocatedChunks() * res.ChunkSizeBytes());
                PoolResourceTester::CheckAllDataAccountedFor(res); // the repo's own structural checker (assert based), supplementary
                st.cls("all-returned");
            } else {
                for (auto& l : live) check_pattern(l);
                st.cls("blocks-left-at-destruction");
            }
        }
        if (n_reuse) st.cls("reuse");
        if (n_newchunk >= 2) st.cls("extra-chunks");
        if (n_leftover) st.cls("leftover-donated");
        if (n_fallback) st.cls("fallback-new");
        if (n_zero) st.cls("zero-byte-request");
        st.nontrivial = n_reuse >= 1 && n_newchunk >= 2 && n_leftover >= 1 && n_fallback >= 1;
        st.mix(uint64_t(chunk_size / ELEM));
    }
};

// node containers on top of PoolAllocator vs the same operations on std containers
template <size_t MAXB>
void run_container(verif::Src& s, verif::Stats& st)
{
    using Key = uint16_t;
    using Val = uint32_t;
    using Alloc = PoolAllocator<std::pair<const Key, Val>, MAXB, alignof(void*)>;
    using Map = std::unordered_map<Key, Val, std::hash<Key>, std::equal_to<Key>, Alloc>;
    using LAlloc = PoolAllocator<uint64_t, MAXB, alignof(void*)>;
    using List = std::list<uint64_t, LAlloc>;
    size_t chunk = s.range<size_t>(MAXB, MAXB * 6);
    PoolResource<MAXB, alignof(void*)> res(chunk);
    size_t max_chunks_seen = 1;
    unsigned nops = 0, n_erase = 0, n_rehash = 0, n_list = 0;
    {
        Map m(0, std::hash<Key>{}, std::equal_to<Key>{}, Alloc{&res});
        std::map<Key, Val> ref;
        List l(LAlloc{&res});
        std::list<uint64_t> lref;
        while (!s.exhausted() && nops < 3000) {
            ++nops;
            unsigned op = s.range<unsigned>(0, 11);
            Key k = Key(s.range<unsigned>(0, 63));
            Val v = Val(nops * 2654435761u);
            st.mix(uint64_t(op));
            switch (op) {
            case 0: case 1: case 2: { if (ref.size() >= 200) break; auto r = m.emplace(k, v); auto rr = ref.emplace(k, v); VCHECK(r.second == rr.second && r.first->second == rr.first->second, "c61.pool-container", "emplace result"); break; }
            case 3: { m[k] = v; ref[k] = v; break; }
            case 4: case 5: { size_t a = m.erase(k), b = ref.erase(k); VCHECK(a == b, "c61.pool-container", "erase count", a, b); n_erase += a; break; }
            case 6: { auto it = m.find(k); auto rit = ref.find(k); VCHECK((it == m.end()) == (rit == ref.end()) && (it == m.end() || it->second == rit->second), "c61.pool-container", "find"); break; }
            case 7: { if (s.chance(32)) { m.clear(); ref.clear(); } break; }
            case 8: { m.rehash(s.range<size_t>(0, 300)); n_rehash++; break; }
            case 9: { if (lref.size() >= 200) break; if (s.boolean()) { l.push_back(v); lref.push_back(v); } else { l.push_front(v); lref.push_front(v); } n_list++; break; }
            case 10: { if (lref.empty()) break; if (s.boolean()) { l.pop_back(); lref.pop_back(); } else { l.pop_front(); lref.pop_front(); } break; }
            default: {
                // copy into a second container on the same resource, compare, destroy
                Map m2(m, Alloc{&res});
                VCHECK(m2.size() == ref.size(), "c61.pool-container", "copy size");
                for (auto& [kk, vv] : ref) { auto it = m2.find(kk); VCHECK(it != m2.end() && it->second == vv, "c61.pool-container", "copy content", kk); }
                break;
            }
            }
            st.steps++;
            VCHECK(m.size() == ref.size() && l.size() == lref.size(), "c61.pool-container", "size after op", op);
            if ((nops & 7) == 0 || s.exhausted()) {
                size_t cnt = 0;
                for (auto& [kk, vv] : m) { auto rit = ref.find(kk); VCHECK(rit != ref.end() && rit->second == vv, "c61.pool-container", "content: key", kk); ++cnt; }
                VCHECK(cnt == ref.size(), "c61.pool-container", "iteration count");
                VCHECK(std::equal(l.begin(), l.end(), lref.begin(), lref.end()), "c61.pool-container", "list content");
            }
            // accounting: what memusage reports equals the recomputation from the resource's public counters, and the chunks can hold all nodes
            size_t expect = (memusage::MallocUsage(sizeof(void*) * 3) + memusage::MallocUsage(res.ChunkSizeBytes())) * res.NumAllocatedChunks() +
                            memusage::MallocUsage(sizeof(void*) * m.bucket_count());
            VCHECK(memusage::DynamicUsage(m) == expect, "c61.pool-accounting", "DynamicUsage(map)", memusage::DynamicUsage(m), expect);
            VCHECK(res.NumAllocatedChunks() * res.ChunkSizeBytes() >= m.size() * sizeof(std::pair<const Key, Val>) + l.size() * sizeof(uint64_t), "c61.pool-accounting",
                   "chunks smaller than the live nodes they hold");
            VCHECK(res.NumAllocatedChunks() >= max_chunks_seen, "c61.pool-accounting", "chunk count decreased");
            max_chunks_seen = res.NumAllocatedChunks();
        }
    }
    // containers destroyed: every node returned; bucket arrays (> MAXB or not) returned too
    {
        auto fl = PoolResourceTester::FreeListSizes(res);
        size_t total = PoolResourceTester::AvailableMemoryFromChunk(res);
        constexpr size_t ELEM = alignof(void*);
        for (size_t c = 0; c < fl.size(); ++c) total += fl[c] * c * ELEM;
        st.steps++;
        VCHECK(total == res.NumAllocatedChunks() * res.ChunkSizeBytes(), "c61.pool-accounting", "after container destruction: free-list bytes + available != chunks*chunk_size", total,
               res.NumAllocatedChunks() * res.ChunkSizeBytes());
        PoolResourceTester::CheckAllDataAccountedFor(res);
    }
    st.cls("ops", nops);
    st.cls("mode:node-containers");
    if (max_chunks_seen >= 2) st.cls("extra-chunks");
    st.nontrivial = max_chunks_seen >= 2 && n_erase >= 1 && n_rehash >= 1 && n_list >= 1;
}

} // namespace

VERIF_TARGET(c61_pool, nullptr, 8, 1600,
             "(a) raw resource: Allocate/Deallocate sequences (<= 3000 ops, <= 400 live blocks) on PoolResource<128,8>, <8,8>, <16,16>, <64,1>, <96,32> "
             "with chunk sizes MAX_BLOCK..8*MAX_BLOCK; request sizes 0, 1, k*ELEM-1, k*ELEM, MAX_BLOCK-1..MAX_BLOCK+1, beyond; alignments 1..64 "
             "(beyond the pool alignment => operator new fallback). Oracles: requested alignment, no overlap with any live block (interval map), "
             "contents intact at release, same-size-class reuse of freed blocks, and a reference model of the documented algorithm predicting "
             "NumAllocatedChunks / available bytes / every free-list length after each call; at the end free-list bytes + available == chunks * "
             "chunk size. (b) std::unordered_map + std::list with PoolAllocator on one resource vs std::map / std::list references, memusage "
             "DynamicUsage recomputed. non-trivial (a) = reuse + >= 2 new chunks + leftover donated + fallback allocation; (b) = extra chunk + "
             "erase + rehash + list traffic; distinct = op/size-class sequence hash")
{
    unsigned inst = s.range<unsigned>(0, 6);
    st.mix(uint64_t(inst));
    switch (inst) {
    case 0: st.cls("PoolResource<128,8>"); PoolRun<128, 8>(s, st).run(); break;
    case 1: st.cls("PoolResource<8,8>"); PoolRun<8, 8>(s, st).run(); break;
    case 2: st.cls("PoolResource<16,16>"); PoolRun<16, 16>(s, st).run(); break;
    case 3: st.cls("PoolResource<64,1>"); PoolRun<64, 1>(s, st).run(); break;
    case 4: st.cls("PoolResource<96,32>"); PoolRun<96, 32>(s, st).run(); break;
    case 5: run_container<88>(s, st); break;
    default: run_container<40>(s, st); break;
    }
}
