// C65 — Waiting for a new block template returns only what it promises.
//
// A waiter thread calls BlockTemplate::waitNext({timeout, fee_threshold}) on a regtest node while the driver thread performs a
// generated sequence of events with generated gaps: connect a block, add fee-bearing transactions (below / exactly at / above
// the threshold), interruptWait(), mock-time advances (1 s .. past the 20-minute rule .. past the deadline). Every event and
// the wait's start S and return R are stamped with a global sequence counter; mock time is the only clock that matters
// (NodeClock; after each advance the condition variable is notified, which the code must tolerate as a spurious wake-up).
// Oracle = a predicate over the event log, written from the statement with conservative stamp intervals (an event counts as
// "possibly inside" the window unless its stamps prove otherwise), so that thread timing can never turn into a verdict:
//   non-null: the parent was the active tip at some moment of [S,R]                                            (c65.stale-parent)
//             same parent as the previous template => fees >= previous fees + threshold, or tip older than
//             20 min (test chains) at R, or the tip differed from the previous parent inside [S,R]               (c65.unjustified-same-tip)
//   null:     the deadline passed in mock time (T(R) >= T(S) + timeout), or an interrupt is available:
//             the j-th interrupt-justified null needs >= j interruptWait() calls begun before its R              (c65.unjustified-null)
//   liveness under stable conditions (no timing involved: the code checks before it waits):
//             tip already different at S, no interrupt available  => non-null                                     (c65.null-despite-new-tip)
//             same tip throughout, pool fees >= previous + threshold from before S on, no interrupt => non-null   (c65.null-despite-fees)
// A real-time watchdog (60 s) only marks a round "inconclusive".
#include <engine/verif.h>
#include <kits/chainsim.h>
#include <kits/schedhook.h>

#include <interfaces/mining.h>
#include <node/kernel_notifications.h>
#include <node/mining_types.h>
#include <test/util/script.h>
#include <util/time.h>

#include <atomic>
#include <chrono>
#include <numeric>
#include <thread>

using namespace verif;

extern "C" const char* __tsan_default_options() { return "halt_on_error=1:second_deadlock_stack=1:exitcode=66:report_signal_unsafe=0"; }

namespace {

std::atomic<uint64_t> g_seq{1};
uint64_t Stamp() { return g_seq.fetch_add(1, std::memory_order_seq_cst); }

struct TipIv { uint256 hash; uint64_t b_active; uint64_t e_replaced; int64_t time; }; // possibly active during [b_active, e_replaced]
struct SubmitEv { uint64_t b, e; CAmount fee; bool accepted; };
struct IntEv { uint64_t b, e; };

CAmount Fees(interfaces::BlockTemplate& t)
{
    auto v = t.getTxFees();
    return std::accumulate(v.begin(), v.end(), CAmount{0});
}

struct World {
    ChainSim& sim;
    Src& s;
    Stats& st;
    std::unique_ptr<interfaces::Mining> mining;
    int64_t mock{0};                       //!< current mock time (s); only the driver thread changes it
    std::vector<TipIv> tips;
    std::vector<SubmitEv> submits;         //!< since the pool was last emptied by a block
    std::vector<IntEv> interrupts;         //!< on the CURRENT template object
    unsigned interrupt_nulls{0};           //!< nulls justified by an interrupt, on the current template object
    std::vector<std::pair<COutPoint, RefCoin>> coins; //!< confirmed spendable coins not yet used
    std::vector<std::pair<COutPoint, RefCoin>> big_coins; //!< mature 50 BTC base coinbases: spent by transactions paying 5..25 BTC as fee
    std::vector<std::pair<CTransactionRef, CAmount>> big_pool; //!< big-fee transactions currently in the pool
    unsigned removals{0};
    CAmount pool_fees{0};                  //!< sum of fees of accepted, still unconfirmed transactions (all independent, all template-able)
    uint64_t pool_last_change{0};          //!< end stamp of the last pool/tip change
    unsigned blockno{0};

    void Notify()
    {
        // lock + unlock orders this thread after a waiter that has already evaluated its predicate, then wake it up (spurious wake-up)
        { LOCK(sim.m_node.notifications->m_tip_block_mutex); }
        sim.m_node.notifications->m_tip_block_cv.notify_all();
    }
    void Advance(int64_t secs)
    {
        mock += secs;
        SetMockTime(mock);
        Notify();
    }
    void Connect(bool with_pool)
    {
        uint64_t b = Stamp();
        BlockSpec spec;
        spec.prev = tips.back().hash;
        spec.extra_nonce = 5000 + blockno++;
        int64_t def = std::max<int64_t>(sim.ledger.MedianTimePast(spec.prev) + 1, int64_t(sim.ledger.At(spec.prev).time) + 1);
        spec.time = uint32_t(std::max<int64_t>(def, mock - 30)); // a fresh block: tip age restarts
        std::vector<CTransactionRef> txs;
        if (with_pool) for (auto& info : sim.mempool().infoAll()) txs.push_back(info.tx);
        spec.txs = txs;
        auto blk = sim.Build(spec);
        auto d = sim.Deliver(blk);
        uint64_t e = Stamp();
        VCHECK(d.processed && sim.TipHash() == blk->GetHash(), "c65.generator-block", "harness block not connected", d.verdict ? StateStr(*d.verdict) : "");
        tips.back().e_replaced = e;
        tips.push_back(TipIv{blk->GetHash(), b, UINT64_MAX, int64_t(blk->nTime)});
        if (with_pool && !txs.empty()) { pool_fees = 0; submits.clear(); big_pool.clear(); }
        pool_last_change = e;
    }
    bool Submit(CAmount fee)
    {
        if (coins.empty()) return false;
        auto c = coins.back();
        coins.pop_back();
        if (c.second.value <= fee + 5000) return false;
        uint64_t b = Stamp();
        CTransactionRef tx = MakeTransactionRef(sim.MakeTx({c}, {CTxOut(c.second.value - fee, sim.keys.Script(SpkType::P2WPKH, 3))}, 0, 0xfffffffd));
        MempoolAcceptResult res = WITH_LOCK(cs_main, return sim.chainman().ProcessTransaction(tx));
        uint64_t e = Stamp();
        bool ok = res.m_result_type == MempoolAcceptResult::ResultType::VALID;
        submits.push_back(SubmitEv{b, e, fee, ok});
        if (ok) pool_fees += fee;
        pool_last_change = e;
        return ok;
    }
    /** a transaction spending a whole 50 BTC coinbase and paying `fee` (5..25 BTC): template fee totals around 2^31 and 2^32 satoshi */
    bool SubmitBig(CAmount fee)
    {
        if (big_coins.empty()) return false;
        auto c = big_coins.back();
        big_coins.pop_back();
        uint64_t b = Stamp();
        CTransactionRef tx = MakeTransactionRef(sim.MakeTx({c}, {CTxOut(c.second.value - fee, sim.keys.Script(SpkType::P2WPKH, 5))}, 0, 0xfffffffd));
        MempoolAcceptResult res = WITH_LOCK(cs_main, return sim.chainman().ProcessTransaction(tx));
        uint64_t e = Stamp();
        bool ok = res.m_result_type == MempoolAcceptResult::ResultType::VALID;
        submits.push_back(SubmitEv{b, e, fee, ok});
        if (ok) { pool_fees += fee; big_pool.emplace_back(tx, fee); }
        pool_last_change = e;
        return ok;
    }
    /** a big-fee transaction leaves the pool while the tip stays (what expiry / eviction do): the fee total drops, possibly across 2^31 */
    bool RemoveBig()
    {
        if (big_pool.empty()) return false;
        size_t j = s.index(big_pool.size());
        auto [tx, fee] = big_pool[j];
        big_pool.erase(big_pool.begin() + j);
        // the model's "fees present since before S" must not count it any more (conservative for the liveness check)
        for (size_t i = 0; i < submits.size(); ++i) if (submits[i].accepted && submits[i].fee == fee) { submits.erase(submits.begin() + i); break; }
        Stamp();
        { LOCK2(cs_main, sim.mempool().cs); sim.mempool().removeRecursive(*tx, MemPoolRemovalReason::EXPIRY); }
        pool_last_change = Stamp();
        pool_fees -= fee;
        removals++;
        Notify();
        return true;
    }
};

struct WaitResult {
    std::unique_ptr<interfaces::BlockTemplate> tmpl;
    uint64_t S{0}, R{0};
    int64_t t_start{0}, t_end{0};
    std::atomic<bool> entered{false}, done{false};
};

void Body(Src& s, Stats& st, bool tsan_variant)
{
    SetMockTime(0);
    g_seq.store(1);
    // -- schedule first
    const uint64_t sched_seed = s.range<uint64_t>(0, UINT64_MAX);
    const unsigned intensity = s.pick<unsigned>({64, 0, 16, 200});
    const unsigned rounds = s.range<unsigned>(1, tsan_variant ? 3 : 4);
    ChainSimOpts o;
    o.min_validation_cache = tsan_variant;
    {
        auto simp = std::make_unique<ChainSim>(o);
        ChainSim& sim = *simp;
        auto base = sim.LoadBase(104);
        World w{sim, s, st, nullptr};
        // funding block: coinbase 1 -> 12 outputs
        {
            const auto& b1 = sim.block_store.at(base[0]);
            std::vector<CTxOut> outs;
            CAmount each = b1->vtx[0]->vout[0].nValue / 12;
            for (int k = 0; k < 12; ++k) outs.emplace_back(each, sim.keys.Script(k % 2 ? SpkType::P2WPKH : SpkType::ANYONE_P2WSH, k % 8));
            CTransactionRef f = MakeTransactionRef(sim.MakeTx({{COutPoint(b1->vtx[0]->GetHash(), 0), RefCoin{b1->vtx[0]->vout[0].nValue, b1->vtx[0]->vout[0].scriptPubKey, 1, true}}}, outs));
            BlockSpec spec;
            spec.prev = base.back();
            spec.txs = {f};
            auto blk = sim.Build(spec);
            auto d = sim.Deliver(blk);
            VCHECK(d.processed && sim.TipHash() == blk->GetHash(), "c65.generator-block", "funding block not connected");
            for (uint32_t k = 0; k < 12; ++k) w.coins.emplace_back(COutPoint(f->GetHash(), k), RefCoin{each, outs[k].scriptPubKey, 105, false});
            w.tips.push_back(TipIv{blk->GetHash(), 0, UINT64_MAX, int64_t(blk->nTime)});
            for (int h = 2; h <= 5; ++h) { // coinbases of heights 2..5 are mature for the next block (height 106)
                const auto& bh = sim.block_store.at(base[h - 1]);
                w.big_coins.emplace_back(COutPoint(bh->vtx[0]->GetHash(), 0), RefCoin{bh->vtx[0]->vout[0].nValue, bh->vtx[0]->vout[0].scriptPubKey, h, true});
            }
            w.mock = int64_t(blk->nTime) + 60;
            SetMockTime(w.mock);
        }
        w.mining = interfaces::MakeMining(sim.m_node);
        // optional initial pool content, then the first template
        if (s.chance(100)) w.Submit(1000 + CAmount(s.range<unsigned>(0, 4)) * 1000);
        const bool big_mode = s.chance(110); // fee totals of 5..70 BTC: around 2^31 (21.47 BTC) and 2^32 (42.95 BTC) satoshi
        const std::vector<CAmount> BIG{CAmount{15} * COIN, CAmount{10} * COIN, CAmount{25} * COIN, CAmount{5} * COIN, CAmount{20} * COIN, CAmount{8} * COIN, CAmount{22} * COIN};
        if (big_mode) { unsigned n0 = s.range<unsigned>(0, 2); for (unsigned i = 0; i < n0; ++i) w.SubmitBig(s.pick(BIG)); }
        bool cross_up = false, cross_down = false;
        std::unique_ptr<interfaces::BlockTemplate> tmpl = w.mining->createNewBlock({}, /*cooldown=*/false);
        VCHECK(tmpl != nullptr, "c65.generator-template", "createNewBlock returned nothing");
        sched::Arm(sched_seed, intensity);
        bool any_inside = false;
        unsigned conclusive = 0;
        std::set<std::string> outcomes;
        for (unsigned round = 0; round < rounds; ++round) {
            const uint256 prev_parent = tmpl->getBlockHeader().hashPrevBlock;
            const CAmount prev_fees = Fees(*tmpl);
            // the model "a template holds the whole pool" is only used where the previous template confirms it
            // -- wait parameters
            const double timeout_ms = s.pick<double>({1500.0, 0.0, 1.0, 500.0, 30000.0, 600000.0, 3600000.0, -1.0}); // -1: default (forever)
            const unsigned thr_mode = s.range<unsigned>(0, 5);
            const CAmount step = 1000 + CAmount(s.range<unsigned>(0, 5)) * 700;
            CAmount threshold = MAX_MONEY;
            switch (thr_mode) {
            case 0: threshold = MAX_MONEY; break;  // default: only tip changes
            case 1: threshold = step; break;       // a later submission of exactly `step` hits the boundary
            case 2: threshold = step + 1; break;   // ... misses it by one satoshi
            case 3: threshold = 0; break;
            case 4: threshold = 1; break;
            default: threshold = step * 3; break;
            }
            if (big_mode && thr_mode != 0 && s.chance(100)) threshold = s.pick<CAmount>({COIN, 5 * COIN, 12 * COIN});
            // -- events before the wait starts
            unsigned pre = s.range<unsigned>(0, 7);
            if (pre == 1) w.Connect(false);
            else if (pre == 2) w.Connect(true);
            else if (pre == 3) w.Submit(step);
            else if (pre == 4) { uint64_t b = Stamp(); tmpl->interruptWait(); w.interrupts.push_back(IntEv{b, Stamp()}); }
            else if (pre == 6 && big_mode) w.SubmitBig(s.pick(BIG));
            else if (pre == 7 && big_mode) w.RemoveBig();
            else if (pre == 5) w.Advance(s.pick<int64_t>({1, 61, 1201, 700, 1140})); // start + 60 + 1140 = exactly 20 min: not yet "over 20 minutes"
            // -- the waiter
            WaitResult wr;
            node::BlockWaitOptions opts;
            if (timeout_ms >= 0) opts.timeout = MillisecondsDouble{timeout_ms};
            opts.fee_threshold = threshold;
            interfaces::BlockTemplate* cur = tmpl.get();
            std::thread waiter([&wr, cur, opts] {
                wr.t_start = GetMockTime().count();
                wr.S = Stamp();
                wr.entered.store(true);
                sched::Point("waiter");
                wr.tmpl = cur->waitNext(opts);
                wr.R = Stamp();
                wr.t_end = GetMockTime().count();
                wr.done.store(true);
            });
            // -- the driver's events
            if (s.chance(200)) { // usually let the waiter get going first
                while (!wr.entered.load()) std::this_thread::yield();
                std::this_thread::sleep_for(std::chrono::microseconds(s.pick<unsigned>({300, 0, 50, 2000})));
            }
            unsigned nev = s.range<unsigned>(0, 4);
            for (unsigned i = 0; i < nev && !wr.done.load(); ++i) {
                sched::Point("driver");
                unsigned k = s.range<unsigned>(0, 9);
                if (big_mode && s.chance(90)) { if (s.boolean()) w.SubmitBig(s.pick(BIG)); else w.RemoveBig(); }
                else if (k <= 2) w.Submit(s.pick<CAmount>({step, step - 1, step + 1, step * 3, 1000}));
                else if (k <= 4) w.Connect(s.boolean());
                else if (k == 5) { uint64_t b = Stamp(); cur->interruptWait(); w.interrupts.push_back(IntEv{b, Stamp()}); }
                else w.Advance(s.pick<int64_t>({1, 2, 61, 1201, 5, 700, 1139, 4000})); // 61+1139 = exactly 20 min after the start: not yet "over 20 minutes"
                if (s.chance(128)) std::this_thread::sleep_for(std::chrono::microseconds(s.pick<unsigned>({100, 0, 20, 1500})));
            }
            // -- make the wait end: push mock time past the deadline, or interrupt a wait without deadline
            const auto wd0 = std::chrono::steady_clock::now();
            bool watchdog = false;
            unsigned closing = 0;
            while (!wr.done.load()) {
                if (closing == 0 || closing % 3000 == 0) { // first the regular ending; if the waiter is still not back seconds later, interrupts as well
                    if (timeout_ms >= 0 && closing == 0) {
                        while (!wr.entered.load()) std::this_thread::yield();
                        int64_t need = wr.t_start + int64_t(timeout_ms / 1000.0) + 2 - w.mock;
                        w.Advance(std::max<int64_t>(need, 1));
                    } else {
                        uint64_t b = Stamp();
                        cur->interruptWait();
                        w.interrupts.push_back(IntEv{b, Stamp()});
                    }
                }
                closing++;
                std::this_thread::sleep_for(std::chrono::milliseconds(1));
                if (std::chrono::steady_clock::now() - wd0 > std::chrono::seconds(60)) watchdog = true; // keeps trying; only labels the round
            }
            waiter.join();
            // -- oracle over the log
            const uint64_t S = wr.S, R = wr.R;
            auto inside = [&](uint64_t b, uint64_t e) { return b > S && e < R; };
            for (auto& t : w.tips) if (t.b_active > S && t.b_active < R) any_inside = true;
            for (auto& x : w.submits) if (inside(x.b, x.e)) any_inside = true;
            for (auto& x : w.interrupts) if (inside(x.b, x.e)) any_inside = true;
            if (watchdog) {
                st.cls("watchdog-inconclusive");
            } else {
                conclusive++;
                // what held at S for sure (events that ended before S) / possibly (events that began before R)
                const TipIv* tip_at_S = nullptr; // the tip whose activation completed before S and that was not replaced (not even begun) before S
                for (size_t i = 0; i < w.tips.size(); ++i) {
                    const TipIv& t = w.tips[i];
                    bool active_before_S = (i == 0) || (w.tips[i - 1].e_replaced < S);
                    bool replace_not_begun = (i + 1 == w.tips.size()) || (w.tips[i + 1].b_active > S);
                    if (active_before_S && replace_not_begun) tip_at_S = &t;
                }
                const bool tip_differs_at_S = tip_at_S && tip_at_S->hash != prev_parent;
                bool tip_constant = tip_at_S != nullptr; // no tip change overlapping [S,R]
                for (size_t i = 0; i < w.tips.size(); ++i) if (i > 0 && w.tips[i].b_active < R && w.tips[i - 1].e_replaced > S) tip_constant = false;
                unsigned interrupts_begun = 0;
                for (auto& x : w.interrupts) if (x.b < R) interrupts_begun++;
                const bool interrupt_available = interrupts_begun > w.interrupt_nulls;
                const bool deadline_passed = timeout_ms >= 0 && double(wr.t_end) * 1000.0 >= double(wr.t_start) * 1000.0 + timeout_ms;
                st.steps++;
                if (wr.tmpl) {
                    const uint256 rp = wr.tmpl->getBlockHeader().hashPrevBlock;
                    const CAmount rfees = Fees(*wr.tmpl);
                    const TipIv* iv = nullptr;
                    for (auto& t : w.tips) if (t.hash == rp && t.b_active < R && t.e_replaced > S) iv = &t;
                    VCHECK(iv != nullptr, "c65.stale-parent", "round", round, "returned template builds on", rp.ToString(), "which was not the active tip at any moment of the wait [", S, ",", R, "]");
                    if (rp == prev_parent) {
                        const bool fee_ok = threshold < MAX_MONEY && rfees >= prev_fees + threshold;
                        const bool old_tip = wr.t_end > iv->time + 20 * 60;
                        bool tip_differed = false;
                        for (auto& t : w.tips) if (t.hash != prev_parent && t.b_active < R && t.e_replaced > S) tip_differed = true;
                        VCHECK(fee_ok || old_tip || tip_differed, "c65.unjustified-same-tip", "round", round, "same-tip template with fees", rfees, "previous", prev_fees, "threshold", threshold,
                               "mock time at return", wr.t_end, "tip time", iv->time);
                        outcomes.insert(fee_ok ? "ret:same-tip-fees" : (old_tip ? "ret:same-tip-20min" : "ret:same-tip-after-change"));
                        if (fee_ok && rfees == prev_fees + threshold && threshold > 1) st.cls("fee-boundary-exact-returned");
                    } else {
                        outcomes.insert("ret:new-tip");
                    }
                } else {
                    if (!deadline_passed) {
                        VCHECK(interrupt_available, "c65.unjustified-null", "round", round, "nothing returned although the deadline has not passed in mock time (start", wr.t_start, "end", wr.t_end,
                               "timeout ms", timeout_ms, ") and no unconsumed interrupt exists: interrupts begun", interrupts_begun, "nulls already explained by interrupts", w.interrupt_nulls);
                        w.interrupt_nulls++;
                        outcomes.insert("ret:null-interrupt");
                    } else {
                        outcomes.insert(interrupt_available ? "ret:null-deadline-or-interrupt" : "ret:null-deadline");
                    }
                    if (!interrupt_available) {
                        // liveness under stable conditions: the code evaluates its conditions before it ever waits
                        VCHECK(!tip_differs_at_S, "c65.null-despite-new-tip", "round", round, "the tip already differed from the previous template's parent when the wait started, no interrupt, yet nothing was returned");
                        // fees: same tip throughout, everything submitted before S (and accepted) is template-able; the previous template confirms the model
                        CAmount fees_before_S = 0;
                        bool model_ok = tip_constant && tip_at_S && tip_at_S->hash == prev_parent;
                        for (auto& x : w.submits) if (x.accepted && x.e < S) fees_before_S += x.fee;
                        if (model_ok && threshold < MAX_MONEY && fees_before_S >= prev_fees + threshold) {
                            // cross-check the model with a fresh template before blaming the wait
                            auto probe = w.mining->createNewBlock({}, false);
                            if (probe && probe->getBlockHeader().hashPrevBlock == prev_parent && Fees(*probe) == w.pool_fees && Fees(*probe) >= prev_fees + threshold) {
                                VCHECK(false, "c65.null-despite-fees", "round", round, "pool fees", fees_before_S, "(all submitted before the wait) >= previous", prev_fees, "+ threshold", threshold,
                                       "on an unchanged tip, no interrupt, yet nothing was returned");
                            }
                        }
                    }
                }
                if (tip_differs_at_S) st.cls("tip-differed-at-start");
            }
            {
                const CAmount B31 = CAmount{1} << 31;
                if (prev_fees < B31 && w.pool_fees >= B31) cross_up = true;
                if (prev_fees >= B31 && w.pool_fees < B31) cross_down = true;
            }
            st.mix(uint64_t(pre)); st.mix(uint64_t(thr_mode)); st.mix(uint64_t(timeout_ms < 0 ? 7 : (timeout_ms < 2 ? 0 : (timeout_ms < 2000 ? 1 : 2)))); st.mix(uint64_t(nev)); st.mix(uint64_t(wr.tmpl ? 1 : 0));
            st.note("round ", round, ": timeout_ms=", timeout_ms, " threshold=", threshold == MAX_MONEY ? -1 : threshold, " pre=", pre, " events=", nev, " -> ",
                    wr.tmpl ? (wr.tmpl->getBlockHeader().hashPrevBlock == prev_parent ? "same-tip template" : "new-tip template") : "null", " [S=", S, " R=", R, " T=", wr.t_start, "..", wr.t_end, "]");
            if (wr.tmpl) {
                // continue with the new template: interrupts belong to the template object they were called on
                tmpl = std::move(wr.tmpl);
                w.interrupts.clear();
                w.interrupt_nulls = 0;
            }
        }
        sched::Disarm();
        for (auto& o2 : outcomes) st.cls(o2);
        if (any_inside) st.cls("event-inside-wait-window");
        if (big_mode) st.cls("big-fees");
        if (cross_up) st.cls("fees-cross-2^31-up");
        if (cross_down) st.cls("fees-cross-2^31-down");
        if (w.removals) st.cls("big-fee-tx-removed");
        st.mix(uint64_t(big_mode * 4 + cross_up * 2 + cross_down));
        st.mix(uint64_t(outcomes.size()));
        // non-trivial: at least one driver event provably fell inside a wait window (began after S, ended before R) and >= 2 rounds were conclusive
        st.nontrivial = any_inside && conclusive >= 2;
        tmpl.reset();
        w.mining.reset();
    }
    SetMockTime(0);
}

} // namespace

#define C65_RULE                                                                                                                                         \
    "1..4 rounds on a regtest node (mock clock): waiter thread calls waitNext(timeout in {0,1ms,0.5s,1.5s,30s,10min,1h,forever}, fee_threshold in "     \
    "{default,0,1,f,f+1,3f}) while the driver performs 0..4 events with seeded gaps: submit tx with fee {f,f-1,f+1,3f}, connect block (empty / "       \
    "mining the pool), interruptWait, mock-time advance {1s..20min+1s..past deadline}; events before the wait (tip already changed, pending "         \
    "interrupt, fees already there); in ~40% of the cases big-fee txs (5..25 BTC each, totals around 2^31 and 2^32 sat) are added and removed again "  \
    "(pool removal as by expiry/eviction, tip unchanged); the wait is ended by passing the deadline in mock time or by an interrupt. oracle: stamp-interval predicate " \
    "over the event log. non-trivial = an event provably inside a wait window and >= 2 conclusive rounds; distinct = per-round (pre-event, threshold " \
    "mode, timeout class, event count, outcome)"

VERIF_TARGET(c65_waitnext, nullptr, 40, 160, C65_RULE) { Body(s, st, false); }
VERIF_TARGET(c65_waitnext_tsan, nullptr, 40, 160, C65_RULE) { Body(s, st, true); }
