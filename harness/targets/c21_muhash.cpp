// C21 (MuHash clause) — the MuHash of a set is independent of insertion order; equals an independent 3072-bit reference.
// Reference: own arithmetic modulo 2^3072-1103717 with boost cpp_int (element = ChaCha20 keystream keyed by SHA256(data), little endian;
// digest = SHA256 of the 384-byte little-endian quotient numerator/denominator). Only SHA256/ChaCha20 are reused as primitives.
#include <engine/verif.h>

#include <crypto/muhash.h>
#include <streams.h>
#include <uint256.h>

#include <boost/multiprecision/cpp_int.hpp>

#include <algorithm>
#include <array>
#include <vector>

using cpp_int = boost::multiprecision::number<boost::multiprecision::cpp_int_backend<6400, 6400, boost::multiprecision::unsigned_magnitude, boost::multiprecision::unchecked, void>>;

namespace c21ref {
cpp_int MuMul(const cpp_int& a, const cpp_int& b);
cpp_int MuElement(const std::vector<uint8_t>& data);
cpp_int MuInverse(const cpp_int& a);
uint256 MuFinalize(const cpp_int& v);
} // namespace c21ref

VERIF_TARGET(c21_muhash, nullptr, 16, 400,
             "multisets of 0-10 byte strings (lengths 0-70, duplicates likely) plus 0-4 'noise' elements: MuHash3072 built by inserting in generated order, in a "
             "generated permutation, with noise inserted and removed at generated positions (also removed BEFORE inserted), as a product/quotient of two partial "
             "hashes, and through a serialization round trip; all digests must be equal and equal to the cpp_int reference. non-trivial = >=3 elements, a "
             "non-identity permutation and at least one remove; distinct = sizes + permutation + noise positions")
{
    unsigned n = s.range<unsigned>(0, 10);
    std::vector<std::vector<uint8_t>> elems;
    for (unsigned i = 0; i < n; ++i) {
        if (!elems.empty() && s.chance(40)) { elems.push_back(elems[s.index(elems.size())]); st.cls("duplicate-element"); continue; }
        size_t len = s.pick<size_t>({0, 1, 4, 31, 32, 33, 36, 64, 70});
        auto b = s.bytes(len);
        b.resize(len);
        elems.push_back(b);
    }
    unsigned nn = s.range<unsigned>(0, 4);
    std::vector<std::vector<uint8_t>> noise;
    for (unsigned i = 0; i < nn; ++i) { auto b = s.bytes(8); b.resize(8); b.push_back(uint8_t(i)); noise.push_back(b); }
    // reference
    cpp_int acc = 1;
    for (auto& e : elems) acc = c21ref::MuMul(acc, c21ref::MuElement(e));
    uint256 want = c21ref::MuFinalize(acc);
    // (a) generated order
    MuHash3072 a;
    for (auto& e : elems) a.Insert(e);
    uint256 da;
    { MuHash3072 t = a; t.Finalize(da); }
    st.steps++;
    VCHECK(da == want, "c21.muhash-reference", "in-order digest", da.ToString(), "reference", want.ToString(), "n", n);
    // (b) permutation + noise insert/remove pairs in generated positions
    std::vector<int> script; // >=0 insert element i; -1-j: toggle noise j (first occurrence = insert or remove, second = the inverse)
    std::vector<unsigned> perm(n);
    for (unsigned i = 0; i < n; ++i) perm[i] = i;
    bool permuted = false;
    for (unsigned i = n; i > 1; --i) { unsigned j = unsigned(s.index(i)); if (j != i - 1) permuted = true; std::swap(perm[i - 1], perm[j]); }
    for (unsigned i = 0; i < n; ++i) script.push_back(int(perm[i]));
    std::vector<bool> remove_first(nn);
    for (unsigned j = 0; j < nn; ++j) {
        remove_first[j] = s.boolean();
        size_t p1 = s.index(script.size() + 1);
        script.insert(script.begin() + p1, -1 - int(j));
        size_t p2 = p1 + 1 + s.index(script.size() - p1);
        script.insert(script.begin() + p2, -1 - int(j));
    }
    MuHash3072 b;
    std::vector<int> seen(nn, 0);
    for (int x : script) {
        if (x >= 0) { b.Insert(elems[x]); st.note("ins ", x); }
        else {
            int j = -1 - x;
            bool ins = (seen[j] == 0) != remove_first[j];
            if (ins) b.Insert(noise[j]); else b.Remove(noise[j]);
            seen[j]++;
            st.note(ins ? "ins noise " : "rem noise ", j);
        }
    }
    uint256 db;
    { MuHash3072 t = b; t.Finalize(db); }
    st.steps++;
    VCHECK(db == want, "c21.muhash-order", "permuted/noisy digest", db.ToString(), "in-order", da.ToString(), "n", n, "noise", nn);
    // (c) split into two partial hashes combined by *=, and a superset divided by the surplus
    unsigned cut = unsigned(s.index(n + 1));
    MuHash3072 c1, c2;
    for (unsigned i = 0; i < n; ++i) (i < cut ? c1 : c2).Insert(elems[perm[i]]);
    c1 *= c2;
    uint256 dc;
    c1.Finalize(dc);
    st.steps++;
    VCHECK(dc == want, "c21.muhash-combine", "product of partial hashes", dc.ToString(), "expected", want.ToString());
    MuHash3072 sup, surplus;
    for (auto& e : elems) sup.Insert(e);
    for (auto& e : noise) { sup.Insert(e); surplus.Insert(e); }
    sup /= surplus;
    uint256 dd;
    sup.Finalize(dd);
    st.steps++;
    VCHECK(dd == want, "c21.muhash-combine", "superset / surplus", dd.ToString(), "expected", want.ToString());
    // (d) serialization round trip of the unfinalized state (numerator and denominator)
    DataStream ss{};
    ss << b;
    MuHash3072 r;
    ss >> r;
    uint256 dr;
    r.Finalize(dr);
    st.steps++;
    VCHECK(dr == want, "c21.muhash-serialize", "digest after round trip", dr.ToString(), "expected", want.ToString());
    st.nontrivial = n >= 3 && permuted && nn >= 1;
    if (permuted) st.cls("permuted");
    if (nn) st.cls("insert-remove-pairs");
    for (unsigned j = 0; j < nn; ++j) if (remove_first[j]) { st.cls("remove-before-insert"); break; }
    st.mix(uint64_t(n)); st.mix(uint64_t(nn)); st.mix(uint64_t(cut));
    for (int x : script) st.mix(uint64_t(x + 16));
}
