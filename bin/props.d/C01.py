# C01: stage list (what ./check C01 quick|thorough runs) and manifest text. Helpers gen()/enum()/hyp()/custom() come from props.py.
SPEC = {'level': 'exploration',
 'assumptions': ['RefLedger (own subsidy formula, own fee/value rules, 128-bit sums, no script evaluation) is the reference for the active chain; scripts are valid by construction',
                 'regtest (halving interval 150), base of 104..148 empty blocks, histories <= 24 ops',
                 'c01_txinputs / c01_feeacc: coin values that no validated chain can contain are injected directly into a coins view; '
                 'values are clamped so the implementation\'s int64 running input sum cannot overflow before its range check (precondition: coins come from validated outputs)'],
 'stages': [gen('vh_c01', 'c01_supply', 400, 6000, min_cases_quick=60, max_seconds_quick=900, max_seconds_thorough=7200,
                floors={'fault:cb-sum-wraps-2^64': 0.04, 'fault:tx-sum-wraps-2^64': 0.04, 'has-rejected-fault': 0.4, 'fee-tx-on-active-chain': 0.5, 'reorg': 0.12, 'crossed-halving': 0.1, 'overtake': 0.1},
                rule='supply histories; non-trivial = >=1 rejected value-rule fault + >=1 fee-paying tx on the active chain + >=1 reorg'),
            gen('vh_c01', 'c01_feeacc', 200, 3000, min_cases_quick=40, max_seconds_quick=600, max_seconds_thorough=3600,
                floors={'rejected:bad-txns-accumulated-fee-outofrange': 0.03, 'rejected:bad-txns-inputvalues-outofrange': 0.05, 'accepted': 0.1},
                rule='seeded huge coins; non-trivial = an input sum or running fee total within +-2 of MAX_MONEY'),
            gen('vh_c01', 'c01_txinputs', 200000, 4000000, min_cases_quick=20000, max_seconds_quick=600, max_seconds_thorough=3600,
                floors={'accepted': 0.05, 'rejected:bad-txns-inputvalues-outofrange': 0.1, 'rejected:bad-txns-in-belowout': 0.02, 'rejected:bad-txns-premature-spend-of-coinbase': 0.01},
                rule='CheckTxInputs vs 128-bit reference; non-trivial = a value or sum within +-2 of 0 / MAX_MONEY / INT64 limits')]}

META = {'level_text': 'Generated block histories on a real in-process regtest node (valid blocks, a catalogue of blocks violating exactly one value rule by the smallest amount, '
               'reorgs, invalidation): after every operation the active chain is replayed from genesis by an independent ledger model (coinbase <= own-formula subsidy + fees, '
               'in >= out, ranges) and the coins DB total (cursor walk and ComputeUTXOStats) must equal the model total and stay below the sum of subsidies; every catalogue '
               'block must be rejected leaving tip and hash_serialized unchanged and its valid twin accepted. Value combinations no honest chain can reach (MAX_MONEY / 64-bit '
               'boundaries, accumulated fees above MAX_MONEY) are checked on Consensus::CheckTxInputs and TestBlockValidity against 128-bit references. Exploration over bounded histories.',
 'technique': 'stateful property-based testing: operation histories + fault catalogue vs independent ledger model; differential against 128-bit reference arithmetic',
 'level_note': 'trusted base: RefLedger replay, harness block/transaction builder, the 20-line 128-bit references; script validity by construction'}
