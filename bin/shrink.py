"""Out-of-process shrinking of a failing choice-sequence (DESIGN.md §3.2 item 4).

Delta debugging over the byte buffer: truncate, delete chunks, zero bytes, lower bytes. A candidate is kept only if the
replay fails with the *same oracle id*. Because `Src` maps shorter / lower byte strings to structurally smaller choices,
byte shrinking shrinks the decoded operation sequence (as in Hypothesis).
"""
import os
import time
from concurrent.futures import ThreadPoolExecutor


def shrink(replay_fn, path, oracle, budget_s, nproc=16):
    data = open(path, "rb").read()
    base = path + ".shrink"
    os.makedirs(base, exist_ok=True)
    deadline = time.time() + budget_s
    counter = [0]

    def test(cand):
        counter[0] += 1
        p = os.path.join(base, f"cand-{counter[0]}-{os.getpid()}-{id(cand) & 0xffff}.bin")
        open(p, "wb").write(cand)
        try:
            failed, o, _, _ = replay_fn(p)
        finally:
            try:
                os.unlink(p)
            except OSError:
                pass
        return failed and o == oracle

    pool = ThreadPoolExecutor(max_workers=nproc)

    def first_ok(cands):
        """test candidates in parallel, return the first (in order) that still fails"""
        cands = [c for c in cands if c != data]
        for i in range(0, len(cands), nproc):
            if time.time() > deadline:
                return None
            batch = cands[i:i + nproc]
            res = list(pool.map(test, batch))
            for c, ok in zip(batch, res):
                if ok:
                    return c
        return None

    improved = True
    rounds = 0
    while improved and time.time() < deadline and rounds < 50:
        improved = False
        rounds += 1
        # 1. truncation from the end / from the front (integrals are consumed from the end, bytes from the front)
        n = len(data)
        cands = []
        k = n // 2
        while k >= 1:
            cands.append(data[:n - k])
            cands.append(data[k:])
            k //= 2
        c = first_ok(cands)
        if c is not None:
            data = c
            improved = True
            continue
        # 2. delete chunks
        size = max(1, len(data) // 2)
        while size >= 1 and time.time() < deadline:
            cands = [data[:i] + data[i + size:] for i in range(0, len(data), size)]
            c = first_ok(cands[:256])
            if c is not None:
                data = c
                improved = True
            else:
                size //= 2
        # 3. zero runs, then single bytes; lower remaining bytes
        size = max(1, len(data) // 4)
        while size >= 1 and time.time() < deadline:
            cands = []
            for i in range(0, len(data), size):
                seg = data[i:i + size]
                if any(seg):
                    cands.append(data[:i] + bytes(len(seg)) + data[i + size:])
            c = first_ok(cands[:256])
            if c is not None:
                data = c
                improved = True
            else:
                size //= 2
        if len(data) <= 256 and time.time() < deadline:
            cands = []
            for i, b in enumerate(data):
                if b > 1:
                    cands.append(data[:i] + bytes([b // 2]) + data[i + 1:])
                    cands.append(data[:i] + bytes([b - 1]) + data[i + 1:])
            c = first_ok(cands[:512])
            if c is not None:
                data = c
                improved = True
    pool.shutdown(wait=False)
    out = path + ".shrunk"
    if path.endswith(".bin"):
        out = path[:-4] + ".shrunk.bin"
    open(out, "wb").write(data)
    try:
        os.rmdir(base)
    except OSError:
        pass
    return out
