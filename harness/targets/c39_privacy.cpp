// C39 — Transaction-origin privacy is preserved.
//  c39_getdata        NetSim: which getdata requests for transactions are answered (announcement-sequence model kept by the harness)
//  c39_privbroadcast  NetSim: private-broadcast flows (stays out of the pool, only on private connections, one tx per connection, only on request)
//  c39_pb_object      PrivateBroadcast object against a reference model with small caps (queue cap, send-attempt cap, re-add)
//  c39_pb_limits      the default caps 10,000 / 1,000 (single enumerated case)
#include <engine/verif.h>
#include <kits/chainsim.h>
#include <kits/netsim.h>

#include <node/transaction.h>
#include <node/types.h>
#include <private_broadcast.h>
#include <streams.h>
#include <test/util/script.h>

#include <cstring>
#include <map>
#include <set>

using namespace verif;

namespace {

std::vector<uint8_t> SerTx(const CTransaction& tx, bool with_witness = true)
{
    DataStream ds;
    if (with_witness) ds << TX_WITH_WITNESS(tx); else ds << TX_NO_WITNESS(tx);
    return std::vector<uint8_t>(UCharCast(ds.data()), UCharCast(ds.data()) + ds.size());
}

std::vector<uint8_t> SerInvs(const std::vector<CInv>& v)
{
    DataStream ds;
    ds << v;
    return std::vector<uint8_t>(UCharCast(ds.data()), UCharCast(ds.data()) + ds.size());
}

std::vector<std::pair<COutPoint, RefCoin>> MatureCoins(ChainSim& sim)
{
    std::vector<std::pair<COutPoint, RefCoin>> mature;
    RefReplay r = sim.ledger.Replay(sim.TipHash());
    int next_h = sim.TipHeight() + 1;
    for (auto& [op, c] : r.utxo) if (c.coinbase && c.spk == P2WSH_OP_TRUE && next_h - c.height >= 100) mature.emplace_back(op, c);
    return mature;
}

} // namespace

// =====================================================================================================================
VERIF_TARGET(c39_getdata, nullptr, 48, 700,
             "regtest node with 2-4 tx-relay peers (inbound/outbound/manual; none/noban/mempool/relay permissions; wtxid and txid relay); <=30 ops: a peer "
             "submits a tx (valid, chained, invalid), local submission, getdata from any peer at any point (wtxid / txid / witness-txid items for pool txs, "
             "confirmed txs, unknown hashes), SendMessages for one peer (trickle), time steps, BIP35 mempool requests, feefilter, blocks mined from the pool. "
             "The harness stamps every pool entry and every SendMessages call per peer with a logical clock; a tx reply to P for T is legal only if T entered "
             "the pool before the last SendMessages(P) (the only place where announcements are sent) or T is in the most recent block. non-trivial = at least "
             "one pool tx served and at least one pool tx withheld (notfound although in the pool); distinct = peers + op kinds + outcomes")
{
    auto simp = std::make_unique<ChainSim>(ChainSimOpts{});
    ChainSim& sim = *simp;
    sim.LoadBase(118);
    NetSimOpts no;
    no.rng_seed = s.range<uint64_t>(0, 255);
    NetSim net(sim, no);
    auto mature = MatureCoins(sim);
    size_t next_coin = 0;

    struct Rec {
        CTransactionRef tx;
        CAmount fee{0};
        uint64_t entered{0};      //!< logical clock of the first observation in the pool (0 = never)
        bool confirmed{false};
        bool in_recent_block{false};
        bool valid{true};
    };
    std::vector<Rec> reg;
    uint64_t clock = 0;
    std::vector<uint64_t> last_send; // per peer: clock of the last SendMessages call

    auto scan_entries = [&]() {
        for (auto& r : reg) if (!r.entered && !r.confirmed && sim.mempool().exists(r.tx->GetWitnessHash())) r.entered = ++clock;
    };

    // ---------------------------------------------------------------- peers
    const unsigned npeers = 2 + s.range<unsigned>(0, 2);
    for (unsigned i = 0; i < npeers; ++i) {
        PeerSpec ps;
        ps.conn = s.pick<ConnectionType>({ConnectionType::INBOUND, ConnectionType::OUTBOUND_FULL_RELAY, ConnectionType::INBOUND, ConnectionType::MANUAL});
        ps.perms = s.pick<NetPermissionFlags>({NetPermissionFlags::None, NetPermissionFlags::None, NetPermissionFlags::NoBan, NetPermissionFlags::Mempool, NetPermissionFlags::Relay, NetPermissionFlags::None});
        ps.wtxidrelay = !s.chance(70);
        ps.relay_txs = !s.chance(24);
        if (s.chance(60)) ps.our_services = ServiceFlags(ps.our_services | NODE_BLOOM);
        int p = net.AddPeer(ps);
        bool ok = net.Handshake(p);
        assert(ok);
        last_send.push_back(0); // the handshake's SendMessages calls happened before any tx existed
        st.note("peer", p, " ", ConnTypeName(ps.conn), " perms=", uint32_t(ps.perms), ps.wtxidrelay ? " wtxid" : " txid");
        st.mix(uint64_t(ps.conn)); st.mix(uint64_t(ps.perms)); st.mix(uint64_t(ps.wtxidrelay));
        if (ps.perms == NetPermissionFlags::NoBan) st.cls("peer-noban");
    }

    auto process_all = [&](int p) { // handle everything queued for p, without any SendMessages in between
        for (int g = 0; g < 50; ++g) { bool more = net.ProcessOnce(p); scan_entries(); if (!more) break; }
    };
    auto send_messages = [&](int p) { net.SendMessagesTo(p); last_send[p] = ++clock; };

    auto new_tx = [&](bool valid) -> std::optional<Rec> {
        Rec r;
        // chain on an own pool output sometimes
        std::vector<size_t> parents;
        for (size_t i = 0; i < reg.size(); ++i) if (reg[i].entered && !reg[i].confirmed && reg[i].valid && reg[i].tx->vout[0].nValue > 1000000) parents.push_back(i);
        std::pair<COutPoint, RefCoin> in;
        if (!parents.empty() && s.chance(80)) {
            const Rec& par = reg[parents[s.index(parents.size())]];
            // only spend an output once
            bool spent = false;
            for (auto& o : reg) if (o.tx->vin[0].prevout == COutPoint(par.tx->GetHash(), 0)) spent = true;
            if (spent) { if (next_coin >= mature.size()) return std::nullopt; in = mature[next_coin++]; }
            else in = {COutPoint(par.tx->GetHash(), 0), RefCoin{par.tx->vout[0].nValue, P2WSH_OP_TRUE, 0, false}};
        } else {
            if (next_coin >= mature.size()) return std::nullopt;
            in = mature[next_coin++];
        }
        r.fee = 30000 + CAmount(reg.size()) * 100;
        CMutableTransaction m = sim.MakeTx({in}, {CTxOut(in.second.value - r.fee, P2WSH_OP_TRUE)});
        if (!valid) { m.vin[0].scriptWitness.stack.insert(m.vin[0].scriptWitness.stack.begin(), std::vector<unsigned char>{0x01}); r.valid = false; }
        r.tx = MakeTransactionRef(m);
        return r;
    };

    unsigned n_served_pool = 0, n_withheld = 0, n_served_recent = 0;
    int64_t elapsed = 0;
    const unsigned nops = s.range<unsigned>(4, 30);
    for (unsigned op = 0; op < nops && !s.exhausted(); ++op) {
        unsigned sel = s.range<unsigned>(0, 99);
        if (sel < 22) { // a peer submits a tx
            int q = int(s.index(npeers));
            auto r = new_tx(!s.chance(40));
            if (!r) continue;
            reg.push_back(*r);
            net.Queue(q, NetMsgType::TX, SerTx(*r->tx));
            for (int g = 0; g < 50; ++g) { bool more = net.ProcessOnce(q); scan_entries(); send_messages(q); if (!more) break; }
            st.note("peer", q, " submits tx#", reg.size() - 1, reg.back().entered ? " ->pool" : " ->rejected");
            st.cls(reg.back().entered ? "submit-accepted" : "submit-rejected"); st.mix(uint64_t(1 + (reg.back().entered ? 1 : 0)));
        } else if (sel < 30) { // local submission (wallet / RPC)
            auto r = new_tx(true);
            if (!r) continue;
            reg.push_back(*r);
            std::string err;
            auto res = node::BroadcastTransaction(sim.m_node, r->tx, err, /*max_tx_fee=*/0, node::TxBroadcast::MEMPOOL_AND_BROADCAST_TO_ALL, /*wait_callback=*/false);
            scan_entries();
            st.note("local submit tx#", reg.size() - 1, res == node::TransactionError::OK ? " ok" : " failed"); st.cls("local-submit"); st.mix(uint64_t(3));
        } else if (sel < 62) { // getdata from a peer
            int p = int(s.index(npeers));
            if (net.Disconnected(p)) continue;
            std::vector<CInv> invs;
            unsigned k = 1 + s.range<unsigned>(0, 3);
            for (unsigned i = 0; i < k; ++i) {
                unsigned ty = s.range<unsigned>(0, 2);
                uint32_t invtype = ty == 0 ? MSG_WTX : ty == 1 ? MSG_TX : MSG_WITNESS_TX;
                if (!reg.empty() && !s.chance(24)) {
                    // prefer the most recent entries (the interesting boundary)
                    size_t j = s.chance(150) ? reg.size() - 1 - s.index(std::min<size_t>(reg.size(), 3)) : s.index(reg.size());
                    invs.emplace_back(invtype, invtype == MSG_WTX ? reg[j].tx->GetWitnessHash().ToUint256() : reg[j].tx->GetHash().ToUint256());
                } else {
                    invs.emplace_back(invtype, uint256{uint8_t(0xa0 + op)});
                }
            }
            const uint64_t ls = last_send[p];
            net.Queue(p, NetMsgType::GETDATA, SerInvs(invs));
            size_t mark = net.Mark();
            process_all(p);
            std::set<uint256> served;
            for (const SentMsg* m : net.SentSince(mark, p, NetMsgType::TX)) {
                CTransactionRef t = NetSim::DecodeTx(*m);
                const Rec* rec = nullptr;
                for (auto& r : reg) if (r.tx->GetHash() == t->GetHash()) rec = &r;
                st.steps++;
                VCHECK(rec != nullptr, "c39.served-unknown-tx", "node served a transaction the harness never created");
                served.insert(rec->tx->GetHash().ToUint256());
                bool by_sequence = rec->entered != 0 && rec->entered < ls;
                bool by_block = rec->in_recent_block;
                VCHECK(by_sequence || by_block, "c39.getdata-privacy",
                       "tx served to a peer although it entered the pool after the node last ran SendMessages for that peer and is not in the most recent block:",
                       "entered", rec->entered, "last_send", ls, "confirmed", rec->confirmed, "peer", p);
                if (by_block) { n_served_recent++; st.cls("served-recent-block"); } else { n_served_pool++; st.cls("served-pool-tx"); }
            }
            for (auto& inv : invs) {
                for (auto& r : reg) {
                    bool match = inv.IsMsgWtx() ? r.tx->GetWitnessHash().ToUint256() == inv.hash : r.tx->GetHash().ToUint256() == inv.hash;
                    if (match && r.entered && !r.confirmed && sim.mempool().exists(r.tx->GetWitnessHash()) && !served.count(r.tx->GetHash().ToUint256())) { n_withheld++; st.cls("withheld-pool-tx"); }
                    if (match && r.confirmed && !r.in_recent_block && !served.count(r.tx->GetHash().ToUint256())) st.cls("notfound-old-confirmed");
                }
            }
            send_messages(p);
            st.note("getdata x", k, " from peer", p, " served=", served.size()); st.mix(uint64_t(10 + served.size()));
        } else if (sel < 76) { // SendMessages for one peer (trickle opportunity)
            int p = int(s.index(npeers));
            process_all(p);
            send_messages(p);
            st.note("tick peer", p); st.mix(uint64_t(20));
        } else if (sel < 86) { // time passes
            int64_t d = s.pick<int64_t>({1, 2, 5, 10, 30});
            if (elapsed + d > 300) continue;
            elapsed += d;
            net.Advance(d);
            st.note("advance ", d, "s"); st.mix(uint64_t(21));
        } else if (sel < 90) { // BIP35 mempool request (only where it is allowed, otherwise it is a protocol disconnect)
            int p = int(s.index(npeers));
            const PeerSpec& ps = net.Spec(p);
            bool allowed = (ps.our_services & NODE_BLOOM) || (uint32_t(ps.perms) & uint32_t(NetPermissionFlags::Mempool)) == uint32_t(NetPermissionFlags::Mempool);
            if (!allowed || net.Disconnected(p)) continue;
            net.Queue(p, NetMsgType::MEMPOOL, {});
            process_all(p);
            send_messages(p);
            st.note("mempool request from peer", p); st.cls("bip35"); st.mix(uint64_t(22));
        } else if (sel < 93) { // feefilter: announcements are filtered, the announcement sequence still advances
            int p = int(s.index(npeers));
            if (net.Disconnected(p)) continue;
            DataStream ds; ds << CAmount(s.boolean() ? 100000000 : 1000);
            net.Queue(p, NetMsgType::FEEFILTER, std::vector<uint8_t>(UCharCast(ds.data()), UCharCast(ds.data()) + ds.size()));
            process_all(p);
            st.note("feefilter from peer", p); st.cls("feefilter"); st.mix(uint64_t(23));
        } else { // a block mined from (part of) the pool
            BlockSpec spec;
            spec.prev = sim.TipHash();
            spec.extra_nonce = op + 1;
            std::set<uint256> included;
            for (auto& r : reg) {
                if (!r.entered || r.confirmed || !sim.mempool().exists(r.tx->GetWitnessHash())) continue;
                // parent must be confirmed or included before
                const COutPoint& po = r.tx->vin[0].prevout;
                bool parent_ok = true;
                for (auto& o : reg) if (o.tx->GetHash() == po.hash && !o.confirmed && !included.count(o.tx->GetHash().ToUint256())) parent_ok = false;
                if (!parent_ok || !s.chance(170)) continue;
                spec.txs.push_back(r.tx);
                spec.fees += r.fee;
                included.insert(r.tx->GetHash().ToUint256());
            }
            auto b = sim.Build(spec);
            auto d = sim.Deliver(b);
            bool ok = d.processed && sim.TipHash() == b->GetHash();
            VCHECK(ok, "c39.harness-block", "harness-built block was not accepted", d.verdict ? StateStr(*d.verdict) : "");
            for (auto& r : reg) { r.in_recent_block = false; if (included.count(r.tx->GetHash().ToUint256())) { r.confirmed = true; r.in_recent_block = true; } }
            scan_entries();
            st.note("block with ", included.size(), " pool txs"); st.cls("block"); st.mix(uint64_t(30 + std::min<size_t>(included.size(), 3)));
        }
    }
    st.nontrivial = n_served_pool >= 1 && n_withheld >= 1;
    st.note("served pool=", n_served_pool, " recent-block=", n_served_recent, " withheld=", n_withheld);
}

// =====================================================================================================================
VERIF_TARGET(c39_privbroadcast, nullptr, 40, 500,
             "regtest node with 1-2 ordinary tx-relay peers; <=24 ops: private submission (BroadcastTransaction NO_MEMPOOL_PRIVATE_BROADCAST) of valid txs, opening a "
             "private-broadcast connection (handshake), its getdata (right txid / wrong hash / two items / by wtxid), pong with the ping nonce or a wrong one, "
             "ordinary peers probing for the private tx by txid and wtxid, an ordinary peer sending the tx back, normal re-submission, ticks and time steps. "
             "Checks: a private tx is never in the pool and never appears in an inv/tx to a non-private connection until received back / re-submitted; per private "
             "connection at most one inv item and one tx, the tx only after the getdata for it. non-trivial = a complete private send (inv, getdata, tx, pong) "
             "and at least one probe answered with notfound; distinct = op kinds + outcomes")
{
    auto simp = std::make_unique<ChainSim>(ChainSimOpts{});
    ChainSim& sim = *simp;
    sim.LoadBase(112);
    NetSimOpts no;
    no.rng_seed = s.range<uint64_t>(0, 255);
    NetSim net(sim, no);
    auto mature = MatureCoins(sim);
    size_t next_coin = 0;

    struct PTx { CTransactionRef tx; bool is_private{false}; bool ever_private{false}; };
    std::vector<PTx> txs;
    struct PBConn { int peer{-1}; int announced{-1}; unsigned requests{0}; unsigned inv_items{0}; unsigned tx_msgs{0}; std::optional<uint64_t> ping_nonce; bool done{false}; };
    std::vector<PBConn> pbs;
    std::vector<int> normal;
    const unsigned nnormal = 1 + (s.chance(100) ? 1 : 0);
    for (unsigned i = 0; i < nnormal; ++i) {
        PeerSpec ps;
        ps.conn = s.pick<ConnectionType>({ConnectionType::INBOUND, ConnectionType::OUTBOUND_FULL_RELAY});
        ps.wtxidrelay = !s.chance(64);
        int p = net.AddPeer(ps);
        bool ok = net.Handshake(p);
        assert(ok);
        normal.push_back(p);
    }
    size_t checked_upto = net.Mark();
    unsigned full_cycles = 0, probes_notfound = 0;

    auto find_tx = [&](const uint256& h) -> int { for (size_t i = 0; i < txs.size(); ++i) if (txs[i].tx->GetHash().ToUint256() == h || txs[i].tx->GetWitnessHash().ToUint256() == h) return int(i); return -1; };
    auto is_pb_peer = [&](int p) { return net.Spec(p).conn == ConnectionType::PRIVATE_BROADCAST; };

    // inspect everything the node sent since the last call
    auto audit = [&](const char* where) {
        for (const SentMsg* m : net.SentSince(checked_upto)) {
            if (m->peer < 0) continue;
            if (!is_pb_peer(m->peer)) {
                if (m->type == NetMsgType::INV) {
                    for (const CInv& inv : NetSim::DecodeInvs(*m)) {
                        int i = inv.IsGenTxMsg() ? find_tx(inv.hash) : -1;
                        st.steps++;
                        VCHECK(i < 0 || !txs[i].is_private, "c39.private-tx-announced", "privately submitted tx announced to an ordinary connection", where);
                    }
                } else if (m->type == NetMsgType::TX) {
                    CTransactionRef t = NetSim::DecodeTx(*m);
                    int i = find_tx(t->GetHash().ToUint256());
                    st.steps++;
                    VCHECK(i < 0 || !txs[i].is_private, "c39.private-tx-served", "privately submitted tx sent to an ordinary connection", where);
                } else if (m->type == NetMsgType::NOTFOUND) {
                    for (const CInv& inv : NetSim::DecodeInvs(*m)) { int i = find_tx(inv.hash); if (i >= 0 && txs[i].is_private) { probes_notfound++; st.cls("probe-notfound"); } }
                }
            } else {
                PBConn* c = nullptr;
                for (auto& x : pbs) if (x.peer == m->peer) c = &x;
                if (!c) continue;
                if (m->type == NetMsgType::INV) {
                    auto invs = NetSim::DecodeInvs(*m);
                    c->inv_items += invs.size();
                    st.steps++;
                    VCHECK(c->inv_items <= 1, "c39.pb-more-than-one-inv", "more than one transaction announced on a private-broadcast connection");
                    for (auto& inv : invs) {
                        int i = find_tx(inv.hash);
                        VCHECK(i >= 0 && txs[i].ever_private, "c39.pb-foreign-inv", "private-broadcast connection announced something that was not privately submitted");
                        c->announced = i;
                    }
                } else if (m->type == NetMsgType::TX) {
                    CTransactionRef t = NetSim::DecodeTx(*m);
                    c->tx_msgs++;
                    st.steps++;
                    // one transaction per connection, and only in answer to a request for it (a repeated request may be answered again)
                    VCHECK(c->tx_msgs <= c->requests, "c39.pb-unsolicited-tx", "transaction pushed on a private-broadcast connection without a getdata for it", c->tx_msgs, c->requests);
                    VCHECK(c->announced >= 0 && txs[c->announced].tx->GetWitnessHash() == t->GetWitnessHash(), "c39.pb-wrong-tx", "private-broadcast connection sent a transaction other than the announced one");
                } else if (m->type == NetMsgType::PING && m->payload.size() == 8) {
                    uint64_t n; memcpy(&n, m->payload.data(), 8); c->ping_nonce = n;
                } else {
                    st.cls("pb-other-message:" + m->type);
                }
            }
        }
        checked_upto = net.Mark();
        for (auto& t : txs) if (t.is_private) { st.steps++; VCHECK(!sim.mempool().exists(t.tx->GetHash()), "c39.private-tx-in-pool", "privately submitted tx is in the mempool", where); }
    };

    int64_t elapsed = 0;
    const unsigned nops = s.range<unsigned>(3, 24);
    for (unsigned op = 0; op < nops && !s.exhausted(); ++op) {
        unsigned sel = s.range<unsigned>(0, 99);
        {
            // steer towards complete flows: no point in opening a private connection when nothing is pending; prefer to continue a flow in progress
            bool any_private = false;
            for (auto& t : txs) any_private |= t.is_private;
            if (sel >= 18 && sel < 38 && !any_private && !s.chance(40)) sel = 0;
            bool conn_waiting = false, conn_pinged = false;
            for (auto& x : pbs) if (!net.Disconnected(x.peer)) { conn_waiting |= x.announced >= 0 && x.requests == 0; conn_pinged |= x.ping_nonce.has_value(); }
            if (conn_pinged && s.chance(120)) sel = 60;       // pong
            else if (conn_waiting && s.chance(120)) sel = 40; // getdata
        }
        if (sel < 18) { // private submission
            if (next_coin >= mature.size()) continue;
            auto in = mature[next_coin++];
            CTransactionRef tx = MakeTransactionRef(sim.MakeTx({in}, {CTxOut(in.second.value - 30000, P2WSH_OP_TRUE)}));
            std::string err;
            auto res = node::BroadcastTransaction(sim.m_node, tx, err, 0, node::TxBroadcast::NO_MEMPOOL_PRIVATE_BROADCAST, false);
            VCHECK(res == node::TransactionError::OK, "c39.harness-private-submit", "private submission of a valid tx failed", err);
            txs.push_back(PTx{tx, true, true});
            st.note("private submit tx#", txs.size() - 1); st.cls("private-submit"); st.mix(uint64_t(1));
        } else if (sel < 38) { // open a private-broadcast connection
            PeerSpec ps;
            ps.conn = ConnectionType::PRIVATE_BROADCAST;
            ps.addr = s.boolean() ? AddrKind::ONION : AddrKind::ROUTABLE_V4;
            ps.auto_pong = false;
            ps.wtxidrelay = false;
            ps.relay_txs = !s.chance(24);
            int p = net.AddPeer(ps);
            PBConn pc; pc.peer = p;
            pbs.push_back(pc);
            bool ok = net.Handshake(p);
            st.note("private connection peer", p, ok ? " up" : " closed at handshake"); st.cls(ok ? "pb-conn-up" : "pb-conn-closed-early"); st.mix(uint64_t(2 + ok));
        } else if (sel < 58) { // a private connection requests
            std::vector<PBConn*> c;
            for (auto& x : pbs) if (!net.Disconnected(x.peer)) c.push_back(&x);
            if (c.empty()) continue;
            PBConn& x = *c[s.index(c.size())];
            audit("pre-getdata");
            unsigned how = s.range<unsigned>(0, 9);
            std::vector<CInv> invs;
            if (x.announced >= 0 && how <= 6) { invs.emplace_back(MSG_TX, txs[x.announced].tx->GetHash().ToUint256()); x.requests++; }
            else if (x.announced >= 0 && how == 7) { invs.emplace_back(MSG_WTX, txs[x.announced].tx->GetWitnessHash().ToUint256()); }
            else if (x.announced >= 0 && how == 8) { invs.emplace_back(MSG_TX, txs[x.announced].tx->GetHash().ToUint256()); invs.emplace_back(MSG_TX, uint256{0x31}); }
            else invs.emplace_back(MSG_TX, uint256{0x32});
            net.Send(x.peer, NetMsgType::GETDATA, invs);
            st.note("private peer", x.peer, " getdata kind ", how); st.cls(how <= 6 ? "pb-getdata-right" : "pb-getdata-wrong"); st.mix(uint64_t(10 + std::min(how, 7u)));
        } else if (sel < 70) { // pong on a private connection
            std::vector<PBConn*> c;
            for (auto& x : pbs) if (!net.Disconnected(x.peer) && x.ping_nonce) c.push_back(&x);
            if (c.empty()) continue;
            PBConn& x = *c[s.index(c.size())];
            bool right = !s.chance(48);
            net.Send(x.peer, NetMsgType::PONG, uint64_t(right ? *x.ping_nonce : *x.ping_nonce + 1));
            if (right && x.tx_msgs >= 1) { full_cycles++; x.done = true; st.cls("pb-full-cycle"); }
            st.note("private peer", x.peer, right ? " pong" : " wrong pong"); st.mix(uint64_t(20 + right));
        } else if (sel < 84) { // an ordinary peer probes for a private tx
            if (txs.empty()) continue;
            int p = normal[s.index(normal.size())];
            const PTx& t = txs[s.index(txs.size())];
            unsigned ty = s.range<unsigned>(0, 2);
            std::vector<CInv> invs{CInv(ty == 0 ? MSG_WTX : ty == 1 ? MSG_TX : MSG_WITNESS_TX, ty == 0 ? t.tx->GetWitnessHash().ToUint256() : t.tx->GetHash().ToUint256())};
            net.Send(p, NetMsgType::GETDATA, invs);
            st.note("ordinary peer", p, " probes"); st.cls("probe"); st.mix(uint64_t(30 + ty));
        } else if (sel < 89) { // received back from the network
            std::vector<size_t> c;
            for (size_t i = 0; i < txs.size(); ++i) if (txs[i].is_private) c.push_back(i);
            if (c.empty()) continue;
            size_t i = c[s.index(c.size())];
            audit("pre-receive-back");
            txs[i].is_private = false; // from here on it is an ordinary transaction
            net.SendRaw(normal[s.index(normal.size())], NetMsgType::TX, SerTx(*txs[i].tx));
            st.note("tx#", i, " received back"); st.cls("received-back"); st.mix(uint64_t(40));
        } else if (sel < 92) { // submitted again without private broadcast
            std::vector<size_t> c;
            for (size_t i = 0; i < txs.size(); ++i) if (txs[i].is_private) c.push_back(i);
            if (c.empty()) continue;
            size_t i = c[s.index(c.size())];
            audit("pre-resubmit");
            txs[i].is_private = false;
            std::string err;
            (void)node::BroadcastTransaction(sim.m_node, txs[i].tx, err, 0, node::TxBroadcast::MEMPOOL_AND_BROADCAST_TO_ALL, false);
            st.note("tx#", i, " resubmitted normally"); st.cls("resubmitted"); st.mix(uint64_t(41));
        } else { // time / ticks
            int64_t d = s.pick<int64_t>({0, 1, 5, 20, 61});
            if (elapsed + d <= 170) { elapsed += d; net.Advance(d); }
            st.note("advance ", d, "s + tick"); st.mix(uint64_t(50));
        }
        net.TickAll();
        audit("after-op");
    }
    st.nontrivial = full_cycles >= 1 && probes_notfound >= 1;
    st.note("full cycles=", full_cycles, " probes answered notfound=", probes_notfound);
}

// =====================================================================================================================
namespace {
CTransactionRef TinyTx(uint32_t n)
{
    CMutableTransaction m;
    m.version = 2;
    m.vin.emplace_back(COutPoint(Txid::FromUint256(uint256{uint8_t(n & 0xff)}), n), CScript(), 0xffffffff);
    m.vout.emplace_back(CAmount(1000 + n), CScript() << OP_TRUE);
    m.nLockTime = n;
    return MakeTransactionRef(m);
}
} // namespace

VERIF_TARGET(c39_pb_object, nullptr, 16, 300,
             "PrivateBroadcast(max_transactions 1-6, max_send_attempts 1-5) driven by <=120 ops Add / Remove / PickTxForSend / NodeConfirmedReception / time "
             "steps over 8 candidate txs, against a reference model: queue size <= cap and == model, Add results, a picked tx is queued and had attempts left, "
             "picks happen whenever something is pending, sends per tx since the last (re-)add <= cap. non-trivial = QueueFull "
             "hit and a tx exhausted then re-added; distinct = caps + op kinds")
{
    const size_t cap_tx = s.range<size_t>(1, 6), cap_send = s.range<size_t>(1, 5);
    PrivateBroadcast pb(cap_tx, cap_send);
    int64_t now = 1700000000;
    SetMockTime(std::chrono::seconds{now});
    struct M { std::vector<std::pair<NodeId, std::optional<int64_t>>> sends; int64_t added; };
    std::map<uint32_t, M> model; // tx number -> state
    std::vector<CTransactionRef> cand;
    for (uint32_t i = 0; i < 8; ++i) cand.push_back(TinyTx(i));
    NodeId next_node = 1;
    bool hit_full = false, readded = false;
    st.mix(uint64_t(cap_tx * 8 + cap_send));
    const unsigned nops = s.range<unsigned>(4, 120);
    for (unsigned op = 0; op < nops && !s.exhausted(); ++op) {
        unsigned kind = s.range<unsigned>(0, 9);
        if (kind <= 2) {
            uint32_t i = uint32_t(s.index(cand.size()));
            auto res = pb.Add(cand[i]);
            auto it = model.find(i);
            PrivateBroadcast::AddResult want;
            if (it != model.end()) {
                if (it->second.sends.size() < cap_send) want = PrivateBroadcast::AddResult::AlreadyPresent;
                else { want = PrivateBroadcast::AddResult::Added; it->second.sends.clear(); it->second.added = now; readded = true; st.cls("re-added-after-exhaustion"); }
            } else if (model.size() >= cap_tx) { want = PrivateBroadcast::AddResult::QueueFull; hit_full = true; st.cls("queue-full"); }
            else { want = PrivateBroadcast::AddResult::Added; model[i] = M{{}, now}; }
            st.steps++;
            VCHECK(res == want, "c39.pb-add-result", "Add result differs from the model", int(res), int(want));
            st.note("add ", i, "->", int(res)); st.mix(uint64_t(1));
        } else if (kind == 3) {
            uint32_t i = uint32_t(s.index(cand.size()));
            auto res = pb.Remove(cand[i]);
            auto it = model.find(i);
            st.steps++;
            if (it == model.end()) VCHECK(!res.has_value(), "c39.pb-remove", "Remove of an absent tx returned a value");
            else {
                size_t conf = 0; for (auto& sd : it->second.sends) conf += sd.second.has_value();
                VCHECK(res.has_value() && *res == conf, "c39.pb-remove", "Remove returned the wrong confirmation count");
                model.erase(it);
            }
            st.note("remove ", i); st.mix(uint64_t(2));
        } else if (kind <= 6) {
            NodeId nid = next_node++;
            auto res = pb.PickTxForSend(nid, CService{});
            bool any_pending = false;
            for (auto& [i, m] : model) any_pending |= m.sends.size() < cap_send;
            st.steps++;
            VCHECK(res.has_value() == any_pending, "c39.pb-pick-availability", "PickTxForSend availability differs from the model", res.has_value(), any_pending);
            if (res) {
                int found = -1;
                for (uint32_t i = 0; i < cand.size(); ++i) if (cand[i]->GetWitnessHash() == (*res)->GetWitnessHash()) found = int(i);
                VCHECK(found >= 0 && model.count(uint32_t(found)), "c39.pb-pick-not-queued", "picked a tx that is not in the queue");
                M& m = model[uint32_t(found)];
                VCHECK(m.sends.size() < cap_send, "c39.pb-send-cap", "a tx was picked for sending although its send attempts were exhausted", m.sends.size(), cap_send);
                // documented priority: fewest send attempts first
                for (auto& [i, o] : model) if (o.sends.size() < cap_send) VCHECK(m.sends.size() <= o.sends.size(), "c39.pb-priority", "picked tx does not have the fewest send attempts");
                m.sends.emplace_back(nid, std::nullopt);
                auto back = pb.GetTxForNode(nid);
                VCHECK(back && (*back)->GetWitnessHash() == (*res)->GetWitnessHash(), "c39.pb-node-map", "GetTxForNode does not return the tx picked for the node");
                st.cls("picked");
            }
            st.note("pick node ", nid, res ? " ok" : " none"); st.mix(uint64_t(3 + res.has_value()));
        } else if (kind == 7) {
            if (next_node <= 1) continue;
            NodeId nid = 1 + NodeId(s.index(size_t(next_node - 1)));
            pb.NodeConfirmedReception(nid);
            bool known = false;
            for (auto& [i, m] : model) for (auto& sd : m.sends) if (sd.first == nid) { sd.second = now; known = true; }
            st.steps++;
            VCHECK(pb.DidNodeConfirmReception(nid) == known, "c39.pb-confirm", "DidNodeConfirmReception differs from the model");
            st.note("confirm node ", nid); st.mix(uint64_t(5));
        } else {
            now += s.pick<int64_t>({1, 30, 61, 200, 301});
            SetMockTime(std::chrono::seconds{now});
            st.mix(uint64_t(6));
        }
        // invariants
        auto info = pb.GetBroadcastInfo();
        st.steps++;
        VCHECK(info.size() <= cap_tx, "c39.pb-queue-cap", "queue larger than its cap", info.size(), cap_tx);
        VCHECK(info.size() == model.size(), "c39.pb-queue-size", "queue size differs from the model", info.size(), model.size());
        bool any_pending = false;
        for (auto& e : info) {
            int found = -1;
            for (uint32_t i = 0; i < cand.size(); ++i) if (cand[i]->GetWitnessHash() == e.tx->GetWitnessHash()) found = int(i);
            VCHECK(found >= 0 && model.count(uint32_t(found)), "c39.pb-queue-content", "queue holds a tx the model does not");
            const M& m = model[uint32_t(found)];
            VCHECK(e.peers.size() == m.sends.size() && e.peers.size() <= cap_send, "c39.pb-send-count", "send count differs from the model or exceeds the cap", e.peers.size(), m.sends.size());
            VCHECK(e.attempts_remaining == cap_send - m.sends.size(), "c39.pb-attempts-remaining", "attempts_remaining differs from the model");
            any_pending |= m.sends.size() < cap_send;
        }
        VCHECK(pb.HavePendingTransactions() == any_pending, "c39.pb-have-pending", "HavePendingTransactions differs from the model");
    }
    SetMockTime(0s);
    st.nontrivial = hit_full && readded;
}

VERIF_TARGET(c39_pb_limits, nullptr, 0, 8, "the default caps: 10,000 queued transactions (the 10,001st Add is refused), 1,000 send attempts per tx (the 1,001st pick fails until re-added)")
{
    verif::set_enum_total(1);
    if (verif::enum_index() > 0) return;
    SetMockTime(std::chrono::seconds{1700000000});
    {
        PrivateBroadcast pb;
        for (uint32_t i = 0; i < 10000; ++i) {
            auto r = pb.Add(TinyTx(i));
            VCHECK(r == PrivateBroadcast::AddResult::Added, "c39.limits-add", "Add below the cap refused at", i);
        }
        st.steps++;
        VCHECK(pb.Add(TinyTx(10000)) == PrivateBroadcast::AddResult::QueueFull, "c39.limits-queue-cap", "the 10,001st transaction was accepted");
        VCHECK(pb.GetBroadcastInfo().size() == 10000, "c39.limits-queue-cap", "queue size is not 10,000");
        VCHECK(pb.Remove(TinyTx(5)).has_value(), "c39.limits-remove", "remove failed");
        VCHECK(pb.Add(TinyTx(10000)) == PrivateBroadcast::AddResult::Added, "c39.limits-add", "Add after Remove refused");
        VCHECK(pb.Add(TinyTx(10001)) == PrivateBroadcast::AddResult::QueueFull, "c39.limits-queue-cap", "queue grew beyond 10,000");
    }
    {
        PrivateBroadcast pb;
        CTransactionRef t = TinyTx(7);
        VCHECK(pb.Add(t) == PrivateBroadcast::AddResult::Added, "c39.limits-add", "Add refused");
        for (NodeId n = 0; n < 1000; ++n) {
            auto r = pb.PickTxForSend(n, CService{});
            VCHECK(r.has_value(), "c39.limits-pick", "pick refused before 1,000 sends at", n);
        }
        st.steps++;
        VCHECK(!pb.PickTxForSend(1000, CService{}).has_value(), "c39.limits-send-cap", "a transaction was sent more than 1,000 times without being re-added");
        VCHECK(!pb.HavePendingTransactions(), "c39.limits-send-cap", "exhausted tx still pending");
        VCHECK(pb.Add(t) == PrivateBroadcast::AddResult::Added, "c39.limits-readd", "re-adding an exhausted tx did not reset it");
        VCHECK(pb.PickTxForSend(1001, CService{}).has_value(), "c39.limits-readd", "re-added tx not sendable");
    }
    SetMockTime(0s);
    st.nontrivial = true;
    st.cls("default-caps");
    st.note("10000/1000 default caps checked");
}
