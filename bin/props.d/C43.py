# C43: canonical-dump round trip over clean restarts (E1) + crash images of the wallet directory with record-level atomic-group oracle (E3).
SPEC = {
    'level': 'fault_enumeration',
    'assumptions': [
        'descriptor wallets on SQLite attached to an in-process regtest node; legacy-wallet migration is excluded by the statement',
        'clean-restart clause: the canonical dump is taken from the in-memory wallet through public members after TopUpKeyPool() (the wallet tops up when it is loaded) and '
        'with the node mempool unchanged across the restart; memory-only coin locks are documented not to survive',
        'coin locks follow the lockunspent contract: a non-persistent lock request for an already locked coin and an unlock of a coin that is not locked are refused by the RPC and not generated; re-locking with persistence is generated (main histories and the dense target c43_lockcoins)',
        'atomic groups checked on crash images are the database transactions the statement lists, recognised on record level: descriptor setup (all rows of newly generated '
        'descriptors + active-descriptor pointers; at wallet creation with a generated seed and after encryption), encryption (master key + every private-key row of the '
        'existing descriptors), keypool top-up (per descriptor: cache rows + range), RemoveTxs, address-book removal; importdescriptors-equivalents are not one transaction in this code base',
        'crash fault model as the statement: kill = all recorded file operations before the cut; power loss = ordered suffix of unsynced writes dropped (optionally torn at 512 bytes); '
        'metadata operations durable in order; production SQLite durability (synchronous=FULL); recorder self-checked per workload',
        'a cut before the database file of a wallet under creation is complete yields no wallet at all (class creation-incomplete), not a failure',
    ],
    'stages': [
        gen('vh_c43', 'c43_wallet_persist', 224, 4000, min_cases_quick=32, max_seconds_quick=300,
            floors={'restart-with-transactions': 0.4, 'op:send': 0.15, 'op:removetxs': 0.01, 'op:deladdr': 0.03, 'op:lockcoin': 0.15, 'op:import': 0.15, 'encrypted': 0.1},
            rule='wallet histories ending with a restart; canonical dump before == after; non-trivial = restart with >=1 wallet transaction, >=5 mutating ops of >=4 kinds; distinct = op-kind sequence'),
        gen('vh_c43', 'c43_lockcoins', 192, 4000, min_cases_quick=32, max_seconds_quick=150,
            floors={'restart': 0.4, 'relock': 0.2},
            rule='lock/unlock/re-lock/restart sequences over 3 outpoints against the model of the lockunspent documentation; non-trivial = restart with a persistent lock + >=1 unlock'),
        custom('bin/crashsim/c43_worker.py', 96, 3200, name='c43_crash_images', needs=[('san', 'vh_c43')],
               min_cases_quick=8, floors={'cut-inside-atomic-group': 0.1, 'image-loaded': 0.5},
               hard_timeout_quick=2400, max_seconds_quick=300, max_seconds_thorough=5400,
               rule='1 recorded wallet workload per worker (6 in thorough) incl. wallet creation; two thirds of the cuts inside operations the statement lists as one database '
                    'transaction; kill + power-loss images; oracle: database opens, every atomic group of the interrupted operation is entirely as in the snapshot before or after, '
                    'LoadExisting succeeds; non-trivial = an atomic group with >=2 changed rows was judged; distinct = (workload, cut index, mode)'),
    ],
}

META = {
    'engine': 'E1 choice-sequence driver (c43_wallet_persist, c43_lockcoins) + E3 crash-image enumeration with a record-level atomic-group oracle',
    'level_text': 'Generated wallet histories (addresses, receives, sends, blocks, labels, coin locks, imports, flags, transaction removal, encryption, top-ups, reorgs) on a real '
                  'on-disk SQLite wallet; at every clean restart a canonical dump of everything the wallet records must be unchanged. Crash clause by fault enumeration: recorded '
                  'workloads with production durability; every sampled kill / power-loss image must open and load, and each database transaction the statement lists must be '
                  'entirely present or entirely absent on record level (snapshots before/after the operation). Not exhaustive.',
    'technique': 'stateful property-based testing with a round-trip oracle (dump == dump after reload) and a model of coin locks + fault injection by crash-image enumeration',
    'level_note': 'ordered-metadata journal assumption; syscall-granularity cuts; strace-based recorder self-checked per workload; descriptor wallets only',
}
