#!/usr/bin/env python3
"""C49 -- cryptographic primitives compute the standard functions (engine E2).

C++ (through sutd) vs hashlib / hmac / test_framework.crypto.{ripemd160,siphash,chacha20,poly1305,hkdf,bip324_cipher,muhash}
and the byte-wise FIPS-197 reference in ref_aes.py. One example = one primitive invocation family:

  hash       digest of a message (length biased to block boundaries) written in arbitrary pieces, optionally after junk+Reset(),
             under EVERY selectable SHA-256 backend (SHA256AutoDetect masks) for the SHA-256 based ones
  splits     every one of the 2^(n-1) chunkings of an n-byte tail (n <= 9) after a prefix that ends near a block boundary
  d64        SHA256D64 on 1..20 blocks (8/4/2/1-way batch paths) under every backend
  hmac hkdf siphash chacha20 fschacha20 poly1305 aead fsaead aes aescbc muhash
Non-trivial = the message/plaintext is non-empty (plus, for AEAD kinds, every tampering counts). Shape = kind + algorithm +
lengths + chunking/backends + tamper kind.
"""
import hashlib
import hmac as pyhmac

from hypothesis import strategies as st

import e2
import ref_aes
from test_framework.crypto import bip324_cipher, chacha20 as ref_chacha, hkdf as ref_hkdf, muhash as ref_muhash, poly1305 as ref_poly, \
    ripemd160 as ref_ripemd, siphash as ref_sip

MASKS = [0, 1, 3, 5]               # distinct effective backends: standard / sse4+sse41 / +avx2 / shani (see sha256.cpp)
U64 = (1 << 64) - 1

# ----------------------------------------------------------------------------------------------------------------
# strategies

def near(blocks, spread=9, maxmul=33):
    return st.builds(lambda b, k, d: max(0, b * k + d), st.sampled_from(blocks), st.integers(0, maxmul), st.integers(-spread, spread))


def lengths(maxlen, blocks=(64, 128, 136, 16)):
    return st.one_of(st.integers(0, 80), near(list(blocks)).filter(lambda n: n <= maxlen), st.integers(0, maxlen))


@st.composite
def message(draw, maxlen=2100, blocks=(64, 128, 136, 16)):
    n = draw(lengths(maxlen, blocks))
    kind = draw(st.sampled_from(["rand", "rand", "rand", "zero", "ff", "seeded"]))
    if n > 300 and kind == "rand":
        kind = "seeded"
    if kind == "rand":
        return draw(st.binary(min_size=n, max_size=n))
    if kind == "zero":
        return bytes(n)
    if kind == "ff":
        return b"\xff" * n
    return hashlib.shake_256(draw(st.binary(min_size=4, max_size=4))).digest(n)


@st.composite
def pieces(draw, n):
    """piece sizes for streaming writes (may contain zeros and may stop early: the remainder is written last)"""
    k = draw(st.integers(0, 6))
    out, left = [], n
    for _ in range(k):
        x = draw(st.one_of(st.integers(0, min(left, 70)), st.integers(0, left)))
        out.append(x)
        left -= x
    return out


u64s = st.one_of(st.sampled_from([0, 1, U64, 1 << 63, (1 << 63) - 1, 0xffffffff, 1 << 32]), st.integers(0, U64))
key32 = st.one_of(st.binary(min_size=32, max_size=32), st.sampled_from([bytes(32), b"\xff" * 32]))
nonce12 = st.one_of(st.binary(min_size=12, max_size=12), st.sampled_from([bytes(12), b"\xff" * 12]))
HASH_ALGS = ["sha256", "sha512", "sha1", "ripemd160", "sha3_256", "hash256", "hash160"]


@st.composite
def k_hash(draw):
    alg = draw(st.sampled_from(HASH_ALGS))
    data = draw(message())
    ex = {"kind": "hash", "alg": alg, "data": data, "chunks": draw(pieces(len(data)))}
    if draw(st.integers(0, 3)) == 0:
        ex["junk"] = draw(message(200))
    return ex


@st.composite
def k_splits(draw):
    alg = draw(st.sampled_from(HASH_ALGS + ["hmac_sha256", "hmac_sha512", "poly1305", "siphash"]))
    block = {"sha512": 128, "hmac_sha512": 128, "sha3_256": 136, "poly1305": 16, "siphash": 8}.get(alg, 64)
    n = draw(st.integers(1, 9))
    plen = max(0, block * draw(st.integers(0, 2)) - draw(st.integers(0, n + 9)))
    return {"kind": "splits", "alg": alg, "prefix": draw(st.binary(min_size=plen, max_size=plen)), "tail": draw(st.binary(min_size=n, max_size=n)),
            "key": draw(st.binary(min_size=32, max_size=32)), "mask": draw(st.sampled_from(MASKS))}


@st.composite
def k_d64(draw):
    k = draw(st.integers(1, 20))
    return {"kind": "d64", "data": draw(st.one_of(st.binary(min_size=64 * k, max_size=64 * k), st.just(bytes(64 * k)), st.just(b"\xff" * (64 * k))))}


@st.composite
def k_hmac(draw):
    alg = draw(st.sampled_from(["sha256", "sha512"]))
    klen = draw(st.one_of(st.integers(0, 40), near([64, 128], 3, 2), st.integers(0, 300)))
    data = draw(message(600))
    return {"kind": "hmac", "alg": alg, "key": draw(st.binary(min_size=klen, max_size=klen)), "data": data, "chunks": draw(pieces(len(data))),
            "mask": draw(st.sampled_from(MASKS))}


@st.composite
def k_hkdf(draw):
    return {"kind": "hkdf", "ikm": draw(st.binary(max_size=100)), "salt": draw(st.one_of(st.binary(max_size=80), near([64], 2, 2).flatmap(lambda n: st.binary(min_size=n, max_size=n)))),
            "info": draw(st.lists(st.binary(max_size=90), min_size=1, max_size=3)), "mask": draw(st.sampled_from(MASKS))}


@st.composite
def k_siphash(draw):
    mode = draw(st.sampled_from(["bytes", "bytes", "u64", "mixed", "u256", "u256extra"]))
    ex = {"kind": "siphash", "mode": mode, "k0": draw(u64s), "k1": draw(u64s)}
    if mode == "bytes":
        ex["data"] = draw(message(600, (8, 256)))
        ex["chunks"] = draw(pieces(len(ex["data"])))
    elif mode == "u64":
        ex["words"] = draw(st.lists(u64s, max_size=40))
    elif mode == "mixed":
        parts, total = [], 0
        for _ in range(draw(st.integers(0, 8))):
            if total % 8 == 0 and draw(st.booleans()):
                parts.append(["w", draw(u64s)])
                total += 8
            else:
                b = draw(st.binary(max_size=20))
                parts.append(["b", b])
                total += len(b)
        ex["parts"] = parts
    else:
        ex["val"] = draw(st.one_of(st.binary(min_size=32, max_size=32), st.just(bytes(32)), st.just(b"\xff" * 32)))
        if mode == "u256extra":
            ex["extra"] = draw(st.one_of(st.sampled_from([0, 1, 0xffffffff, 0x80000000]), st.integers(0, 0xffffffff)))
    return ex


@st.composite
def k_chacha20(draw):
    aligned = draw(st.integers(0, 4)) == 0
    steps, blocks = [], 0
    for _ in range(draw(st.integers(1, 6))):
        t = draw(st.sampled_from(["c", "c", "k", "seek"]))
        if t == "seek":
            steps.append(["seek", draw(nonce12), draw(counters)])
            continue
        n = draw(st.integers(0, 3)) * 64 if aligned else draw(st.one_of(st.integers(0, 70), near([64], 3, 4)))
        blocks += n // 64 + 1
        steps.append(["c", draw(st.binary(min_size=n, max_size=n))] if t == "c" else ["k", n])
    return {"kind": "chacha20", "key": draw(key32), "nonce": draw(nonce12), "counter": draw(counters), "steps": steps, "aligned": aligned}


# block counters: the 32-bit counter must not wrap (RFC 8439 leaves that undefined; the C++ carries into the nonce): stay 64 blocks clear
counters = st.one_of(st.sampled_from([0, 1, 0xffffffff - 64, 0x7fffffff, 0x80000000]), st.integers(0, 0xffffffff - 64))


@st.composite
def k_fschacha20(draw):
    interval = draw(st.sampled_from([1, 2, 3, 5, 224]))
    n = draw(st.integers(1, 2 * interval + 2 if interval < 224 else 8))
    return {"kind": "fschacha20", "key": draw(key32), "interval": interval,
            "chunks": [draw(st.binary(max_size=draw(st.sampled_from([3, 20, 70, 130])))) for _ in range(n)]}


@st.composite
def k_poly1305(draw):
    kk = draw(st.sampled_from(["rand", "rand", "r_max", "r_small", "s_max", "edge"]))
    key = draw(st.binary(min_size=32, max_size=32))
    if kk == "edge":
        # accumulator lands in [p, 2^130) before the final reduction (the RFC 8439 A.3 corner): r = 1 and two blocks whose
        # values (2^128 + m1) + (2^128 + m2) = 2^130 - 1 - k, k = 1..5 (k <= 4: >= p; k = 5: p - 1)
        k = draw(st.integers(1, 5))
        a = draw(st.integers(0, k - 1))
        m1, m2 = (1 << 128) - 1 - a, (1 << 128) + a - k
        data = m1.to_bytes(16, "little") + m2.to_bytes(16, "little")
        return {"kind": "poly1305", "key": b"\x01" + bytes(15) + key[16:], "data": data, "chunks": draw(pieces(len(data)))}
    if kk == "r_max":
        key = b"\xff" * 16 + key[16:]
    elif kk == "r_small":
        key = bytes([draw(st.integers(0, 3))]) + bytes(15) + key[16:]
    elif kk == "s_max":
        key = key[:16] + b"\xff" * 16
    data = draw(message(400, (16,)))
    return {"kind": "poly1305", "key": key, "data": data, "chunks": draw(pieces(len(data)))}


TAMPERS = ["none", "none", "cipher", "tag", "aad", "nonce", "key", "truncate", "extend"]


@st.composite
def k_aead(draw):
    plain = draw(message(300, (64, 16)))
    aad = draw(message(100, (16,)))
    return {"kind": "aead", "key": draw(key32), "nonce": draw(nonce12), "aad": aad, "plain": plain, "split": draw(st.one_of(st.none(), st.integers(0, len(plain)))),
            "tamper": draw(st.sampled_from(TAMPERS)), "bit": draw(st.integers(0, 1 << 30))}


@st.composite
def k_fsaead(draw):
    interval = draw(st.sampled_from([1, 2, 3, 5, 224]))
    n = draw(st.integers(1, 2 * interval + 2 if interval < 224 else 6))
    if interval == 224 and draw(st.integers(0, 9)) == 0:
        n = 226 + draw(st.integers(0, 4))
    pk = []
    for _ in range(n):
        m = draw(st.sampled_from([0, 1, 5, 33, 70])) if n < 50 else draw(st.sampled_from([0, 1, 3]))
        pk.append({"dec": draw(st.booleans()), "aad": draw(st.binary(max_size=20 if n < 50 else 2)), "plain": draw(st.binary(max_size=m)),
                   "split": draw(st.one_of(st.none(), st.integers(0, m))), "tamper": draw(st.sampled_from(["none", "none", "none", "cipher", "tag", "aad"])),
                   "bit": draw(st.integers(0, 1 << 20))})
    return {"kind": "fsaead", "key": draw(key32), "interval": interval, "packets": pk}


@st.composite
def k_aes(draw):
    return {"kind": "aes", "key": draw(key32), "block": draw(st.one_of(st.binary(min_size=16, max_size=16), st.just(bytes(16)))), "decrypt": draw(st.booleans())}


@st.composite
def k_aescbc(draw):
    pad = draw(st.booleans())
    mode = draw(st.sampled_from(["enc", "roundtrip", "dec_random", "dec_badpad"]))
    if mode in ("dec_random",):
        n = 16 * draw(st.integers(1, 5)) if draw(st.integers(0, 5)) else draw(st.integers(1, 80))
    elif pad or mode == "dec_badpad":
        n = draw(st.one_of(st.integers(1, 50), st.integers(1, 5).map(lambda k: 16 * k), near([16], 2, 6).filter(lambda x: x >= 1)))
    else:
        n = 16 * draw(st.integers(1, 6)) if draw(st.integers(0, 5)) else draw(st.integers(1, 80))
    return {"kind": "aescbc", "key": draw(key32), "iv": draw(st.binary(min_size=16, max_size=16)), "pad": pad, "mode": mode,
            "data": draw(st.binary(min_size=n, max_size=n)), "padbyte": draw(st.one_of(st.sampled_from([0, 1, 15, 16, 17, 255]), st.integers(0, 255))),
            "padpos": draw(st.one_of(st.sampled_from([0, 15]), st.integers(0, 15)))}


@st.composite
def k_muhash(draw):
    pool = draw(st.lists(st.binary(max_size=40), min_size=1, max_size=5))
    steps = [[draw(st.sampled_from(["i", "i", "r"])), draw(st.sampled_from(pool))] for _ in range(draw(st.integers(0, 7)))]
    return {"kind": "muhash", "steps": steps, "combine": draw(st.booleans())}


def cases():
    return st.one_of(k_hash(), k_hash(), k_hash(), k_splits(), k_d64(), k_hmac(), k_hkdf(), k_siphash(), k_chacha20(), k_fschacha20(),
                     k_poly1305(), k_aead(), k_aead(), k_fsaead(), k_aes(), k_aescbc(), k_muhash())


# ----------------------------------------------------------------------------------------------------------------
# references

def ref_hash(alg, d):
    if alg == "sha256":
        return hashlib.sha256(d).digest()
    if alg == "sha512":
        return hashlib.sha512(d).digest()
    if alg == "sha1":
        return hashlib.sha1(d).digest()
    if alg == "sha3_256":
        return hashlib.sha3_256(d).digest()
    if alg == "ripemd160":
        return ref_ripemd.ripemd160(d)
    if alg == "hash256":
        return hashlib.sha256(hashlib.sha256(d).digest()).digest()
    if alg == "hash160":
        return ref_ripemd.ripemd160(hashlib.sha256(d).digest())
    raise e2.HarnessError(alg)


USES_SHA256 = {"sha256", "hash256", "hash160", "hmac_sha256"}


def set_backend(sut, c, mask):
    name = sut.call("sha256_backend", mask=mask)["name"]
    c.cls("backend:" + name)
    return name


def chacha_stream(key, nonce, counter, nbytes):
    out = b""
    i = 0
    while len(out) < nbytes:
        out += ref_chacha.chacha20_block(key, nonce, counter + i)
        i += 1
    return out[:nbytes]


def flip(b, bit):
    if not b:
        return b
    bit %= len(b) * 8
    return b[:bit // 8] + bytes([b[bit // 8] ^ (1 << (bit % 8))]) + b[bit // 8 + 1:]


# ----------------------------------------------------------------------------------------------------------------
# checks

def c_hash(sut, ex, c):
    alg, d = ex["alg"], ex["data"]
    want = ref_hash(alg, d)
    masks = MASKS if alg in USES_SHA256 else [7]
    for m in masks:
        if alg in USES_SHA256:
            set_backend(sut, c, m)
        got = sut.call("hash", alg=alg, data=d, chunks=ex["chunks"], junk_then_reset=ex.get("junk"))["hash"]
        c.eq(got, want.hex(), "c49.hash-" + alg, "digest differs from the reference", len=len(d), chunks=ex["chunks"], mask=m)
        one = sut.call("hash", alg=alg, data=d)["hash"]
        c.eq(one, want.hex(), "c49.hash-" + alg, "one-shot digest differs from the reference", len=len(d), mask=m)
    c.nontrivial(len(d) > 0)
    c.mix(alg, len(d), tuple(ex["chunks"]), "junk" in ex)
    c.cls("alg:" + alg)
    if len(ex["chunks"]) >= 1 and len(d) > 0:
        c.cls("streamed")
    c.note(f"{alg} len={len(d)} pieces={ex['chunks']} junk={'junk' in ex} -> {want.hex()[:16]}..")


def c_splits(sut, ex, c):
    alg, pre, tail, key = ex["alg"], ex["prefix"], ex["tail"], ex["key"]
    d = pre + tail
    n = len(tail)
    if alg in USES_SHA256:
        set_backend(sut, c, ex["mask"])
    if alg.startswith("hmac_"):
        want = pyhmac.new(key, d, alg[5:]).digest().hex()
    elif alg == "poly1305":
        want = ref_poly.Poly1305(key).tag(d).hex()
    elif alg == "siphash":
        want = ref_sip.siphash(int.from_bytes(key[:8], "little"), int.from_bytes(key[8:16], "little"), d)
    else:
        want = ref_hash(alg, d).hex()
    for bits in range(1 << (n - 1)):
        sizes, run = [len(pre)], 1
        for i in range(n - 1):
            if bits >> i & 1:
                sizes.append(run)
                run = 1
            else:
                run += 1
        sizes.append(run)
        if alg.startswith("hmac_"):
            got = sut.call("hmac", alg=alg[5:], key=key, data=d, chunks=sizes)["mac"]
        elif alg == "poly1305":
            got = sut.call("poly1305", key=key, data=d, chunks=sizes)["tag"]
        elif alg == "siphash":
            got = sut.call("siphash", mode="bytes", k0=int.from_bytes(key[:8], "little"), k1=int.from_bytes(key[8:16], "little"), data=d, chunks=sizes)["hash"]
        else:
            got = sut.call("hash", alg=alg, data=d, chunks=sizes)["hash"]
        c.eq(got, want, "c49.chunking-" + alg, "streaming result depends on the chunking / differs from the reference", sizes=sizes, total=len(d))
    c.nontrivial(True)
    c.mix(alg, len(pre), n)
    c.cls("alg:" + alg)
    c.note(f"all {1 << (n - 1)} chunkings of a {n}-byte tail after a {len(pre)}-byte prefix, {alg}")


def c_d64(sut, ex, c):
    d = ex["data"]
    want = b"".join(ref_hash("hash256", d[i:i + 64]) for i in range(0, len(d), 64)).hex()
    for m in MASKS:
        set_backend(sut, c, m)
        c.eq(sut.call("sha256d64", data=d)["out"], want, "c49.sha256d64", "SHA256D64 differs from double SHA-256 of each block", blocks=len(d) // 64, mask=m)
    c.nontrivial(True)
    c.mix(len(d) // 64)
    c.note(f"SHA256D64 on {len(d) // 64} blocks under {len(MASKS)} backends")


def c_hmac(sut, ex, c):
    alg = ex["alg"]
    if alg == "sha256":
        set_backend(sut, c, ex["mask"])
    want = pyhmac.new(ex["key"], ex["data"], alg).digest().hex()
    c.eq(sut.call("hmac", alg=alg, key=ex["key"], data=ex["data"], chunks=ex["chunks"])["mac"], want, "c49.hmac-" + alg, "", keylen=len(ex["key"]), len=len(ex["data"]))
    c.nontrivial(len(ex["data"]) > 0)
    c.mix(alg, len(ex["key"]), len(ex["data"]), tuple(ex["chunks"]))
    if len(ex["key"]) > (64 if alg == "sha256" else 128):
        c.cls("hmac-long-key")
    c.note(f"hmac-{alg} keylen={len(ex['key'])} len={len(ex['data'])}")


def c_hkdf(sut, ex, c):
    set_backend(sut, c, ex["mask"])
    got = sut.call("hkdf", ikm=ex["ikm"], salt=ex["salt"], info=ex["info"])["out"]
    for g, info in zip(got, ex["info"]):
        c.eq(g, ref_hkdf.hkdf_sha256(32, ex["ikm"], ex["salt"], info).hex(), "c49.hkdf", "", ikm=ex["ikm"], salt=ex["salt"], info=info)
    c.nontrivial(len(ex["ikm"]) > 0)
    c.mix(len(ex["ikm"]), len(ex["salt"]), tuple(len(i) for i in ex["info"]))
    c.note(f"hkdf ikm={len(ex['ikm'])} salt={len(ex['salt'])} infos={[len(i) for i in ex['info']]}")


def c_siphash(sut, ex, c):
    mode, k0, k1 = ex["mode"], ex["k0"], ex["k1"]
    if mode == "bytes":
        d = ex["data"]
        got = sut.call("siphash", mode=mode, k0=k0, k1=k1, data=d, chunks=ex["chunks"])["hash"]
        c.mix(len(d), tuple(ex["chunks"]))
    elif mode == "u64":
        d = b"".join(w.to_bytes(8, "little") for w in ex["words"])
        got = sut.call("siphash", mode=mode, k0=k0, k1=k1, words=ex["words"])["hash"]
        c.mix(len(ex["words"]))
    elif mode == "mixed":
        d = b"".join(p[1].to_bytes(8, "little") if p[0] == "w" else p[1] for p in ex["parts"])
        got = sut.call("siphash", mode=mode, k0=k0, k1=k1, parts=ex["parts"])["hash"]
        c.mix(tuple((p[0], 8 if p[0] == "w" else len(p[1])) for p in ex["parts"]))
    elif mode == "u256":
        d = ex["val"]
        got = sut.call("siphash", mode=mode, k0=k0, k1=k1, val=d)["hash"]
    else:
        d = ex["val"] + ex["extra"].to_bytes(4, "little")
        got = sut.call("siphash", mode=mode, k0=k0, k1=k1, val=ex["val"], extra=ex["extra"])["hash"]
    c.eq(got, ref_sip.siphash(k0, k1, d), "c49.siphash-" + mode, "", k0=k0, k1=k1, data=d)
    c.nontrivial(len(d) > 0)
    c.mix(mode, len(d), k0 in (0, U64), k1 in (0, U64))
    c.cls("siphash:" + mode)
    c.note(f"siphash {mode} len={len(d)}")


def c_chacha20(sut, ex, c):
    key, nonce, ctr = ex["key"], ex["nonce"], ex["counter"]
    outs = sut.call("chacha20", key=key, nonce=nonce, counter=ctr, steps=ex["steps"], aligned=ex["aligned"])["out"]
    pos, i, total = 0, 0, 0
    for s in ex["steps"]:
        if s[0] == "seek":
            nonce, ctr, pos = s[1], s[2], 0
            continue
        n = len(s[1]) if s[0] == "c" else s[1]
        ks = chacha_stream(key, nonce, ctr, pos + n)[pos:]
        want = bytes(a ^ b for a, b in zip(s[1], ks)) if s[0] == "c" else ks
        c.eq(outs[i], want.hex(), "c49.chacha20", "keystream/ciphertext differs from RFC 8439 reference", step=i, kind=s[0], n=n, pos=pos, counter=ctr)
        pos += n
        total += n
        i += 1
    c.nontrivial(total > 0)
    c.mix(ex["aligned"], tuple((s[0], len(s[1]) if s[0] == "c" else (s[1] if s[0] == "k" else 0)) for s in ex["steps"]), ctr > 0xf0000000)
    if ex["aligned"]:
        c.cls("chacha20-aligned")
    if any(s[0] == "seek" for s in ex["steps"]):
        c.cls("chacha20-seek")
    c.note(f"chacha20 aligned={ex['aligned']} counter={ex['counter']} steps={[(s[0], len(s[1]) if s[0] == 'c' else s[1] if s[0] == 'k' else s[2]) for s in ex['steps']]}")


def c_fschacha20(sut, ex, c):
    ref = ref_chacha.FSChaCha20(ex["key"], ex["interval"])
    outs = sut.call("fschacha20", key=ex["key"], rekey_interval=ex["interval"], chunks=ex["chunks"])["out"]
    for i, ch in enumerate(ex["chunks"]):
        c.eq(outs[i], ref.crypt(ch).hex(), "c49.fschacha20", "", chunk=i, interval=ex["interval"], n=len(ch))
    c.nontrivial(any(len(x) for x in ex["chunks"]))
    c.mix(ex["interval"], tuple(len(x) for x in ex["chunks"]))
    if len(ex["chunks"]) > ex["interval"]:
        c.cls("fschacha20-rekeyed")
    c.note(f"fschacha20 interval={ex['interval']} chunks={[len(x) for x in ex['chunks']]}")


def c_poly1305(sut, ex, c):
    want = ref_poly.Poly1305(ex["key"]).tag(ex["data"]).hex()
    c.eq(sut.call("poly1305", key=ex["key"], data=ex["data"], chunks=ex["chunks"])["tag"], want, "c49.poly1305", "", key=ex["key"], len=len(ex["data"]), chunks=ex["chunks"])
    c.nontrivial(len(ex["data"]) > 0)
    c.mix(len(ex["data"]), tuple(ex["chunks"]), ex["key"][:16] == b"\xff" * 16, ex["key"][16:] == b"\xff" * 16)
    c.note(f"poly1305 len={len(ex['data'])} pieces={ex['chunks']}")


def c_aead(sut, ex, c):
    key, nonce, aad, plain, split, t = ex["key"], ex["nonce"], ex["aad"], ex["plain"], ex["split"], ex["tamper"]
    want = bip324_cipher.aead_chacha20_poly1305_encrypt(key, nonce, aad, plain)
    got = bytes.fromhex(sut.call("aead_encrypt", key=key, nonce=nonce, aad=aad, plain=plain, split=split)["cipher"])
    c.eq(got.hex(), want.hex(), "c49.aead-encrypt", "ciphertext||tag differs from RFC 8439 reference", plen=len(plain), aadlen=len(aad), split=split)
    ks = sut.call("aead_keystream", key=key, nonce=nonce, len=len(plain) + 7)["out"]
    c.eq(ks, chacha_stream(key, nonce, 1, len(plain) + 7).hex(), "c49.aead-keystream", "")
    k2, n2, a2, ct = key, nonce, aad, want
    if t == "cipher" and plain:
        ct = flip(ct[:-16], ex["bit"]) + ct[-16:]
    elif t == "tag":
        ct = ct[:-16] + flip(ct[-16:], ex["bit"])
    elif t == "aad" and aad:
        a2 = flip(aad, ex["bit"])
    elif t == "nonce":
        n2 = flip(nonce, ex["bit"])
    elif t == "key":
        k2 = flip(key, ex["bit"])
    elif t == "truncate" and plain:
        ct = ct[:-17] + ct[-16:]
    elif t == "extend":
        ct = ct[:-16] + bytes([ex["bit"] & 0xff]) + ct[-16:]
    else:
        t = "none"
    r = sut.call("aead_decrypt", key=k2, nonce=n2, aad=a2, cipher=ct, split=split)
    if t == "none":
        c.expect(r["ok"] and r["plain"] == plain.hex(), "c49.aead-roundtrip", "decrypting the reference ciphertext does not return the plaintext", reply=r)
    else:
        c.expect(not r["ok"], "c49.aead-tamper", f"modified {t} accepted by Decrypt", bit=ex["bit"], plen=len(plain), aadlen=len(aad))
        c.expect(bip324_cipher.aead_chacha20_poly1305_decrypt(k2, n2, a2, ct) is None, "c49.ref-selfcheck", "reference accepts the tampered input")
        c.cls("aead-tamper:" + t)
    c.nontrivial(len(plain) > 0 or t != "none")
    c.mix(len(plain), len(aad), split, t)
    c.note(f"aead plain={len(plain)} aad={len(aad)} split={split} tamper={t}")


def c_fsaead(sut, ex, c):
    interval = ex["interval"]
    saved = bip324_cipher.REKEY_INTERVAL
    bip324_cipher.REKEY_INTERVAL = interval      # the reference reads its module constant
    try:
        peer = bip324_cipher.FSChaCha20Poly1305(ex["key"])
        reqs, wants = [], []
        for p in ex["packets"]:
            ct = peer.encrypt(p["aad"], p["plain"])
            if not p["dec"]:
                reqs.append({"dec": False, "aad": p["aad"], "data": p["plain"], "split": p["split"]})
                wants.append((True, ct))
                continue
            t, aad = p["tamper"], p["aad"]
            if t == "cipher" and p["plain"]:
                ct = flip(ct[:-16], p["bit"]) + ct[-16:]
            elif t == "tag":
                ct = ct[:-16] + flip(ct[-16:], p["bit"])
            elif t == "aad" and aad:
                aad = flip(aad, p["bit"])
            else:
                t = "none"
            reqs.append({"dec": True, "aad": aad, "data": ct, "split": p["split"]})
            wants.append((t == "none", p["plain"]))
            if t != "none":
                c.cls("fsaead-tamper")
    finally:
        bip324_cipher.REKEY_INTERVAL = saved
    outs = sut.call("fsaead", key=ex["key"], rekey_interval=interval, packets=[{k: v for k, v in q.items() if v is not None} for q in reqs])["out"]
    for i, (o, (ok, data)) in enumerate(zip(outs, wants)):
        c.expect(o["ok"] == ok and (not ok or o["data"] == data.hex()), "c49.fsaead", "packet result differs from the BIP324 reference",
                 packet=i, dec=reqs[i]["dec"], interval=interval, want_ok=ok, got=o)
    c.nontrivial(True)
    c.mix(interval, tuple((p["dec"], len(p["plain"]), p["tamper"] if p["dec"] else "") for p in ex["packets"][:12]), len(ex["packets"]))
    if len(ex["packets"]) > interval:
        c.cls("fsaead-rekeyed")
    c.note(f"fsaead interval={interval} packets={len(ex['packets'])} first={[('dec' if p['dec'] else 'enc', len(p['plain'])) for p in ex['packets'][:6]]}")


def c_aes(sut, ex, c):
    want = (ref_aes.decrypt_block if ex["decrypt"] else ref_aes.encrypt_block)(ex["key"], ex["block"])
    c.eq(sut.call("aes256", key=ex["key"], block=ex["block"], decrypt=ex["decrypt"])["out"], want.hex(), "c49.aes256", "", key=ex["key"], block=ex["block"], decrypt=ex["decrypt"])
    c.nontrivial(True)
    c.mix(ex["decrypt"], ex["key"] == bytes(32), ex["block"] == bytes(16), ex["block"][:2])
    c.note(f"aes256 {'dec' if ex['decrypt'] else 'enc'} block")


def c_aescbc(sut, ex, c):
    key, iv, pad, mode, d = ex["key"], ex["iv"], ex["pad"], ex["mode"], ex["data"]

    def dec(ct, p):
        want = ref_aes.cbc_decrypt(key, iv, ct, p)
        r = sut.call("aes256cbc", key=key, iv=iv, pad=p, data=ct, decrypt=True)
        if want is None or len(want) == 0:      # a zero return value means failure (or an all-padding plaintext: same observable)
            c.expect(r["n"] == 0, "c49.aescbc-decrypt", "malformed input (alignment/padding) not rejected", n=r["n"], len=len(ct), pad=p)
            c.cls("aescbc-rejected")
        else:
            c.expect(r["n"] == len(want) and r["out"] == want.hex(), "c49.aescbc-decrypt", "plaintext differs from SP 800-38A reference", n=r["n"], want=want, got=r["out"])
            c.cls("aescbc-decrypted")

    if mode in ("enc", "roundtrip"):
        want = ref_aes.cbc_encrypt(key, iv, d, pad)
        r = sut.call("aes256cbc", key=key, iv=iv, pad=pad, data=d, decrypt=False)
        if want is None:
            c.expect(r["n"] == 0, "c49.aescbc-encrypt", "unaligned data without padding must be refused", n=r["n"])
        else:
            c.expect(r["n"] == len(want) and r["out"] == want.hex(), "c49.aescbc-encrypt", "ciphertext differs from SP 800-38A reference", n=r["n"], len=len(d), pad=pad)
            if mode == "roundtrip":
                dec(want, pad)
    elif mode == "dec_random":
        dec(d, pad)
    else:  # dec_badpad: a valid padded ciphertext whose final plaintext block has one padding byte overwritten
        padded = d + bytes([16 - len(d) % 16]) * (16 - len(d) % 16)
        i = len(padded) - 1 - ex["padpos"]
        padded = padded[:i] + bytes([ex["padbyte"]]) + padded[i + 1:]
        ct = ref_aes.cbc_encrypt(key, iv, padded, False)
        dec(ct, True)
        c.cls("aescbc-badpad")
    c.nontrivial(True)
    c.mix(mode, pad, len(d), ex["padbyte"] if mode == "dec_badpad" else 0, ex["padpos"] if mode == "dec_badpad" else 0)
    c.note(f"aes256cbc {mode} pad={pad} len={len(d)}")


def c_muhash(sut, ex, c):
    m = ref_muhash.MuHash3072()
    for s in ex["steps"]:
        (m.insert if s[0] == "i" else m.remove)(s[1])
    c.eq(sut.call("muhash", steps=ex["steps"], combine=ex["combine"])["hash"], m.digest().hex(), "c49.muhash", "", steps=ex["steps"], combine=ex["combine"])
    c.nontrivial(len(ex["steps"]) > 0)
    c.mix(tuple(s[0] for s in ex["steps"]), ex["combine"], tuple(len(s[1]) for s in ex["steps"]))
    c.note(f"muhash steps={[s[0] for s in ex['steps']]} combine={ex['combine']}")


check = e2.dispatch({"hash": c_hash, "splits": c_splits, "d64": c_d64, "hmac": c_hmac, "hkdf": c_hkdf, "siphash": c_siphash, "chacha20": c_chacha20,
                     "fschacha20": c_fschacha20, "poly1305": c_poly1305, "aead": c_aead, "fsaead": c_fsaead, "aes": c_aes, "aescbc": c_aescbc,
                     "muhash": c_muhash})

if __name__ == "__main__":
    e2.main(__file__, strategy=cases(), check=check)
