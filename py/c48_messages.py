#!/usr/bin/env python3
"""C48 (part 1) -- transactions, blocks, headers and P2P payloads: C++ serialization vs test_framework/messages.py (engine E2).

One example = one object description (tx, block, header, headers, getheaders/locator, inv, addr, addrv2, cmpctblock, getblocktxn,
blocktxn, merkleblock, filterload, txin/txout/outpoint, sendcmpct, feefilter/ping integers, raw CompactSize / VarInt) plus the
perturbations to try on its serialization. Oracles (C++ object reached only through bytes: sutd `deser` = Unserialize + Serialize):

  bytes    C++ decodes the Python bytes completely and re-encodes to exactly the Python bytes; Python decodes the C++ bytes to the same
           object; GetSerializeSize == length
  ids      txid / wtxid / block hash == SHA256d of Python's non-witness / witness / header serialization (BIP141)
  trunc    every strict prefix of a complete serialization is rejected (deterministic grammar => must hit end of data)
  trail    trailing bytes are left unread (remaining == len(junk)), object unchanged
  noncanon the k-th CompactSize re-encoded in a longer form (BIP/serialize.h: must be canonical) => rejected as non-canonical
  huge     the k-th count replaced by a count larger than the remaining input (or > MAX_SIZE) => rejected
  witness  BIP144: marker+flag with all-empty witnesses ("superfluous") and unknown flag bits => rejected; empty-vin transactions
           round-trip in the no-witness encoding
Non-trivial = object with >= 1 element (tx with >= 1 input, vector with >= 1 entry) or any perturbation check executed.
"""
import hashlib
import io
import random
import socket
from base64 import b32encode

from hypothesis import strategies as st

import e2
from test_framework import messages as m

MAX_SIZE = 0x02000000
U32 = 0xffffffff
U64 = (1 << 64) - 1

# ----------------------------------------------------------------------------------------------------------------
# strategies (descriptions are plain JSON; objects are built in check())

u32 = st.one_of(st.sampled_from([0, 1, 2, U32, 0x7fffffff, 0x80000000, U32 - 1]), st.integers(0, U32))
u64 = st.one_of(st.sampled_from([0, 1, U64, 1 << 63, (1 << 63) - 1, 252, 253, 0xffff, 0x10000, U32, U32 + 1]), st.integers(0, U64))
i64 = st.one_of(st.sampled_from([0, 1, -1, (1 << 63) - 1, -(1 << 63), 21 * 10 ** 14]), st.integers(-(1 << 63), (1 << 63) - 1))
# bulk content comes from a 2-byte seed (keeps the Hypothesis choice sequence short: long sequences are discarded as overruns)
h256 = st.one_of(st.binary(min_size=2, max_size=2).map(lambda s: hashlib.sha256(s).digest()), st.sampled_from([bytes(32), b"\xff" * 32, b"\x01" + bytes(31)]))
small_counts = st.one_of(st.integers(0, 2), st.integers(1, 5))
big_counts = st.sampled_from([252, 253, 254, 300])          # 1-byte -> 3-byte CompactSize boundary for element counts
counts = st.one_of(small_counts, small_counts, small_counts, st.integers(0, 12), big_counts)


def prf(seed, n):
    return hashlib.shake_128(seed).digest(n)


@st.composite
def blob(draw, maxn=520, boundary=True):
    opts = [st.integers(0, 8), st.integers(0, 8), st.integers(0, 40), st.integers(0, min(maxn, 120))]
    edge = [n for n in (75, 76, 252, 253, 254, 255, 256, 520) if n <= maxn]
    if boundary and edge:
        opts.append(st.sampled_from(edge))
    n = draw(st.one_of(*opts))
    if boundary and maxn >= 0x10001 and draw(st.integers(0, 150)) == 150:
        n = draw(st.sampled_from([0xffff, 0x10000, 0x10001]))       # 3-byte -> 5-byte CompactSize boundary
    if n <= 16:
        return draw(st.binary(min_size=n, max_size=n))
    return prf(draw(st.binary(min_size=2, max_size=2)), n)


def rnd_tx(rnd, nin, nout, witness):
    """bulk transaction from a PRNG (many inputs/outputs; Hypothesis only chooses the seed and the counts)"""
    def rb(lo, hi):
        return rnd.randbytes(rnd.randint(lo, hi))
    vin = [{"hash": rnd.randbytes(32), "n": rnd.getrandbits(32), "script": rb(0, 30), "seq": rnd.choice([0, U32, U32 - 1, rnd.getrandbits(32)])} for _ in range(nin)]
    vout = [{"value": rnd.choice([0, 1, -1, rnd.getrandbits(50)]), "spk": rb(0, 34)} for _ in range(nout)]
    wit = [[rb(0, 40) for _ in range(rnd.randint(0, 2))] for _ in range(nin)] if witness and nin else None
    return {"version": rnd.choice([1, 2, 3, rnd.getrandbits(32)]), "vin": vin, "vout": vout, "wit": wit, "locktime": rnd.getrandbits(32)}


@st.composite
def tx_desc(draw, allow_big=True, witness=None, nowit_encoding=False):
    w = draw(st.booleans()) if witness is None else witness
    if allow_big and draw(st.integers(0, 7)) == 7:
        rnd = random.Random(draw(st.integers(0, 1 << 32)))
        nin, nout = draw(st.one_of(big_counts, st.integers(1, 40))), draw(st.one_of(big_counts, st.integers(0, 40)))
        return rnd_tx(rnd, nin, nout, w)
    nin, nout = draw(small_counts), draw(small_counts)
    if nin == 0 and not nowit_encoding:
        # zero inputs + outputs is not representable where witnesses are allowed (the 0x00 marker ambiguity, BIP144): the first
        # byte after the version is read as marker. Such objects only exist in the no-witness encoding (checked there and in txspecial).
        nout = 0
    vin = [{"hash": draw(h256), "n": draw(u32), "script": draw(blob(0x10001)), "seq": draw(u32)} for _ in range(nin)]
    vout = [{"value": draw(i64), "spk": draw(blob(0x10001))} for _ in range(nout)]
    wit = None
    if w and nin > 0:
        wit = [[draw(blob(600)) for _ in range(draw(st.integers(0, 3)))] for _ in range(nin)]
    return {"version": draw(u32), "vin": vin, "vout": vout, "wit": wit, "locktime": draw(u32)}


@st.composite
def header_desc(draw):
    return {"version": draw(st.one_of(st.sampled_from([0, 1, -1, 0x20000000, -(1 << 31), (1 << 31) - 1]), st.integers(-(1 << 31), (1 << 31) - 1))),
            "prev": draw(h256), "merkle": draw(h256), "time": draw(u32), "bits": draw(u32), "nonce": draw(u32)}


def fix_ipv6(a):
    # IPv4-mapped and TORv2-in-IPv6 prefixes are by design decoded as "invalid" (BIP155: must not be embedded); keep them out of
    # the byte-equality check
    if a.startswith(bytes(10) + b"\xff\xff") or a.startswith(bytes.fromhex("fd87d87eeb43")):
        return b"\x20" + a[1:]
    return a


@st.composite
def addr_desc(draw, v2):
    d = {"time": draw(u32), "services": draw(u64), "port": draw(st.one_of(st.sampled_from([0, 8333, 65535]), st.integers(0, 65535)))}
    net = draw(st.sampled_from(["ipv4", "ipv6", "torv3", "i2p", "cjdns"])) if v2 else "ipv4"
    d["net"] = net
    seed = draw(st.binary(min_size=2, max_size=2))
    if net == "ipv4":
        d["addr"] = draw(st.one_of(st.binary(min_size=4, max_size=4), st.sampled_from([bytes(4), b"\xff" * 4, b"\x7f\0\0\1"])))
    elif net == "ipv6":
        d["addr"] = fix_ipv6(draw(st.sampled_from([bytes(15) + b"\1", b"\x20\x01" + bytes(14), prf(seed, 16), b"\xfd\x6b\x88\xc0\x87\x24" + prf(seed, 10)])))
    elif net in ("torv3", "i2p"):
        d["addr"] = prf(seed, 32)
    else:
        d["addr"] = b"\xfc" + prf(seed, 15)
    return d


def rnd_addrs(rnd, n, v2):
    out = []
    for _ in range(n):
        net = rnd.choice(["ipv4", "ipv6", "torv3", "i2p", "cjdns"]) if v2 else "ipv4"
        size = {"ipv4": 4, "ipv6": 16, "cjdns": 16}.get(net, 32)
        a = rnd.randbytes(size)
        a = fix_ipv6(a) if net == "ipv6" else b"\xfc" + a[1:] if net == "cjdns" else a
        out.append({"time": rnd.getrandbits(32), "services": rnd.choice([0, 1, 1033, 252, 253, rnd.getrandbits(64)]), "port": rnd.getrandbits(16), "net": net, "addr": a})
    return out


@st.composite
def obj_desc(draw):
    t = draw(st.sampled_from(["tx", "tx", "tx", "tx_nowit", "block", "block", "block_nowit", "header", "headers", "getheaders", "locator", "inv", "addr",
                              "addrv2", "cmpctblock", "getblocktxn", "blocktxn", "merkleblock", "filterload", "txin", "txout", "outpoint", "sendcmpct",
                              "u64", "i64", "bytes", "scriptwitness"]))
    if t == "tx":
        d = draw(tx_desc())
    elif t == "tx_nowit":
        d = draw(tx_desc(witness=False, nowit_encoding=True))
    elif t in ("block", "block_nowit"):
        ntx = draw(small_counts)
        d = {"header": draw(header_desc()), "vtx": [draw(tx_desc(allow_big=False, witness=None if t == "block" else False, nowit_encoding=(t != "block"))) for _ in range(ntx)]}
    elif t == "header":
        d = draw(header_desc())
    elif t == "headers":
        d = [draw(header_desc()) for _ in range(draw(small_counts))]
    elif t in ("getheaders", "locator"):
        n = draw(counts)
        rnd = random.Random(draw(st.integers(0, 1 << 32)))
        d = {"have": [rnd.randbytes(32) for _ in range(n)] if n > 12 else [draw(h256) for _ in range(n)], "stop": draw(h256)}
    elif t == "inv":
        n = draw(counts)
        rnd = random.Random(draw(st.integers(0, 1 << 32)))
        if n > 12:
            d = [{"type": rnd.choice([1, 2, 5, 0x40000001, rnd.getrandbits(32)]), "hash": rnd.randbytes(32)} for _ in range(n)]
        else:
            d = [{"type": draw(st.one_of(st.sampled_from([0, 1, 2, 3, 4, 5, 0x40000001, 0x40000002]), u32)), "hash": draw(h256)} for _ in range(n)]
    elif t in ("addr", "addrv2"):
        n = draw(st.one_of(small_counts, small_counts, small_counts, st.sampled_from([252, 253, 300])))
        rnd = random.Random(draw(st.integers(0, 1 << 32)))
        d = rnd_addrs(rnd, n, t == "addrv2") if n > 12 else [draw(addr_desc(t == "addrv2")) for _ in range(n)]
    elif t == "cmpctblock":
        nshort = draw(counts)
        npre = draw(small_counts)
        rnd = random.Random(draw(st.integers(0, 1 << 32)))
        d = {"header": draw(header_desc()), "nonce": draw(u64), "shortids": [rnd.choice([0, (1 << 48) - 1, rnd.getrandbits(48)]) for _ in range(nshort)],
             "prefilled": [{"index": draw(st.one_of(st.integers(0, 5), st.sampled_from([252, 253, 0xffff]), st.integers(0, 0xffff))), "tx": draw(tx_desc(allow_big=False))} for _ in range(npre)]}
    elif t == "getblocktxn":
        idx = sorted(draw(st.sets(st.one_of(st.integers(0, 20), st.integers(0, 0xffff), st.sampled_from([0, 252, 253, 254, 0xfffe, 0xffff])), max_size=12)))
        d = {"hash": draw(h256), "abs": idx}
    elif t == "blocktxn":
        d = {"hash": draw(h256), "txs": [draw(tx_desc(allow_big=False)) for _ in range(draw(small_counts))]}
    elif t == "merkleblock":
        d = {"header": draw(header_desc()), "ntx": draw(u32), "hashes": [draw(h256) for _ in range(draw(small_counts))], "bits": draw(blob(40, False))}
    elif t == "filterload":
        d = {"data": draw(blob(36000 if draw(st.integers(0, 9)) == 0 else 300)), "funcs": draw(u32), "tweak": draw(u32), "flags": draw(st.integers(0, 255))}
    elif t == "txin":
        d = {"hash": draw(h256), "n": draw(u32), "script": draw(blob()), "seq": draw(u32)}
    elif t == "txout":
        d = {"value": draw(i64), "spk": draw(blob())}
    elif t == "outpoint":
        d = {"hash": draw(h256), "n": draw(u32)}
    elif t == "sendcmpct":
        d = {"announce": draw(st.booleans()), "version": draw(u64)}
    elif t == "u64":
        d = draw(u64)
    elif t == "i64":
        d = draw(i64)
    elif t == "bytes":
        d = draw(blob(0x10001))
    else:
        d = [draw(blob(600)) for _ in range(draw(small_counts))]
    return {"kind": "obj", "type": t, "desc": d, "cut": draw(st.integers(0, 1 << 30)), "junk": draw(st.binary(min_size=1, max_size=9)),
            "nc_k": draw(st.integers(0, 12)), "nc_form": draw(st.integers(1, 3)), "huge_k": draw(st.integers(0, 8)),
            "huge_v": draw(st.sampled_from(["remaining", "remaining", MAX_SIZE + 1, U32, U64]))}


@st.composite
def tx_special(draw):
    return {"kind": "txspecial", "tx": draw(tx_desc(allow_big=False, witness=False, nowit_encoding=True)), "flag": draw(st.one_of(st.sampled_from([1, 2, 3, 0x80, 0x81, 0xff]), st.integers(1, 255)))}


@st.composite
def compactsize(draw):
    v = draw(st.one_of(st.sampled_from([0, 1, 252, 253, 254, 255, 256, 0xfffe, 0xffff, 0x10000, 0x10001, MAX_SIZE - 1, MAX_SIZE, MAX_SIZE + 1, U32 - 1, U32, U32 + 1, U64 - 1, U64]),
                       st.integers(0, 0x10100), st.integers(0, U64)))
    return {"kind": "compactsize", "v": v, "raw": draw(st.binary(min_size=0, max_size=10))}


def cases():
    return st.one_of(obj_desc(), obj_desc(), obj_desc(), obj_desc(), obj_desc(), obj_desc(), tx_special(), compactsize())


# ----------------------------------------------------------------------------------------------------------------
# building messages.py objects

def I(b):
    return int.from_bytes(b, "little")


def mk_tx(d):
    tx = m.CTransaction()
    tx.version = d["version"]
    tx.vin = [m.CTxIn(m.COutPoint(I(i["hash"]), i["n"]), i["script"], i["seq"]) for i in d["vin"]]
    tx.vout = [m.CTxOut(o["value"], o["spk"]) for o in d["vout"]]
    tx.nLockTime = d["locktime"]
    if d["wit"] is not None:
        for stack in d["wit"]:
            w = m.CTxInWitness()
            w.scriptWitness.stack = list(stack)
            tx.wit.vtxinwit.append(w)
    return tx


def mk_header(d, cls=m.CBlockHeader):
    h = cls()
    h.nVersion, h.hashPrevBlock, h.hashMerkleRoot, h.nTime, h.nBits, h.nNonce = d["version"], I(d["prev"]), I(d["merkle"]), d["time"], d["bits"], d["nonce"]
    return h


def mk_addr(d):
    a = m.CAddress()
    a.time, a.nServices, a.port = d["time"], d["services"], d["port"]
    a.net = {"ipv4": a.NET_IPV4, "ipv6": a.NET_IPV6, "torv3": a.NET_TORV3, "i2p": a.NET_I2P, "cjdns": a.NET_CJDNS}[d["net"]]
    raw = d["addr"]
    if d["net"] == "ipv4":
        a.ip = socket.inet_ntoa(raw)
    elif d["net"] in ("ipv6", "cjdns"):
        a.ip = socket.inet_ntop(socket.AF_INET6, raw)
    elif d["net"] == "torv3":
        a.ip = b32encode(raw + m.sha3(b".onion checksum" + raw + b"\x03")[:2] + b"\x03").decode().lower() + ".onion"
    else:
        a.ip = b32encode(raw)[:-4].decode().lower() + ".b32.i2p"
    return a


def build(t, d):
    """-> (python bytes, function bytes -> python re-serialization, number of leading bytes C++ is allowed to normalise)"""
    skip = 0
    if t in ("tx", "tx_nowit"):
        o = mk_tx(d)
        ser = o.serialize_with_witness() if t == "tx" else o.serialize_without_witness()
        def re(b):
            x = m.CTransaction()
            x.deserialize(io.BytesIO(b))
            return x.serialize_with_witness() if t == "tx" else x.serialize_without_witness()
    elif t in ("block", "block_nowit"):
        o = mk_header(d["header"], m.CBlock)
        o.vtx = [mk_tx(x) for x in d["vtx"]]
        ser = o.serialize(with_witness=(t == "block"))
        def re(b):
            x = m.CBlock()
            x.deserialize(io.BytesIO(b))
            return x.serialize(with_witness=(t == "block"))
    elif t == "header":
        o = mk_header(d)
        ser = o.serialize()
        def re(b):
            x = m.CBlockHeader()
            x.deserialize(io.BytesIO(b))
            return x.serialize()
    elif t == "headers":
        ser = m.msg_headers([mk_header(x) for x in d]).serialize()
        def re(b):
            x = m.msg_headers()
            x.deserialize(io.BytesIO(b))
            return x.serialize()
    elif t in ("getheaders", "locator"):
        loc = m.CBlockLocator()
        loc.vHave = [I(x) for x in d["have"]]
        skip = 4            # "Bitcoin Core ignores the version field": C++ rewrites it on output
        if t == "locator":
            ser = loc.serialize()
            def re(b):
                x = m.CBlockLocator()
                x.deserialize(io.BytesIO(b))
                return x.serialize()
        else:
            g = m.msg_getheaders()
            g.locator, g.hashstop = loc, I(d["stop"])
            ser = g.serialize()
            def re(b):
                x = m.msg_getheaders()
                x.deserialize(io.BytesIO(b))
                return x.serialize()
    elif t == "inv":
        ser = m.msg_inv([m.CInv(x["type"], I(x["hash"])) for x in d]).serialize()
        def re(b):
            x = m.msg_inv()
            x.deserialize(io.BytesIO(b))
            return x.serialize()
    elif t in ("addr", "addrv2"):
        o = m.msg_addr() if t == "addr" else m.msg_addrv2()
        o.addrs = [mk_addr(x) for x in d]
        ser = o.serialize()
        def re(b):
            x = m.msg_addr() if t == "addr" else m.msg_addrv2()
            x.deserialize(io.BytesIO(b))
            return x.serialize()
    elif t == "cmpctblock":
        o = m.P2PHeaderAndShortWitnessIDs()
        o.header, o.nonce = mk_header(d["header"]), d["nonce"]
        o.shortids, o.shortids_length = list(d["shortids"]), len(d["shortids"])
        o.prefilled_txn = [m.PrefilledTransaction(p["index"], mk_tx(p["tx"])) for p in d["prefilled"]]
        o.prefilled_txn_length = len(o.prefilled_txn)
        ser = o.serialize()
        def re(b):
            x = m.P2PHeaderAndShortWitnessIDs()
            x.deserialize(io.BytesIO(b))
            return x.serialize()
    elif t == "getblocktxn":
        o = m.BlockTransactionsRequest(I(d["hash"]))
        o.from_absolute(d["abs"])
        ser = o.serialize()
        def re(b):
            x = m.BlockTransactionsRequest()
            x.deserialize(io.BytesIO(b))
            return x.serialize()
    elif t == "blocktxn":
        ser = m.BlockTransactions(I(d["hash"]), [mk_tx(x) for x in d["txs"]]).serialize(with_witness=True)
        def re(b):
            x = m.BlockTransactions()
            x.deserialize(io.BytesIO(b))
            return x.serialize(with_witness=True)
    elif t == "merkleblock":
        o = m.CMerkleBlock()
        o.header = mk_header(d["header"])
        o.txn.nTransactions, o.txn.vHash = d["ntx"], [I(x) for x in d["hashes"]]
        o.txn.vBits = [bool(d["bits"][i // 8] >> (i % 8) & 1) for i in range(8 * len(d["bits"]))]
        ser = o.serialize()
        def re(b):
            x = m.CMerkleBlock()
            x.deserialize(io.BytesIO(b))
            return x.serialize()
    elif t == "filterload":
        ser = m.msg_filterload(d["data"], d["funcs"], d["tweak"], d["flags"]).serialize()
        def re(b):
            x = m.msg_filterload()
            x.deserialize(io.BytesIO(b))
            return x.serialize()
    elif t == "txin":
        ser = m.CTxIn(m.COutPoint(I(d["hash"]), d["n"]), d["script"], d["seq"]).serialize()
        def re(b):
            x = m.CTxIn()
            x.deserialize(io.BytesIO(b))
            return x.serialize()
    elif t == "txout":
        ser = m.CTxOut(d["value"], d["spk"]).serialize()
        def re(b):
            x = m.CTxOut()
            x.deserialize(io.BytesIO(b))
            return x.serialize()
    elif t == "outpoint":
        ser = m.COutPoint(I(d["hash"]), d["n"]).serialize()
        def re(b):
            x = m.COutPoint()
            x.deserialize(io.BytesIO(b))
            return x.serialize()
    elif t == "sendcmpct":
        ser = m.msg_sendcmpct(d["announce"], d["version"]).serialize()
        def re(b):
            x = m.msg_sendcmpct()
            x.deserialize(io.BytesIO(b))
            return x.serialize()
    elif t == "u64":
        ser = m.msg_ping(d).serialize()
        def re(b):
            x = m.msg_ping()
            x.deserialize(io.BytesIO(b))
            return x.serialize()
    elif t == "i64":
        ser = d.to_bytes(8, "little", signed=True)
        def re(b):
            return int.from_bytes(b, "little", signed=True).to_bytes(8, "little", signed=True)
    elif t == "bytes":
        ser = m.ser_string(d)
        def re(b):
            return m.ser_string(m.deser_string(io.BytesIO(b)))
    elif t == "scriptwitness":
        ser = m.ser_string_vector(d)
        def re(b):
            return m.ser_string_vector(m.deser_string_vector(io.BytesIO(b)))
    else:
        raise e2.HarnessError(t)
    return ser, re, skip


def all_txs(t, d):
    if t in ("tx", "tx_nowit"):
        return [d]
    if t in ("block", "block_nowit"):
        return d["vtx"]
    if t == "blocktxn":
        return d["txs"]
    if t == "cmpctblock":
        return [p["tx"] for p in d["prefilled"]]
    return []


def n_elements(t, d):
    if isinstance(d, list):
        return len(d)
    if t in ("tx", "tx_nowit"):
        return len(d["vin"])
    if t in ("block", "block_nowit"):
        return len(d["vtx"])
    if t in ("getheaders", "locator"):
        return len(d["have"])
    if t == "cmpctblock":
        return len(d["shortids"]) + len(d["prefilled"])
    if t == "getblocktxn":
        return len(d["abs"])
    if t == "blocktxn":
        return len(d["txs"])
    if t == "merkleblock":
        return len(d["hashes"])
    if t == "filterload":
        return len(d["data"])
    if t == "bytes":
        return len(d)
    return 1


class PatchCompactSize:
    """Re-run a messages.py serialization with the k-th CompactSize replaced: fn(orig_value, canonical_bytes) -> bytes."""

    def __init__(self, k, fn):
        self.k, self.fn, self.calls, self.hit = k, fn, 0, None

    def __enter__(self):
        self.orig = m.ser_compact_size

        def patched(l):
            i = self.calls
            self.calls += 1
            if i == self.k:
                self.hit = l
                return self.fn(l, self.orig(l))
            return self.orig(l)
        m.ser_compact_size = patched
        return self

    def __exit__(self, *a):
        m.ser_compact_size = self.orig


def noncanonical(l, form):
    """a longer-than-necessary CompactSize encoding of l (None if l has no such encoding in that form)"""
    if form == 1 and l < 253:
        return b"\xfd" + l.to_bytes(2, "little")
    if form == 2 and l < 0x10000:
        return b"\xfe" + l.to_bytes(4, "little")
    if l < 0x100000000:
        return b"\xff" + l.to_bytes(8, "little")
    return None


COUNT_ONLY = {"tx", "tx_nowit", "block", "block_nowit", "headers", "locator", "getheaders", "inv", "filterload", "merkleblock", "blocktxn", "bytes", "scriptwitness", "addr"}


# ----------------------------------------------------------------------------------------------------------------
# checks

def c_obj(sut, ex, c):
    t, d = ex["type"], ex["desc"]
    want, pyre, skip = build(t, d)
    r = sut.call("deser", type=t, data=want)
    c.expect(r["ok"], "c48.decode-" + t, "C++ rejects the Python serialization", err=r.get("err"), data=want)
    c.eq(r["remaining"], 0, "c48.decode-" + t, "C++ did not consume the whole Python serialization")
    reser = bytes.fromhex(r["reser"])
    c.eq(reser[skip:].hex(), want[skip:].hex(), "c48.bytes-" + t, "C++ re-serialization differs from the Python bytes")
    c.eq(r["sersize"], len(want), "c48.sersize-" + t, "GetSerializeSize differs from the serialized length")
    txs = [d] if t == "tx_nowit" else d["vtx"] if t == "block_nowit" else []
    if not any(len(x["vin"]) == 0 and len(x["vout"]) > 0 for x in txs):      # messages.py always reads the marker: cannot decode those
        c.eq(pyre(reser)[skip:].hex(), want[skip:].hex(), "c48.pydecode-" + t, "Python decodes the C++ bytes to a different object")
    if t in ("tx", "tx_nowit"):
        o = mk_tx(d)
        nowit, wit = o.serialize_without_witness(), o.serialize_with_witness()
        c.eq(r["txid"], m.hash256(nowit).hex(), "c48.txid", "txid != SHA256d(non-witness serialization)")
        c.eq(r["wtxid"], m.hash256(wit).hex(), "c48.wtxid", "wtxid != SHA256d(witness serialization)")
        c.eq(r["ser_nowit"], nowit.hex(), "c48.bytes-tx", "TX_NO_WITNESS serialization differs")
        c.eq(r["ser_wit"], wit.hex(), "c48.bytes-tx", "TX_WITH_WITNESS serialization differs")
        c.eq(r["has_witness"], wit != nowit, "c48.has-witness", "")
        c.eq(r["total_size"], len(wit), "c48.sersize-tx", "ComputeTotalSize")
        c.cls("tx-witness" if wit != nowit else "tx-plain")
        if len(d["vin"]) == 0:
            c.cls("tx-empty-vin")
    if t in ("block", "block_nowit"):
        o = mk_header(d["header"], m.CBlock)
        o.vtx = [mk_tx(x) for x in d["vtx"]]
        c.eq(r["hash"], m.hash256(o._serialize_header()).hex(), "c48.blockhash", "")
        c.eq(r["txids"], [x.txid.hex() for x in o.vtx], "c48.txid", "txids inside a block")
        c.eq(r["wtxids"], [x.wtxid.hex() for x in o.vtx], "c48.wtxid", "wtxids inside a block")
        c.eq(r["ser_nowit"], o.serialize(with_witness=False).hex(), "c48.bytes-block", "TX_NO_WITNESS block serialization differs")
    if t == "header":
        c.eq(r["hash"], m.hash256(want).hex(), "c48.blockhash", "")
    if t in ("u64", "i64"):
        c.eq(r["n"], d, "c48.int-" + t, "")
    perturbed = 0
    # truncation: any strict prefix must be rejected
    if len(want) > 0:
        cut = ex["cut"] % len(want)
        rt = sut.call("deser", type=t, data=want[:cut])
        c.expect(not rt["ok"], "c48.truncated-" + t, "a strict prefix of a serialization was accepted", cut=cut, total=len(want), reply=rt)
        perturbed += 1
    # trailing bytes stay unread
    rj = sut.call("deser", type=t, data=want + ex["junk"])
    c.expect(rj["ok"] and rj["remaining"] == len(ex["junk"]) and rj["reser"][2 * skip:] == want[skip:].hex(), "c48.trailing-" + t,
             "trailing bytes changed the decoded object or were consumed", reply={k: v for k, v in rj.items() if k != "reser"})
    # k-th CompactSize in a non-canonical (longer) form
    with PatchCompactSize(ex["nc_k"], lambda l, canon: noncanonical(l, ex["nc_form"]) or canon) as p:
        bad, _, _ = build(t, d)
    if p.hit is not None and bad != want:
        rb = sut.call("deser", type=t, data=bad)
        # after an empty vin the next byte is read as the BIP144 flag, so a re-encoded vout count there is rejected for another reason
        strict = not any(len(x["vin"]) == 0 for x in all_txs(t, d))
        c.expect(not rb["ok"] and (not strict or "non-canonical" in rb.get("err", "")), "c48.noncanonical-" + t, "non-canonical CompactSize not rejected (as such)",
                 k=ex["nc_k"], value=p.hit, form=ex["nc_form"], reply={k: v for k, v in rb.items() if k != "reser"})
        c.cls("noncanonical")
        perturbed += 1
    # k-th count larger than what can follow
    if t in COUNT_ONLY:
        hv = ex["huge_v"]
        with PatchCompactSize(ex["huge_k"], lambda l, canon: m.ser_compact_size(l + len(want) + 1 if hv == "remaining" else hv)) as p:
            bad, _, _ = build(t, d)
        if p.hit is not None:
            rb = sut.call("deser", type=t, data=bad)
            c.expect(not rb["ok"], "c48.hugecount-" + t, "a count larger than the remaining input was accepted", k=ex["huge_k"], orig=p.hit, huge=hv,
                     reply={k: v for k, v in rb.items() if k != "reser"})
            c.cls("hugecount")
            perturbed += 1
    ne = n_elements(t, d)
    c.nontrivial(ne > 0)
    c.mix(t, min(ne, 300), len(want) // 16, perturbed)
    c.cls("type:" + t)
    c.note(f"{t} elements={ne} bytes={len(want)} perturbations={perturbed}")


def c_txspecial(sut, ex, c):
    d, flag = ex["tx"], ex["flag"]
    o = mk_tx(d)
    nin = len(d["vin"])
    base = o.serialize_without_witness()
    head, vin_vout, lock = base[:4], base[4:-4], base[-4:]
    if nin > 0:
        # BIP144: extended format with every witness stack empty must not be used ("superfluous")
        s = head + b"\x00\x01" + vin_vout + b"\x00" * nin + lock
        r = sut.call("deser", type="tx", data=s)
        c.expect(not r["ok"], "c48.superfluous-witness", "marker+flag with all-empty witnesses accepted", reply={k: v for k, v in r.items() if k != "reser"})
        c.cls("superfluous-witness")
        # unknown flag bits (anything but exactly 0x01) with non-empty witness data present
        if flag != 1:
            s = head + b"\x00" + bytes([flag]) + vin_vout + b"\x01\x01\x2a" * nin + lock
            r = sut.call("deser", type="tx", data=s)
            c.expect(not r["ok"], "c48.unknown-flag", "unknown optional-data flag accepted", flag=flag, reply={k: v for k, v in r.items() if k != "reser"})
            c.cls("unknown-flag")
        # the same bytes with flag 0x01 are a valid witness transaction whose txid ignores the witness
        s = head + b"\x00\x01" + vin_vout + b"\x01\x01\x2a" * nin + lock
        r = sut.call("deser", type="tx", data=s)
        c.expect(r["ok"] and r["remaining"] == 0 and r["reser"] == s.hex(), "c48.bytes-tx", "hand-built witness tx not round-tripped", reply={k: v for k, v in r.items() if k != "reser"})
        c.eq(r["txid"], m.hash256(base).hex(), "c48.txid", "txid must not cover marker/flag/witness")
        c.eq(r["wtxid"], m.hash256(s).hex(), "c48.wtxid", "")
    else:
        # zero inputs: only representable in the no-witness encoding (the 0x00 marker ambiguity); must round-trip there
        r = sut.call("deser", type="tx_nowit", data=base)
        c.expect(r["ok"] and r["remaining"] == 0 and r["reser"] == base.hex(), "c48.empty-vin", "empty-vin tx does not round-trip without witness", reply={k: v for k, v in r.items() if k != "reser"})
        c.eq(r["txid"], m.hash256(base).hex(), "c48.txid", "")
        c.cls("tx-empty-vin")
        if len(d["vout"]) == 0:
            r = sut.call("deser", type="tx", data=base)
            c.expect(r["ok"] and r["remaining"] == 0 and r["reser"] == base.hex(), "c48.empty-vin", "empty tx does not round-trip", reply={k: v for k, v in r.items() if k != "reser"})
    c.nontrivial(True)
    c.mix(nin, len(d["vout"]), flag)
    c.note(f"tx special forms: inputs={nin} outputs={len(d['vout'])} flag={flag:#x}")


def c_compactsize(sut, ex, c):
    v = ex["v"]
    enc = m.ser_compact_size(v)
    r = sut.call("deser", type="compactsize_norange", data=enc)
    c.expect(r["ok"] and r["n"] == v and r["remaining"] == 0 and r["reser"] == enc.hex(), "c48.compactsize", "canonical CompactSize not round-tripped", v=v, reply=r)
    r = sut.call("deser", type="compactsize", data=enc)
    if v > MAX_SIZE:
        c.expect(not r["ok"], "c48.compactsize-range", "size above MAX_SIZE accepted with range check", v=v)
    else:
        c.expect(r["ok"] and r["n"] == v, "c48.compactsize", "", v=v, reply=r)
    for form in (1, 2, 3):
        bad = noncanonical(v, form)
        if bad is not None and bad != enc:
            r = sut.call("deser", type="compactsize_norange", data=bad)
            c.expect(not r["ok"] and "non-canonical" in r.get("err", ""), "c48.noncanonical-compactsize", "longer encoding accepted", v=v, form=form, reply=r)
    # arbitrary bytes: decode agreement with the Python reader where the encoding is canonical and complete
    raw = ex["raw"]
    if raw:
        need = {253: 3, 254: 5, 255: 9}.get(raw[0], 1)
        r = sut.call("deser", type="compactsize_norange", data=raw)
        if len(raw) < need:
            c.expect(not r["ok"], "c48.truncated-compactsize", "", raw=raw)
        else:
            val = m.deser_compact_size(io.BytesIO(raw))
            if m.ser_compact_size(val) == raw[:need]:
                c.expect(r["ok"] and r["n"] == val and r["remaining"] == len(raw) - need, "c48.compactsize", "decode disagreement", raw=raw, reply=r)
            else:
                c.expect(not r["ok"], "c48.noncanonical-compactsize", "", raw=raw, reply=r)
    # VarInt (used by the UTXO/undo/index formats)
    ve = m.ser_varint(v)
    r = sut.call("deser", type="varint", data=ve)
    c.expect(r["ok"] and r["n"] == v and r["remaining"] == 0 and r["reser"] == ve.hex(), "c48.varint", "VarInt not round-tripped", v=v, reply=r)
    c.nontrivial(v >= 253)
    c.mix(v.bit_length(), v in (252, 253, 0xffff, 0x10000, U32, U32 + 1), len(raw), raw[:1])
    c.note(f"compactsize/varint v={v} raw={raw.hex()}")


check = e2.dispatch({"obj": c_obj, "txspecial": c_txspecial, "compactsize": c_compactsize})

if __name__ == "__main__":
    e2.main(__file__, strategy=cases(), check=check)
