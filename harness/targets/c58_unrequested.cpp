// C58 — Unrequested blocks cannot fill the node's storage.
//
// Per case: a regtest node at tip height T = 104..112, a minimum chain work placed on purpose (none / +-1 work unit around a
// chosen height), and the headers of a 300-block side chain (forking at the base tip or 4 blocks below it). Blocks of the
// side chain are then delivered UNREQUESTED (force_processing=false) at heights around the three boundaries of the
// statement (work of the tip, tip+288, minimum chain work), interleaved with tip advances, duplicates and requested
// redeliveries.
//
// Oracle (own predicate, computed from what the harness built; the tip height is read from the node because the
// statement is relative to "the active tip"):
//     eligible(b) = work(b) >= work(tip)  &&  height(b) <= height(tip) + 288  &&  work(b) >= minimum chain work
//     work(b) = sum over the path of floor(2^256 / (target(nBits)+1)), in cpp_int (regtest: 2 per block).
//   stored  => eligible                                     [c58.stored-not-eligible]   (the statement)
//   !eligible => no BLOCK_HAVE_DATA, nTx==0, no failure flag, every file in blocks/ byte-identical, usage unchanged
//                                                           [c58.dropped-*]             (the statement)
//   eligible => stored (valid blocks, header connects)      [c58.eligible-not-stored]   (converse, from the DESIGN entry)
//   a dropped block delivered again as requested is stored and not failed; a short dropped side chain delivered as
//   requested up to more work than the tip becomes the tip  [c58.redelivery-*]
#include <engine/verif.h>
#include <kits/chainsim.h>

#include <util/time.h>

#include <boost/multiprecision/cpp_int.hpp>

#include <cstdio>
#include <filesystem>
#include <map>
#include <set>

using namespace verif;
using boost::multiprecision::cpp_int;

namespace {

constexpr int NSIDE = 300;
constexpr int NMAIN = 12;
struct Cache {
    bool built{false};
    std::vector<std::shared_ptr<const CBlock>> main_ext;    //!< M1..M12 on the base tip (heights 105..116)
    std::vector<std::shared_ptr<const CBlock>> side[2];     //!< [0]: forks at base height 104 (heights 105..404); [1]: forks at base height 100 (heights 101..400)
} g_cache;

void BuildCache(ChainSim& sim, const std::vector<uint256>& base)
{
    if (g_cache.built) return;
    uint256 prev = base.back();
    for (int j = 0; j < NMAIN; ++j) { BlockSpec sp; sp.prev = prev; sp.extra_nonce = 1000 + j; auto b = sim.Build(sp); g_cache.main_ext.push_back(b); prev = b->GetHash(); }
    for (int w = 0; w < 2; ++w) {
        prev = w == 0 ? base[103] : base[99];
        for (int i = 0; i < NSIDE; ++i) { BlockSpec sp; sp.prev = prev; sp.extra_nonce = 2000 + 1000 * w + i; auto b = sim.Build(sp); g_cache.side[w].push_back(b); prev = b->GetHash(); }
    }
    g_cache.built = true;
}

/** own chain-work arithmetic: proof of one block from its compact target, from the definition */
cpp_int BlockProof(uint32_t bits)
{
    int exp = bits >> 24;
    cpp_int mant = bits & 0x007fffff;
    cpp_int target = mant;
    if (exp <= 3) target >>= 8 * (3 - exp); else target <<= 8 * (exp - 3);
    return (cpp_int(1) << 256) / (target + 1);
}

uint64_t Fnv(uint64_t h, const unsigned char* p, size_t n) { for (size_t i = 0; i < n; ++i) { h ^= p[i]; h *= 0x100000001b3ULL; } return h; }

/** name -> (size, content hash) of every regular file directly in the blocks directory */
std::map<std::string, std::pair<uint64_t, uint64_t>> SnapshotDir(const fs::path& dir)
{
    std::map<std::string, std::pair<uint64_t, uint64_t>> out;
    for (const auto& e : std::filesystem::directory_iterator(dir)) {
        if (!e.is_regular_file()) continue;
        FILE* f = fopen(e.path().c_str(), "rb");
        if (!f) continue;
        unsigned char buf[16384];
        uint64_t h = 0xcbf29ce484222325ULL, sz = 0;
        size_t n;
        while ((n = fread(buf, 1, sizeof buf, f)) > 0) { h = Fnv(h, buf, n); sz += n; }
        fclose(f);
        out[e.path().filename().string()] = {sz, h};
    }
    return out;
}

} // namespace

VERIF_TARGET(c58_unrequested, nullptr, 16, 120,
             "regtest node at tip 104..112 (40% of cases: minimum chain work reached with a recent tip so that IBD is left, then InvalidateBlock drops the tip below the minimum again), minimum chain work none or +-1 work unit around a chosen height (near the tip, near tip+288, anywhere), "
             "headers of a 300-block side chain (fork at the base tip or 4 below; all headers or a prefix); then <=12 ops: UNREQUESTED delivery of the side "
             "block at height tip+{-2..2} / tip+288+{-2..2} / minwork height+{-1..1} / anywhere (incl. the first block whose header is new), advance the "
             "tip, duplicate unrequested delivery, requested redelivery of a dropped block, requested delivery of a short side prefix until it has more "
             "work than the tip (must become tip). Oracle: own three-condition predicate with cpp_int work <=> stored; dropped => no data, no failure "
             "flag, blocks/ directory byte-identical. non-trivial = at least one stored and one dropped unrequested delivery within +-1 of a boundary "
             "and one accepted requested redelivery; distinct = (boundary, offset, verdict) sequence")
{
    SetMockTime(0);
    // ---- choices that shape the node
    int w = s.boolean() ? 1 : 0;
    int k = s.range<int>(0, 8);
    // history shape "minimum chain work reached, initial block download left, then the tip falls back below the minimum" (InvalidateBlock):
    // the minimum-chain-work condition must keep protecting the node in that state
    const bool leave_ibd = s.chance(100);
    if (leave_ibd) k = std::max(k, 2);
    const int T0 = 104 + k;
    const int side_first_h = (w == 0 ? 105 : 101);
    int m = s.chance(60) ? s.range<int>(1, NSIDE) : NSIDE; // side headers announced up front
    unsigned minsel = s.pick<unsigned>({0, 0, 0, 1, 1, 2, 0, 3, 1, 4}); // 0 none, 1 near the tip, 2 near tip+288, 3 anywhere, 4 above everything
    if (leave_ibd) minsel = 5; // at or just below the work of a height the main chain reaches
    int hm = 0, moff = 0;
    const cpp_int proof = BlockProof(0x207fffff);
    auto work_at = [&](int h) { return proof * (h + 1); }; // genesis has height 0 and counts
    cpp_int minwork = 0;
    if (minsel > 0) {
        if (minsel == 1) hm = T0 + s.range<int>(-2, 2);
        else if (minsel == 2) hm = T0 + 288 + s.range<int>(-2, 2);
        else if (minsel == 3) hm = T0 + s.range<int>(0, 292);
        else if (minsel == 5) hm = T0 - s.range<int>(0, std::min(k - 1, 3));
        else hm = 1000; // above everything
        moff = minsel == 5 ? s.range<int>(-1, 0) : s.range<int>(-1, 1);
        minwork = work_at(hm) + moff;
    }
    ChainSimOpts o;
    o.fast_prune = true; // 64 KiB block files: cheap to snapshot; no pruning is configured
    if (minsel > 0) o.minimum_chain_work = arith_uint256(uint64_t(minwork));
    ChainSim sim(o);
    auto base = sim.LoadBase(104);
    BuildCache(sim, base);
    assert(sim.block_store.at(base[0])->nBits == 0x207fffff);
    const auto& side = g_cache.side[w];
    int main_next = 0;
    bool main_dead = false; // a main-chain block was invalidated: the main chain cannot be extended any more
    if (leave_ibd) SetMockTime(int64_t(g_cache.main_ext[k - 1]->nTime) + 1); // the tip is "recent": IBD ends as soon as the tip has the minimum chain work
    for (; main_next < k; ++main_next) { auto d = sim.Deliver(g_cache.main_ext[main_next]); assert(d.processed); }
    assert(sim.TipHeight() == T0);
    const bool ibd_left = !sim.chainman().IsInitialBlockDownload();
    if (leave_ibd) st.cls(ibd_left ? "ibd-left" : "ibd-exit-failed");
    {
        std::vector<CBlockHeader> hs;
        for (int i = 0; i < m; ++i) hs.push_back(static_cast<const CBlockHeader&>(*side[i]));
        BlockValidationState state;
        bool ok = sim.chainman().ProcessNewBlockHeaders(hs, true, state);
        assert(ok);
    }
    st.note("side=", w == 0 ? "fork@104" : "fork@100", " tip=", T0, " headers=", m, " minwork=", minsel ? "work(h=" + std::to_string(hm) + ")" + (moff < 0 ? "-1" : moff > 0 ? "+1" : "") : std::string("none"));
    st.mix(uint64_t(w)); st.mix(uint64_t(minsel)); st.mix(uint64_t(moff + 1));

    std::set<int> has_data;   // side indices whose data the node holds (model)
    std::vector<int> dropped; // side indices dropped at least once and not stored since
    int known_headers = m;    // side indices < known_headers have their header in the index
    int near_stored = 0, near_dropped = 0, redelivered = 0;
    const fs::path blocks_dir = sim.m_args.GetBlocksDirPath();

    auto node_index = [&](const uint256& h) -> CBlockIndex* { LOCK(cs_main); return sim.chainman().m_blockman.LookupBlockIndex(h); };
    auto status = [&](CBlockIndex* pi) { LOCK(cs_main); return pi->nStatus; };
    auto usage = [&]() { LOCK(cs_main); return sim.chainman().m_blockman.CalculateCurrentUsage(); };
    auto side_h = [&](int i) { return side_first_h + i; };

    auto requested = [&](int i, const char* why) {
        auto d = sim.Deliver(side[i], /*force=*/true);
        CBlockIndex* pi = node_index(side[i]->GetHash());
        st.steps++;
        VCHECK(d.processed && pi && (status(pi) & BLOCK_HAVE_DATA) && !(status(pi) & BLOCK_FAILED_VALID), "c58.redelivery-rejected", why, "requested delivery of side block h", side_h(i),
               "processed", d.processed, "verdict", d.verdict ? StateStr(*d.verdict) : "-");
        has_data.insert(i);
        dropped.erase(std::remove(dropped.begin(), dropped.end(), i), dropped.end());
        if (i + 1 > known_headers) known_headers = i + 1;
    };

    bool below_min_after_ibd = false;
    if (leave_ibd) {
        // the tip falls back (manual invalidation of a recent main-chain block, as the RPC does it): IBD stays "left" (one-way latch)
        int j = s.range<int>(0, k - 1); // main_ext[j] has height 105+j; the new tip has height 104+j
        CBlockIndex* pi = node_index(g_cache.main_ext[j]->GetHash());
        BlockValidationState state;
        bool ok = sim.chainstate().InvalidateBlock(state, pi);
        assert(ok);
        sim.chainstate().ActivateBestChain(state);
        sim.SyncSignals();
        main_dead = true;
        int T = sim.TipHeight();
        below_min_after_ibd = ibd_left && !sim.chainman().IsInitialBlockDownload() && work_at(T) < minwork;
        if (below_min_after_ibd) st.cls("ibd-left-then-tip-below-minwork");
        st.mix(uint64_t(950 + j));
        st.note("left IBD=", ibd_left, "; invalidated main block h=", 105 + j, " -> tip h=", T, work_at(T) < minwork ? " (below minimum chain work)" : "");
    }
    unsigned nops = s.range<unsigned>(1, 12);
    for (unsigned op = 0; op < nops; ++op) {
        unsigned kind = s.range<unsigned>(0, 9);
        const int T = sim.TipHeight();
        if (kind <= 6) {
            // ---- unrequested delivery near a boundary
            unsigned bsel = s.range<unsigned>(0, 3);
            int d = s.pick<int>({0, -1, 1, 0, -1, 1, -2, 2}), h;
            const char* bname;
            if (bsel == 0) { h = T + d; bname = "work"; }
            else if (bsel == 1) { h = T + 288 + d; bname = "height"; }
            else if (bsel == 2 && minsel > 0) { d = std::clamp(d, -1, 1); h = hm + d; bname = "minwork"; }
            else { h = side_first_h + s.range<int>(0, NSIDE - 1); bname = "any"; d = 0; }
            int i = std::clamp(h - side_first_h, 0, std::min(known_headers, NSIDE - 1)); // at most the first block with a new header
            h = side_h(i);
            const auto& blk = side[i];
            bool had = has_data.count(i) > 0;
            cpp_int wb = work_at(h), wt = work_at(T);
            bool c_work = wb >= wt, c_height = h <= T + 288, c_min = wb >= minwork;
            bool eligible = c_work && c_height && c_min;
            auto snap_before = SnapshotDir(blocks_dir);
            uint64_t use_before = usage();
            auto dl = sim.Deliver(blk, /*force=*/false);
            CBlockIndex* pi = node_index(blk->GetHash());
            st.steps++;
            if (pi && i + 1 > known_headers) known_headers = i + 1;
            uint32_t ns = pi ? status(pi) : 0;
            bool have = ns & BLOCK_HAVE_DATA;
            std::string ctx = strprintf("tip h=%d block h=%d work>=tip:%d height<=tip+288:%d work>=min:%d", T, h, c_work, c_height, c_min);
            st.note("unrequested h=", h, " [", bname, d >= 0 ? "+" : "", d, "] ", ctx, " -> ", have ? "stored" : "dropped");
            st.mix(uint64_t(bsel * 100 + (d + 2) * 10 + (have ? 1 : 0) + (c_work ? 2 : 0) + (c_height ? 4 : 0)));
            if (had) {
                st.cls("duplicate-of-stored");
                VCHECK(have, "c58.data-lost", ctx);
            } else if (!eligible) {
                VCHECK(!have, "c58.stored-not-eligible", ctx);
                VCHECK(!dl.new_block, "c58.stored-not-eligible", "new_block reported", ctx);
                VCHECK(!pi || WITH_LOCK(cs_main, return pi->nTx) == 0, "c58.dropped-but-processed", ctx);
                VCHECK(!(ns & BLOCK_FAILED_VALID), "c58.dropped-marked-invalid", ctx);
                VCHECK(dl.processed, "c58.dropped-reported-failure", ctx, dl.verdict ? StateStr(*dl.verdict) : "");
                VCHECK(usage() == use_before, "c58.dropped-but-written", "usage changed", ctx);
                VCHECK(SnapshotDir(blocks_dir) == snap_before, "c58.dropped-but-written", "a file in blocks/ changed", ctx);
                if (std::find(dropped.begin(), dropped.end(), i) == dropped.end()) dropped.push_back(i);
                st.cls("dropped");
                if (!c_work) st.cls("dropped-less-work");
                if (!c_height) st.cls("dropped-too-far-ahead");
                if (!c_min) st.cls("dropped-below-minwork");
                if (!c_min && c_work && c_height && below_min_after_ibd) st.cls("post-ibd-below-minwork-drop");
                if (h == T - 1 || h == T + 289 || (!c_min && work_at(h + 1) >= minwork)) { near_dropped++; st.cls("dropped-at-boundary"); }
            } else {
                VCHECK(have, "c58.eligible-not-stored", ctx, "processed", dl.processed, dl.verdict ? StateStr(*dl.verdict) : "");
                VCHECK(!(ns & BLOCK_FAILED_VALID), "c58.stored-marked-invalid", ctx);
                VCHECK(usage() >= use_before + ::GetSerializeSize(TX_WITH_WITNESS(*blk)), "c58.stored-but-usage", ctx);
                has_data.insert(i);
                dropped.erase(std::remove(dropped.begin(), dropped.end(), i), dropped.end());
                st.cls("stored");
                if (h == T || h == T + 288 || (minsel > 0 && work_at(h - 1) < minwork)) { near_stored++; st.cls("stored-at-boundary"); }
                if (h == T) st.cls("stored-equal-work");
            }
        } else if (kind == 7) {
            // ---- the tip advances (requested delivery of the next main-chain block); boundaries move with it unless a side chain took over
            if (main_next >= NMAIN || main_dead) continue;
            auto d = sim.Deliver(g_cache.main_ext[main_next++]);
            assert(d.processed);
            st.mix(uint64_t(900)); st.cls("tip-advance");
            st.note("main block h=", 104 + main_next, " delivered, tip h=", sim.TipHeight());
        } else if (kind == 8) {
            if (dropped.empty()) continue;
            int i = dropped[s.index(dropped.size())];
            requested(i, "redelivery");
            redelivered++;
            st.mix(uint64_t(901)); st.cls("requested-redelivery");
            st.note("requested redelivery h=", side_h(i), " accepted");
        } else {
            // ---- short side prefix delivered as requested until it has more work than the tip: must become the tip
            int need = T + 1 - side_first_h; // index of the first side block with more work than the tip
            if (need < 0 || need > 14 || need >= known_headers + 1) continue;
            bool on_side = false;
            { uint256 th = sim.TipHash(); for (int i = 0; i <= need && i < NSIDE; ++i) if (side[i]->GetHash() == th) on_side = true; }
            if (on_side) continue;
            for (int i = 0; i <= need; ++i) if (!has_data.count(i)) requested(i, "prefix");
            st.steps++;
            int top = need; // blocks stored earlier (unrequested) right above the prefix are linked as well
            while (top + 1 < NSIDE && has_data.count(top + 1)) ++top;
            VCHECK(sim.TipHash() == side[top]->GetHash(), "c58.redelivery-not-tip", "side chain with all data and more work did not become tip; side h", side_h(top), "tip h", sim.TipHeight());
            redelivered++;
            st.mix(uint64_t(902)); st.cls("side-became-tip");
            st.note("side prefix up to h=", side_h(need), " requested -> tip");
        }
    }
    // ---- every block dropped above can still be accepted when requested
    for (int i : std::vector<int>(dropped)) { requested(i, "final"); redelivered++; }
    if (redelivered) st.cls("redelivery-accepted");
    st.nontrivial = near_stored > 0 && near_dropped > 0 && redelivered > 0;
    SetMockTime(0);
    st.note("stored-at-boundary=", near_stored, " dropped-at-boundary=", near_dropped, " redelivered=", redelivered);
}
