// Header-only reference kit for linearization properties (C24, C25): an explicit-parent-list graph, own topological
// check, own chunking (definition based: repeatedly take the highest-feerate prefix), own exact feerate-diagram comparison
// (evaluation of both piecewise-linear diagrams at every breakpoint, __int128 rationals), own connectivity DFS, enumeration of
// all topological orders. Nothing in here calls into /repo code: it is the independent side of the oracles.
#ifndef VERIF_KITS_LINREF_H
#define VERIF_KITS_LINREF_H

#include <algorithm>
#include <cstdint>
#include <functional>
#include <vector>

namespace verif::linref {

using i128 = __int128;

struct RefTx {
    int64_t fee{0};
    int32_t size{1};
    std::vector<uint32_t> parents; //!< direct parents (indices into RefGraph::tx)
};

struct RefGraph {
    std::vector<RefTx> tx;
    size_t n() const { return tx.size(); }
    void add_dep(uint32_t parent, uint32_t child)
    {
        auto& p = tx[child].parents;
        if (std::find(p.begin(), p.end(), parent) == p.end()) p.push_back(parent);
    }
    /** children lists (derived) */
    std::vector<std::vector<uint32_t>> children() const
    {
        std::vector<std::vector<uint32_t>> c(tx.size());
        for (uint32_t i = 0; i < tx.size(); ++i) for (uint32_t p : tx[i].parents) c[p].push_back(i);
        return c;
    }
};

/** fee/size pair with wide accumulators */
struct FS {
    i128 fee{0};
    int64_t size{0};
};

/** sign of (a.fee/a.size - b.fee/b.size) for positive sizes, exact */
inline int cmp_feerate(const FS& a, const FS& b)
{
    i128 l = a.fee * b.size, r = b.fee * a.size; // |fee| < 2^70, size < 2^32: no overflow
    return l < r ? -1 : l > r ? 1 : 0;
}

/** true iff lin is a permutation of 0..n-1 */
inline bool is_permutation_of_all(const std::vector<uint32_t>& lin, size_t n)
{
    if (lin.size() != n) return false;
    std::vector<char> seen(n, 0);
    for (uint32_t v : lin) { if (v >= n || seen[v]) return false; seen[v] = 1; }
    return true;
}

/** position of the first transaction placed before one of its (direct) parents, or -1 if topological. lin must be a permutation
 *  of a subset `present` (all others are ignored as parents only if absent). */
inline int first_topology_violation(const RefGraph& g, const std::vector<uint32_t>& lin)
{
    std::vector<char> placed(g.n(), 0), member(g.n(), 0);
    for (uint32_t v : lin) member[v] = 1;
    for (size_t k = 0; k < lin.size(); ++k) {
        for (uint32_t p : g.tx[lin[k]].parents) if (member[p] && !placed[p]) return int(k);
        placed[lin[k]] = 1;
    }
    return -1;
}

/** Own chunking by definition: the first chunk is the prefix with the highest feerate (longest such prefix), then recurse on the rest.
 *  Returns (fee,size) per chunk plus the number of transactions in each. */
struct RefChunk { FS fs; size_t count; };
inline std::vector<RefChunk> chunk_by_definition(const RefGraph& g, const std::vector<uint32_t>& lin)
{
    std::vector<RefChunk> out;
    size_t start = 0;
    while (start < lin.size()) {
        FS acc, best;
        size_t best_len = 0;
        for (size_t k = start; k < lin.size(); ++k) {
            acc.fee += g.tx[lin[k]].fee; acc.size += g.tx[lin[k]].size;
            if (best_len == 0 || cmp_feerate(acc, best) >= 0) { best = acc; best_len = k - start + 1; }
        }
        out.push_back({best, best_len});
        start += best_len;
    }
    return out;
}

/** Exact comparison of two feerate diagrams given as chunk (fee,size) lists (any order of slopes): each diagram starts at (0,0),
 *  is linear between cumulative points and horizontal after the last. Returns 1 if a >= b everywhere and > somewhere, -1 for the
 *  reverse, 0 if identical as functions, 2 if incomparable. */
inline int compare_diagrams(const std::vector<FS>& a, const std::vector<FS>& b)
{
    struct Pt { int64_t x; i128 y; };
    auto pts = [](const std::vector<FS>& c) { std::vector<Pt> p{{0, 0}}; for (auto& q : c) p.push_back({p.back().x + q.size, p.back().y + q.fee}); return p; };
    auto pa = pts(a), pb = pts(b);
    // value of diagram p at x as a rational (num, den)
    auto eval = [](const std::vector<Pt>& p, int64_t x, i128& num, i128& den) {
        if (x >= p.back().x) { num = p.back().y; den = 1; return; }
        size_t i = 0;
        while (!(p[i].x <= x && x < p[i + 1].x)) ++i;
        i128 dx = p[i + 1].x - p[i].x, dy = p[i + 1].y - p[i].y;
        num = p[i].y * dx + dy * (x - p[i].x); den = dx;
    };
    bool a_better = false, b_better = false;
    auto at = [&](int64_t x) {
        i128 na, da, nb, db;
        eval(pa, x, na, da); eval(pb, x, nb, db);
        i128 l = na * db, r = nb * da; // |num| < 2^(70+32), den < 2^32: fits
        if (l > r) a_better = true;
        if (l < r) b_better = true;
    };
    for (auto& p : pa) at(p.x);
    for (auto& p : pb) at(p.x);
    if (a_better && b_better) return 2;
    return a_better ? 1 : b_better ? -1 : 0;
}

inline std::vector<FS> diagram_of(const RefGraph& g, const std::vector<uint32_t>& lin)
{
    std::vector<FS> d;
    for (auto& c : chunk_by_definition(g, lin)) d.push_back(c.fs);
    return d;
}

/** connectivity of a set of transactions using direct dependencies among members only (undirected DFS) */
inline bool is_connected(const RefGraph& g, const std::vector<uint32_t>& members)
{
    if (members.size() <= 1) return true;
    std::vector<char> in(g.n(), 0), seen(g.n(), 0);
    for (uint32_t m : members) in[m] = 1;
    auto ch = g.children();
    std::vector<uint32_t> stack{members[0]};
    seen[members[0]] = 1;
    size_t cnt = 0;
    while (!stack.empty()) {
        uint32_t v = stack.back(); stack.pop_back(); ++cnt;
        for (uint32_t p : g.tx[v].parents) if (in[p] && !seen[p]) { seen[p] = 1; stack.push_back(p); }
        for (uint32_t c : ch[v]) if (in[c] && !seen[c]) { seen[c] = 1; stack.push_back(c); }
    }
    return cnt == members.size();
}

/** number of connected components of the whole graph */
inline size_t component_count(const RefGraph& g)
{
    std::vector<int> comp(g.n(), -1);
    auto ch = g.children();
    size_t k = 0;
    for (uint32_t s = 0; s < g.n(); ++s) {
        if (comp[s] >= 0) continue;
        std::vector<uint32_t> stack{s}; comp[s] = int(k);
        while (!stack.empty()) {
            uint32_t v = stack.back(); stack.pop_back();
            for (uint32_t p : g.tx[v].parents) if (comp[p] < 0) { comp[p] = int(k); stack.push_back(p); }
            for (uint32_t c : ch[v]) if (comp[c] < 0) { comp[c] = int(k); stack.push_back(c); }
        }
        ++k;
    }
    return k;
}

/** all ancestors (transitive, excluding self) */
inline std::vector<std::vector<char>> ancestor_matrix(const RefGraph& g)
{
    size_t n = g.n();
    std::vector<std::vector<char>> anc(n, std::vector<char>(n, 0));
    // iterate to fixpoint (n <= 64)
    bool changed = true;
    for (uint32_t i = 0; i < n; ++i) for (uint32_t p : g.tx[i].parents) anc[i][p] = 1;
    while (changed) {
        changed = false;
        for (uint32_t i = 0; i < n; ++i) for (uint32_t p = 0; p < n; ++p) if (anc[i][p]) for (uint32_t q = 0; q < n; ++q) if (anc[p][q] && !anc[i][q]) { anc[i][q] = 1; changed = true; }
    }
    return anc;
}

/** enumerate every topological order (callback gets the complete order); returns the number of orders; stops after `limit` */
inline uint64_t for_each_topological_order(const RefGraph& g, uint64_t limit, const std::function<void(const std::vector<uint32_t>&)>& cb)
{
    size_t n = g.n();
    std::vector<uint32_t> cur;
    std::vector<char> placed(n, 0);
    uint64_t count = 0;
    std::function<void()> rec = [&]() {
        if (count >= limit) return;
        if (cur.size() == n) { ++count; cb(cur); return; }
        for (uint32_t v = 0; v < n; ++v) {
            if (placed[v]) continue;
            bool ok = true;
            for (uint32_t p : g.tx[v].parents) if (!placed[p]) { ok = false; break; }
            if (!ok) continue;
            placed[v] = 1; cur.push_back(v);
            rec();
            cur.pop_back(); placed[v] = 0;
        }
    };
    rec();
    return count;
}

} // namespace verif::linref

#endif // VERIF_KITS_LINREF_H
