// consensus_ref: reference functions written from the BIPs / protocol rules (NOT from the repo's implementation) and
// the block fault-delivery helper shared by the consensus-rule targets (C01, C02, C05, C06).
//   * sigop counting (Satoshi legacy rule, BIP16 accurate P2SH rule, BIP141 witness rule and x4 scaling)
//   * serialized sizes / weights (BIP141/BIP144) computed from the fields, never by serializing
//   * absolute locktime (IsFinal), BIP113 cutoff, BIP68 relative locks, coinbase maturity over a RefLedger path
//   * DeliverFault(): deliver a block that the caller made invalid and report verdict / tip / UTXO-hash preservation
// Nothing here calls GetSigOpCount/GetTransactionSigOpCost/CountWitnessSigOps/GetBlockWeight/GetTransactionWeight/
// IsFinalTx/SequenceLocks/CalculateSequenceLocks/GetMedianTimePast.
#ifndef VERIF_KITS_CONSENSUS_REF_H
#define VERIF_KITS_CONSENSUS_REF_H

#include <engine/verif.h>
#include <kits/chainsim.h>

#include <cstdint>
#include <optional>
#include <set>
#include <string>
#include <vector>

namespace verif::cref {

using Bytes = std::vector<unsigned char>;

constexpr int64_t REF_MAX_MONEY = 2100000000000000LL; //!< 21e6 * 1e8
constexpr int64_t REF_MAX_BLOCK_WEIGHT = 4000000;
constexpr int64_t REF_MAX_BLOCK_SIGOPS_COST = 80000;
constexpr int REF_COINBASE_MATURITY = 100;
constexpr int64_t REF_LOCKTIME_THRESHOLD = 500000000;  //!< below: block height, at/above: unix time
constexpr uint32_t REF_SEQ_FINAL = 0xffffffffu;
constexpr uint32_t REF_SEQ_DISABLE = 1u << 31;         //!< BIP68: bit 31 set => no relative lock
constexpr uint32_t REF_SEQ_TYPE_TIME = 1u << 22;       //!< BIP68: bit 22 set => units of 512 s
constexpr uint32_t REF_SEQ_MASK = 0x0000ffffu;

inline Bytes ToBytes(const CScript& s) { return Bytes(s.begin(), s.end()); }

// ------------------------------------------------------------------ script scanning / sigops
struct RefOp {
    unsigned char code{0};
    Bytes data;          //!< pushed bytes for the push opcodes 0x01..0x4e (empty otherwise)
};
/** Parse one opcode at `pc`; false if the script is truncated inside a push (pc is then unspecified). */
bool ParseOp(const Bytes& script, size_t& pc, RefOp& op);
/** Static sigop count of a script: every CHECKSIG(VERIFY) outside push data counts 1; CHECKMULTISIG(VERIFY) counts 20, or, in
 *  accurate mode, n when directly preceded by OP_1..OP_16; scanning stops silently at a truncated push. */
unsigned RefSigOps(const Bytes& script, bool accurate);
bool RefIsP2SH(const Bytes& spk);
/** witness program: 4..42 bytes, version opcode OP_0 or OP_1..OP_16, then one direct push of 2..40 bytes covering the rest */
bool RefIsWitnessProgram(const Bytes& spk, int& version, Bytes& program);
/** scriptSig consists of push operations only (opcodes <= OP_16) and parses completely; `last` = data of the last push */
bool RefPushOnly(const Bytes& script_sig, Bytes& last);
/** BIP16: sigops of the redeem script (last push of a push-only scriptSig), accurate mode; 0 if the scriptSig is not push-only */
unsigned RefP2SHSigOps(const Bytes& spk, const Bytes& script_sig);
/** BIP141: P2WPKH = 1, P2WSH = accurate count of the last witness item, native or P2SH-wrapped; other versions 0 */
unsigned RefWitnessSigOps(const Bytes& spk, const Bytes& script_sig, const std::vector<Bytes>& witness);
/** BIP141 sigop cost of a transaction: 4 x (legacy in scriptSigs and scriptPubKeys) + 4 x P2SH + 1 x witness; coinbase: legacy only.
 *  `spent[i]` = scriptPubKey spent by input i (ignored for a coinbase). */
int64_t RefTxSigOpCost(const CTransaction& tx, const std::vector<Bytes>& spent);

// ------------------------------------------------------------------ sizes / weight (from the fields)
size_t RefCompactSizeLen(uint64_t n);
size_t RefTxStrippedSize(const CTransaction& tx);
bool RefTxHasWitness(const CTransaction& tx);
size_t RefTxTotalSize(const CTransaction& tx);
int64_t RefTxWeight(const CTransaction& tx);
size_t RefBlockStrippedSize(const CBlock& b);
int64_t RefBlockWeight(const CBlock& b);

// ------------------------------------------------------------------ timelocks
/** nLockTime rule: 0 => final; else final if locktime < (height | time cutoff) by type; else final only if every nSequence is 0xffffffff */
bool RefIsFinal(const CTransaction& tx, int block_height, int64_t time_cutoff);
struct RefLockVerdict {
    bool absolute_ok{true};   //!< nLockTime rule (BIP113 cutoff when csv_active)
    bool maturity_ok{true};   //!< every spent coinbase output has >= 100 confirmations
    bool relative_ok{true};   //!< BIP68 (only evaluated when csv_active and tx version >= 2)
    bool near_boundary{false};//!< some lock is within 1 unit (block / second / 512 s step / confirmation) of flipping
    bool ok() const { return absolute_ok && maturity_ok && relative_ok; }
};
/** Verdict for `tx` included in a block with parent `prev` and timestamp `block_time`; `spent[i]` = coin spent by input i
 *  (height and coinbase flag matter). MTPs come from the ledger's own median computation. */
RefLockVerdict RefTimelocks(const RefLedger& ledger, const uint256& prev, int64_t block_time, const CTransaction& tx,
                            const std::vector<RefCoin>& spent, bool csv_active);

// ------------------------------------------------------------------ fault delivery
/** Copy of a block with the memoised validity flags (fChecked, merkle/witness-commitment) cleared: a copy of an already
 *  checked block would otherwise skip CheckBlock. */
CBlock CloneBlock(const CBlock& b);

struct FaultOutcome {
    bool processed{false};       //!< ProcessNewBlock return value
    bool have_verdict{false};    //!< a BlockChecked notification was seen
    bool rejected{false};        //!< verdict present and invalid, or ProcessNewBlock returned false with an invalid verdict
    std::string reason;          //!< reject reason ("" if none)
    std::string debug;
    uint256 hash;
    uint256 tip_before, tip_after;
    uint256 utxo_before, utxo_after; //!< hash_serialized (after flush); both null when with_utxo_hash=false (no flush is forced then)
    bool became_tip{false};
    bool untouched() const { return tip_before == tip_after && utxo_before == utxo_after; }
};
/** Finalize (merkle root, optional witness commitment, nonce), register with the ledger/block store and deliver `b`;
 *  reports the verdict and whether tip / hash_serialized changed. The caller decides what is expected. */
FaultOutcome DeliverFault(ChainSim& sim, CBlock& b, bool commit_witness = true, bool finalize = true, bool with_utxo_hash = true);

/** True if the node's coins view (cache over DB) has an unspent coin for `op`. */
bool NodeHaveCoin(ChainSim& sim, const COutPoint& op);

// ------------------------------------------------------------------ memoised model replay
/** RefLedger::Replay(tip) is a pure function of the tip hash (ledger blocks are immutable) but costs a UTXO-map copy per block;
 *  histories ask for the same tips again and again. */
class ReplayCache
{
public:
    explicit ReplayCache(const RefLedger& l) : m_l(l) {}
    const RefReplay& Get(const uint256& tip);

private:
    const RefLedger& m_l;
    std::map<uint256, RefReplay> m_cache;
};

// ------------------------------------------------------------------ valid-transaction generator (validity by construction)
/** Generates transactions spending coins of a model UTXO map whose scripts the harness can satisfy (anyone-can-spend P2WSH /
 *  bare OP_TRUE, and P2WPKH / P2PKH / P2SH-P2WPKH / P2TR / P2PK of the 8 harness keys). */
class TxGen
{
public:
    explicit TxGen(ChainSim& sim);
    bool Spendable(const CScript& spk) const { return m_spendable.count(spk) > 0; }
    struct Made {
        CTransactionRef tx;
        CAmount in{0}, out{0};
        std::vector<std::pair<COutPoint, RefCoin>> ins;
        std::vector<CTxOut> outs;
        bool spends_coinbase{false};
        bool spends_same_block{false};
        CAmount fee() const { return in - out; }
    };
    /** One valid transaction for a block at `height` on top of the state `u` (mature, spendable coins only); `u` is updated.
     *  fee_mode: 0 zero fee, 1 random fee (possibly 0), 2 everything to fees (one 0-value OP_RETURN output), 3 fee >= 1.
     *  Returns nullopt if no spendable coin exists. Zero bytes => 1 input (the last spendable coin), 1 output, simplest. */
    std::optional<Made> Make(Src& s, RefUtxo& u, int height, int fee_mode, unsigned max_in = 3, uint32_t locktime = 0,
                             uint32_t sequence = 0xffffffff, uint32_t version = 2);
    /** Same inputs as `m`, other outputs/fields, signed again. */
    CTransactionRef Remake(const Made& m, const std::vector<CTxOut>& outs, uint32_t locktime = 0, uint32_t sequence = 0xffffffff, uint32_t version = 2);
    /** Apply tx to a model UTXO map (inputs must exist) */
    static void Apply(RefUtxo& u, const CTransaction& tx, int height);
    CScript RandomOutScript(Src& s, bool allow_op_return = true);

private:
    ChainSim& m_sim;
    std::set<CScript> m_spendable;
};

} // namespace verif::cref

#endif // VERIF_KITS_CONSENSUS_REF_H
