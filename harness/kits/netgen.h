// Address construction helpers for the networking properties (C37, C60, ...): build CNetAddr values of every network
// from raw bytes without going through the string parsers under test.
#ifndef VERIF_KITS_NETGEN_H
#define VERIF_KITS_NETGEN_H

#include <netaddress.h>

#include <array>
#include <cstdint>
#include <span>
#include <string>
#include <vector>

namespace verif::netgen {

/** BIP155 network ids (from the BIP) */
enum : uint8_t { BIP155_IPV4 = 1, BIP155_IPV6 = 2, BIP155_TORV2 = 3, BIP155_TORV3 = 4, BIP155_I2P = 5, BIP155_CJDNS = 6 };

CNetAddr ipv4(uint8_t a, uint8_t b, uint8_t c, uint8_t d);
CNetAddr ipv6(const std::array<uint8_t, 16>& bytes);
/** Decode (network id, address bytes) through the BIP155 (addrv2) deserializer; returns a default (invalid) CNetAddr on failure. */
CNetAddr from_bip155(uint8_t netid, std::span<const uint8_t> bytes);
/** 32-byte / 16-byte payloads expanded from a seed (splitmix64); CJDNS gets the 0xfc prefix. */
std::vector<uint8_t> expand(uint64_t seed, size_t n);
CNetAddr torv3(uint64_t seed);
CNetAddr i2p(uint64_t seed);
CNetAddr cjdns(uint64_t seed);
CNetAddr internal(const std::string& name);

} // namespace verif::netgen

#endif
