// C22 — The mempool stays consistent and every entry is valid for the next block.
// Histories on a MempoolSim node; after EVERY operation the real pool is snapshotted and re-derived independently:
//   (a) CheckSnapshot: every input is an unspent output of the active chain (RefLedger replay) or an output of another pool tx, no
//       outpoint spent twice, entry fee == in - out, parent/child/ancestor/descendant/cluster answers == recomputation from inputs,
//       totals == sums;
//   (b) the model's own next-block rules (inputs, amounts, maturity, nLockTime, BIP68) accept ALL pool txs in topological order;
//   (c) strong clause: a harness-built block holding ALL pool txs (clusters whole, topological) passes TestBlockValidity on the tip.
// CTxMemPool::check() (ratio 1) runs as an additional monitor.
#include <engine/verif.h>
#include <kits/mempoolhist.h>

#include <hash.h>

#include <set>

using namespace verif;

namespace {

struct Oracle {
    MempoolSim& ms;
    Stats& st;
    int checks{0};
    uint256 last_block_check_key; //!< (tip, pool wtxids, fees) at the last strong-clause check: an unchanged state is not re-validated

    void CheckAll(const char* where)
    {
        const PoolSnap& snap = ms.LastSnap(); // the driver has just Sync()ed
        st.steps++;
        checks++;
        const PoolIssue is = CheckSnapshot(snap, ms.ChainUtxo());
        if (is) {
            const std::string oid = "c22." + is.id;
            VCHECK(false, oid, where, is.msg, "pool", snap.entries.size(), "tip height", snap.tip_height);
        }
        if (snap.entries.empty()) return;
        const ModelPool& m = ms.Belief();
        std::vector<CTransactionRef> all;
        const auto topo = m.TopoOrder();
        for (const auto& t : *topo) all.push_back(m.txs.at(t));
        const std::string verdict = ms.ModelNextBlockVerdict(all);
        VCHECK(verdict.empty(), "c22.model-next-block", where, "a pool transaction is not valid for the next block by the model:", verdict, "tip height", snap.tip_height);
        {
            HashWriter hw;
            hw << snap.tip;
            for (const auto& [id, e] : snap.entries) hw << e.tx->GetWitnessHash().ToUint256() << e.fee;
            const uint256 key = hw.GetHash();
            if (key == last_block_check_key) return;
            last_block_check_key = key;
        }
        st.steps++;
        for (const CBlock& b : ms.WholePoolBlocks(snap)) {
            const BlockValidationState bs = ms.sim().TestValidity(b);
            VCHECK(bs.IsValid(), "c22.whole-pool-block", where, "block holding", b.vtx.size() - 1, "pool txs on the tip fails TestBlockValidity:", StateStr(bs), "tip height", snap.tip_height);
        }
    }
};

} // namespace

VERIF_TARGET(c22_mempool_history, nullptr, 140, 2200,
             "histories (6-48 ops, kits/mempoolhist) on a regtest node (110-block base + funding block; cluster-count limit 2..64, optional 1 MB -maxmempool, 1 h expiry): submit generated "
             "transactions/packages (plain, chains, merges, RBF conflicts at the fee threshold, TRUC parent/child/sibling, ephemeral-dust and CPFP packages, nLockTime and BIP68 at "
             "their boundary, coinbase spends at the maturity boundary, oversized, junk, re-submissions), mine a block from a pool subset plus conflicting non-pool txs, reorg by "
             "InvalidateBlock depth 1-3 or by a competing longer branch, reconsider, mock-time jumps + Expire, PrioritiseTransaction, TrimToSize; after every op the pool is "
             "re-derived independently and a block of ALL pool txs must pass TestBlockValidity. non-trivial = a reorg happened while the pool (or the disconnected blocks) held a "
             "time-locked or coinbase-spending transaction; distinct = op kinds, generated kinds, accept/reject reasons, reorg depths")
{
    MempoolSimOpts o = PickHistoryConfig(s, st);
    // CTxMemPool::check() after every ATMP/block is only an additional monitor and costs ~6x the rest of a case under ASan: on in a quarter of the cases
    o.with_mempool_checks = s.chance(64);
    if (o.with_mempool_checks) st.cls("with-CTxMemPool-check");
    MempoolSim ms(o);
    Oracle oracle{ms, st};
    HistoryHooks hooks;
    hooks.prefix = "c22";
    hooks.check = [&](const char* where) { oracle.CheckAll(where); };
    MempoolHistory h(ms, s, st, hooks);
    h.WarmUp(3);
    h.Run(s.range<unsigned>(6, 48));
    h.Finish();
    st.nontrivial = h.reorg_with_sensitive && h.accepted >= 2;
    Note(st, "checks=", oracle.checks);
}
