// Engine E4 helper (DESIGN.md §3.6, hook H1): seeded yield injection at scheduling points.
// Header-only on purpose (kits/*.cpp are linked into every binary; this must never break anybody's build).
//
// If /repo carries hook H1 (src/verif_hooks.h, guard BITCOIN_VERIF_HOOKS) the repo's guarded points
// (CCheckQueue::Loop, CoinsViewOverlay::ProcessInput/FetchCoinFromBase, ThreadPool::WorkerThread) call Point(site);
// without the hook only the harness' own threads call Point() explicitly. Either way the decision taken at the n-th
// point of a run is a pure function of (seed, n): nothing / yield / sleep 0..200us / short spin.  The helper uses relaxed
// atomics only, so it adds no happens-before edges that could hide a race from ThreadSanitizer.
#ifndef VERIF_KITS_SCHEDHOOK_H
#define VERIF_KITS_SCHEDHOOK_H

#include <atomic>
#include <chrono>
#include <cstdint>
#include <thread>

#if defined(BITCOIN_VERIF_HOOKS) && __has_include(<verif_hooks.h>)
#include <verif_hooks.h>
#define VERIF_HAVE_H1 1
#else
#define VERIF_HAVE_H1 0
#endif

namespace verif::sched {

inline std::atomic<uint64_t> g_seed{0};
inline std::atomic<unsigned> g_intensity{0}; //!< 0 = off; else roughly n/256 of the points perturb the schedule
inline std::atomic<uint64_t> g_points{0};
inline std::atomic<uint64_t> g_taken{0};
inline std::atomic<uint64_t> g_repo_points{0}; //!< points reported from inside /repo (hook H1)

inline uint64_t Mix(uint64_t x)
{
    x += 0x9e3779b97f4a7c15ULL;
    x = (x ^ (x >> 30)) * 0xbf58476d1ce4e5b9ULL;
    x = (x ^ (x >> 27)) * 0x94d049bb133111ebULL;
    return x ^ (x >> 31);
}

/** A scheduling point. `site` is only used to diversify the decision. */
inline void Point(const char* site)
{
    const unsigned inten = g_intensity.load(std::memory_order_relaxed);
    if (inten == 0) return;
    const uint64_t n = g_points.fetch_add(1, std::memory_order_relaxed);
    uint64_t h = Mix(g_seed.load(std::memory_order_relaxed) ^ Mix(n) ^ (site ? uint64_t(uint8_t(site[0])) << 56 : 0));
    if ((h & 0xff) >= inten) return;
    g_taken.fetch_add(1, std::memory_order_relaxed);
    h >>= 8;
    switch (h & 3) {
    case 0:
    case 1: std::this_thread::yield(); break;
    case 2: std::this_thread::sleep_for(std::chrono::microseconds((h >> 2) % 201)); break;
    default: { // short spin: keeps the core, lets the others run ahead
        volatile unsigned sink = 0;
        for (unsigned i = 0, e = unsigned((h >> 2) % 4000); i < e; ++i) sink = sink + i;
        break;
    }
    }
}

inline void RepoPoint(const char* site)
{
    g_repo_points.fetch_add(1, std::memory_order_relaxed);
    Point(site);
}

inline constexpr bool HookAvailable() { return VERIF_HAVE_H1 != 0; }

/** Start perturbing (and, with H1, install the repo-side callback). */
inline void Arm(uint64_t seed, unsigned intensity)
{
    g_seed.store(seed, std::memory_order_relaxed);
    g_points.store(0, std::memory_order_relaxed);
    g_taken.store(0, std::memory_order_relaxed);
    g_repo_points.store(0, std::memory_order_relaxed);
    g_intensity.store(intensity, std::memory_order_relaxed);
#if VERIF_HAVE_H1
    ::verif_hooks::g_sched_point.store(intensity ? &RepoPoint : nullptr, std::memory_order_relaxed);
#endif
}

inline void Disarm()
{
    g_intensity.store(0, std::memory_order_relaxed);
#if VERIF_HAVE_H1
    ::verif_hooks::g_sched_point.store(nullptr, std::memory_order_relaxed);
#endif
}

inline uint64_t Points() { return g_points.load(std::memory_order_relaxed); }
inline uint64_t Taken() { return g_taken.load(std::memory_order_relaxed); }
inline uint64_t RepoPoints() { return g_repo_points.load(std::memory_order_relaxed); }

} // namespace verif::sched

#endif // VERIF_KITS_SCHEDHOOK_H
