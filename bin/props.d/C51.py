# C51: stage list (what ./check C51 quick|thorough runs) and manifest text. Helpers gen()/enum()/hyp()/custom() come from props.py.
SPEC = {
    "level": "exploration",
    "assumptions": [
        "reference BIP158 encoder: own SipHash-2-4, (hash * N*M) >> 64, ascending sort, Golomb-Rice (unary quotient, P-bit remainder), MSB-first bit packing, CompactSize(N) prefix",
        "reference BIP37 bloom model: own MurmurHash3 x86_32, seed i*0xFBA4C795 + tweak, bit (h mod 8*size), LSB-first within a byte; CBloomFilter constructor only with nElements >= 1 and 0 < fp rate < 1",
        "rolling bloom filter: documented guarantee 'contains every one of the last N inserted items'",
        "partial merkle tree: distinct txids (a block cannot repeat a txid), own SHA256d merkle tree and own BIP37 depth-first flag/hash encoder; the corruption clause is one-directional "
        "(true root returned => every extracted (position, txid) is in the block) and assumes no SHA256d collisions",
        "GCS parameters restricted to P <= 32 and M <= 2^(P+3) (quotients stay short); sets up to 20,000 elements",
    ],
    "stages": [
        gen("vh_c51", "c51_gcs", 24000, 400000, max_seconds_quick=600, min_cases_quick=2000,
            floors={"gcs-set": 0.5, "blockfilter-basic": 0.08, "quotient>=2": 0.2, "repeated-elements": 0.2, "bip158-basic-params": 0.15, "empty-set": 0.02, "set>=2000": 0.002},
            rule="GCS encoding == own BIP158 encoder, all elements match (also after re-parse); BlockFilter(BASIC) vs own element rule"),
        gen("vh_c51", "c51_bloom", 30000, 500000, max_seconds_quick=600, min_cases_quick=2000,
            floors={"live-filter-with-keys": 0.4, "from-wire-bytes": 0.15, "constructed": 0.3, "size-at-limit": 0.02, "funcs-at-limit": 0.01, "empty-filter(match-all)": 0.02,
                    "tx-relevance:script-data": 0.05, "tx-relevance:spent-outpoint": 0.05},
            rule="every inserted key/outpoint contained; filter bytes and contains() == own BIP37 model; touching transactions relevant"),
        gen("vh_c51", "c51_rolling", 16000, 250000, max_seconds_quick=600, min_cases_quick=1000,
            floors={"inserted>3N": 0.15, "inserted>1.5N": 0.1, "reinserted-keys": 0.3, "tiny-capacity": 0.05, "with-reset": 0.03},
            rule="each of the last N inserted keys is contained at every check point; non-trivial = more than 1.5N insertions"),
        gen("vh_c51", "c51_pmt", 60000, 1000000, max_seconds_quick=600, min_cases_quick=4000,
            floors={"n-not-power-of-two": 0.4, "partial-match": 0.3, "no-match": 0.05, "all-match": 0.05, "corruption:true-root": 0.03, "corruption:rejected": 0.05, "n>=500": 0.005},
            rule="ExtractMatches == matched txids + positions + own merkle root; bytes == own BIP37 encoder; corrupted bytes never give the true root with a foreign txid"),
        gen("vh_c51", "up_golomb_rice", 8000, 150000, max_seconds_quick=600, rule="upstream fuzz target golomb_rice (own encoder model inside), supplementary"),
        gen("vh_c51", "up_blockfilter", 8000, 150000, max_seconds_quick=600, rule="upstream fuzz target blockfilter, supplementary"),
        gen("vh_c51", "up_bloom_filter", 8000, 150000, max_seconds_quick=600, rule="upstream fuzz target bloom_filter (insert => contains asserts), supplementary"),
        gen("vh_c51", "up_rolling_bloom_filter", 8000, 150000, max_seconds_quick=600, rule="upstream fuzz target rolling_bloom_filter, supplementary"),
        gen("vh_c51", "up_merkleblock", 8000, 150000, max_seconds_quick=600, rule="upstream fuzz target merkleblock, supplementary"),
        # coverage-guided libFuzzer campaign on the same target (thorough tier only; fz tree = g++ trace-pc + covshim)
        fuzz('vh_c51', 'c51_pmt', 300, max_len=300),
        fuzz('vh_c51', 'c51_gcs', 300, max_len=400),
    ],
}

META = {
    "level_text": "Generated element sets, insertion sequences and match subsets: GCS filters are compared byte-for-byte with an own BIP158 encoder and every element must match; "
                  "bloom filters are compared bit-for-bit with an own BIP37 model and every inserted key must be contained; rolling bloom filters must contain each of the last N "
                  "insertions at every check point; partial merkle trees must extract exactly the matched txids, positions and the own merkle root, equal the own BIP37 encoding, "
                  "and survive byte corruption without ever vouching for a foreign txid. Exploration over sampled inputs.",
    "technique": "property-based testing: generated sets/sequences + independent reference encoders and models (differential), no-false-negative invariant, round trips",
}
