# C29: stage list (what ./check C29 quick|thorough runs) and manifest text. Helpers gen()/enum()/hyp()/custom() come from props.py.
SPEC = {'level': 'exploration',
 'assumptions': ['malformedness is decided by the harness model written from the statement (count > 25; > 1 tx and total weight > 404000 with the weight recomputed from the '
                 'serialization; duplicate txid incl. witness twins; an input spending a LATER package tx; an outpoint spent by two package txs; for submissions with > 1 tx: a '
                 'non-last tx that is not a direct parent of the last)',
                 '"evaluated" is observed as: any per-transaction result present, or a change of the pool transaction set',
                 'test-accept packages (arbitrary topologies are allowed there) are judged only for the context-free clauses and for leaving the pool unchanged',
                 'an in-package parent counts as present if it is in the pool or the spent output is an unspent output of the active chain (RefLedger replay)',
                 'results are looked up by wtxid; "in the pool" is read from a snapshot of the real pool after the call (mapTx), by txid and wtxid'],
 'stages': [gen('vh_c29', 'c29_packages', 448, 8000, min_cases_quick=160,
                floors={'malformed:unsorted': 0.05, 'malformed:duplicates': 0.04, 'malformed:conflict': 0.02, 'malformed:not-child-with-parents': 0.15,
                        'malformed:count': 0.01, 'malformed:weight': 0.01, 'well-formed:multi': 0.5, 'evaluated:all-entered': 0.3, 'evaluated:partial': 0.1,
                        'result:INVALID': 0.3, 'result:MEMPOOL_ENTRY': 0.03, 'result:DIFFERENT_WITNESS': 0.01, 'evaluated:cpfp-sponsored-parent': 0.05,
                        'count=25': 0.005, 'weight:just-within': 0.005, 'shape:later-parent-replaces-ancestor': 0.2, 'parent-evicted-by-later-parent-rbf': 0.04},
                rule='2-6 generated packages per case against a generated pool; non-trivial = a well-formed package of >= 3 txs evaluated with a member entering the pool and a '
                     'malformed package in the same case')]}

META = {'level_text': 'Generated packages (1-27 transactions: child-with-parents incl. dependent parents, chains, two children, unrelated; fee patterns needing a sponsoring child; '
               'parents already in the pool with the same or another witness; swapped/duplicated/conflicting/oversized/overweight variants) are submitted to a real in-process '
               'regtest node with a generated pool. An independent model of the statement decides well-formedness; the check asserts that malformed packages are not evaluated, '
               'that no package member sits in the pool without its in-package parent, and that every per-transaction result agrees with pool membership by wtxid. Exploration.',
 'technique': 'property-based testing: generated packages vs an independent well-formedness model + result/pool-membership consistency oracle',
 'level_note': 'trusted base: MempoolSim kit (pool snapshot, RefLedger UTXO), transaction serialization for weights'}
