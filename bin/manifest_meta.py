"""Human-written manifest text per property (level text, trusted base, technique)."""
HOOKS = {
    "guard": "BITCOIN_VERIF_HOOKS",
    "enable": "bin/configure.sh passes -DBITCOIN_VERIF_HOOKS via APPEND_CPPFLAGS to the san/tsan build trees under /verif/build; /repo/_build never defines it",
    "baseline_off_cmd": "cmake --build /repo/_build -j16 && ctest --test-dir /repo/_build -j8 --timeout 900",
    "source_commits": [],
    "add_only": True,
}
ENGINES = [
    {"name": "E1", "path": "harness/engine", "kind_free_text": "choice-sequence property driver (C++): seeded generation, out-of-process shrinking, replay; targets in harness/targets, kits in harness/kits",
     "serves_properties": []},
]
NOTES = ("All checks rebuild from /repo's working tree through ninja in /verif/build/san (g++ ASan+UBSan, -DABORT_ON_FAILED_ASSUME) before running. "
         "Exit 2 = broken run (build failure / degenerate generator), never a violation.")
NOT_APPLICABLE = {}
META = {
    "C03": {
        "level_text": "Generated search (1.5M structured transactions per quick run, boundary-biased) plus an exhaustive 2^9 x 4 rule-combination table, each compared on (accept, reject reason) with a reference model written from the statement. Exploration: it samples the input space; it does not prove the iff.",
        "technique": "property-based testing: structured generator + independent reference model (differential), exhaustive rule table",
    },
    "C09": {
        "level_text": "Generated reorg histories on a real in-process regtest node; after every check point the coins DB dump must equal an independent from-scratch replay (RefLedger) of the active chain, hash_serialized must repeat per tip, and a fresh twin node fed only the active chain must agree. Exploration over bounded histories.",
        "technique": "stateful property-based testing: operation histories vs independent ledger model + twin-run differential",
    },
    "C31": {
        "level_text": "Every non-negative 32-bit height for every distinct halving interval of the built-in chains is enumerated and compared with the closed form (value, monotonicity, chunk sums, total < 21M BTC): exhaustive for the stated domain. Category kept at exploration because the deciding step is still executed search, not proof.",
        "technique": "exhaustive enumeration of the input domain vs closed-form reference (property-based, exhaustive:true)",
    },
}
