// NetSim (DESIGN.md §3.4): the P2P layer of a ChainSim node -- what TestingSetup's setup_net part creates (NetGroupManager,
// AddrMan, BanMan, ConnmanTestMsg, PeerManager with deterministic_rng, connman Init with m_msgproc) -- plus scripted peers
// of every connection type / permission set / address kind, the version/verack handshake, message injection, a record of
// EVERY message the node sends to each peer, and fDisconnect / BanMan::IsDiscouraged observers.
//
// Usage (see targets/c36_punish.cpp):
//     auto simp = std::make_unique<ChainSim>(opts); simp->LoadBase(104);
//     NetSim net(*simp, NetSimOpts{});            // declare AFTER the ChainSim: it must be destroyed first
//     int p = net.AddPeer(PeerSpec{.conn = ConnectionType::INBOUND});
//     net.Handshake(p);                           // version [wtxidrelay] [sendaddrv2] verack [sendcmpct] [sendheaders]
//     size_t m = net.Mark();
//     net.Send(p, NetMsgType::TX, TX_WITH_WITNESS(*tx));   // inject + process until the peer has no more work + SendMessages
//     for (auto& s : net.SentSince(m, p)) ...     // messages the node pushed to p (type + payload), in global order
//     net.Disconnected(p); net.Discouraged(p);
//
// Rules / facts for target writers:
//  * Time is mock time only. NetSim's constructor sets it to (tip time + 10 s) and takes the node out of IBD. `Advance(s)`
//    moves it. Timeouts the node enforces in SendMessages (they are NOT punishment; exclude them by construction):
//      ping unanswered 20 min (auto_pong answers every ping when the peer is next pumped), block requested from a peer and
//      not delivered 10 min (regtest), outbound peer that never announced a chain with the tip's work: 20 min + 2 min,
//      addr-fetch connection older than 5 min, private-broadcast connection older than 3 min, feeler: closed at version.
//    Keeping the whole case under 9 minutes of mock time excludes all of them except the addr-fetch/private-broadcast ones.
//  * Peers never get the same IP (DisconnectNode(addr)/Discourage(addr) act on every connection of an IP). ::1 exists once.
//  * The node's send path is captured in CConnman::PushMessage through the global `CaptureMessage` hook (exactly the
//    messages that are queued for the wire; messages suppressed for private-broadcast connections are not captured), then
//    the node's send buffer is dropped. There are no sockets and no threads; validation signals are synchronous
//    (ChainSim default), so a block's BlockChecked verdict has been handled by PeerManager when ProcessMessages returns.
//  * All randomness of the net layer is re-seeded from NetSimOpts::rng_seed (global RNG made deterministic), so a case is
//    a pure function of its bytes; a different rng_seed gives different salts (reject-filter, txrequest, short ids).
#ifndef VERIF_KITS_NETSIM_H
#define VERIF_KITS_NETSIM_H

#include <kits/chainsim.h>

#include <addrman.h>
#include <banman.h>
#include <net.h>
#include <net_processing.h>
#include <netmessagemaker.h>
#include <protocol.h>
#include <sync.h>
#include <test/util/net.h>

#include <functional>
#include <map>
#include <memory>
#include <optional>
#include <string>
#include <vector>

namespace verif {

enum class AddrKind {
    ROUTABLE_V4, //!< public IPv4
    LOOPBACK_V4, //!< 127.0.x.y          (CNetAddr::IsLocal)
    ZERO_V4,     //!< 0.0.x.y            (CNetAddr::IsLocal)
    LOOPBACK_V6, //!< ::1                (CNetAddr::IsLocal; at most one peer can have it)
    ROUTABLE_V6, //!< 2001:4860::x
    PRIVATE_V4,  //!< 10.0.x.y  RFC1918: neither routable nor IsLocal
    ONION,       //!< torv3
};
bool AddrKindIsLocal(AddrKind k); //!< statement-level: loopback-class address
const char* AddrKindName(AddrKind k);
const char* ConnTypeName(ConnectionType t);

struct PeerSpec {
    ConnectionType conn{ConnectionType::INBOUND};
    NetPermissionFlags perms{NetPermissionFlags::None};
    AddrKind addr{AddrKind::ROUTABLE_V4};
    bool inbound_onion{false};
    ServiceFlags their_services{ServiceFlags(NODE_NETWORK | NODE_WITNESS)}; //!< what the peer claims in its version message
    ServiceFlags our_services{ServiceFlags(NODE_NETWORK | NODE_WITNESS)};   //!< what the node offers to this peer (add NODE_BLOOM for filter messages)
    int32_t version{PROTOCOL_VERSION};
    bool relay_txs{true};     //!< fRelay in the version message
    bool wtxidrelay{true};    //!< send wtxidrelay between version and verack
    bool sendaddrv2{false};
    bool sendcmpct{false};    //!< after verack: sendcmpct(hb, 2)
    bool sendcmpct_hb{false};
    bool sendheaders{false};
    bool auto_pong{true};     //!< answer the node's pings when the peer is pumped (turn off for private-broadcast peers: pong = reception ack)
};

struct SentMsg {
    size_t seq{0};            //!< global order
    int peer{-1};             //!< NetSim peer index
    std::string type;
    std::vector<uint8_t> payload;
    int64_t time{0};          //!< mock time (seconds) at which it was pushed
};

struct NetSimOpts {
    bool blocksonly{false};                //!< PeerManager::Options::ignore_incoming_txs
    uint64_t rng_seed{0};                  //!< all net-layer randomness derives from this
    int64_t time_after_tip{10};            //!< mock time = tip time + this
    std::function<void(PeerManager::Options&)> tweak_peerman{};
    std::function<void(CConnman::Options&)> tweak_connman{};
    bool leave_ibd{true};
};

class NetSim
{
public:
    NetSim(ChainSim& sim, NetSimOpts opts = {});
    ~NetSim();
    NetSim(const NetSim&) = delete;

    ChainSim& sim;
    NetSimOpts opts;
    ConnmanTestMsg& connman() { return *m_connman; }
    PeerManager& peerman() { return *sim.m_node.peerman; }
    BanMan& banman() { return *sim.m_node.banman; }
    AddrMan& addrman() { return *sim.m_node.addrman; }

    // ---- time
    int64_t Now() const { return m_now; }
    void SetTime(int64_t t);
    void Advance(int64_t seconds) { SetTime(m_now + seconds); }

    // ---- peers
    /** New connection (CNode + InitializeNode). No message has been exchanged yet. Returns the peer index. */
    int AddPeer(const PeerSpec& spec);
    size_t NumPeers() const { return m_peers.size(); }
    const PeerSpec& Spec(int p) const { return m_peers.at(p).spec; }
    CNode& Node(int p) { return *m_peers.at(p).node; }
    NodeId Id(int p) const { return m_peers.at(p).node->GetId(); }
    /** version / (wtxidrelay) / (sendaddrv2) / verack / (sendcmpct) / (sendheaders). Returns fSuccessfullyConnected && !fDisconnect. */
    bool Handshake(int p);
    /** Only the version message (for "before verack" scenarios). */
    void SendVersion(int p);

    // ---- delivering messages from a peer to the node
    /** Queue one message from peer p (V1 wire framing, valid checksum), then Pump(p). Ignored (returns false) if p is disconnected/reaped. */
    bool SendRaw(int p, const std::string& type, std::vector<uint8_t> payload, bool pump = true);
    template <typename... A>
    bool Send(int p, const std::string& type, A&&... a)
    {
        CSerializedNetMsg m = NetMsg::Make(type, std::forward<A>(a)...);
        return SendRaw(p, type, std::move(m.data));
    }
    /** As the message-handler thread does for one node: ProcessMessages (one message per call) + SendMessages, repeated until
     *  ProcessMessages reports no more work; skipped when the node is marked fDisconnect (as the real loop does). */
    void Pump(int p);
    /** Finer-grained stepping for targets that must order events themselves (Pump = repeat {ProcessOnce; SendMessagesTo}):
     *  ProcessOnce = one ProcessMessages call (at most one queued message handled); returns "more work". No-op (false) for fDisconnect/reaped peers. */
    bool ProcessOnce(int p);
    /** One SendMessages call for p, then the send buffer is dropped; a pending auto-pong is queued (not processed). No-op for fDisconnect/reaped peers. */
    void SendMessagesTo(int p);
    /** Queue a message without processing it (same as SendRaw(..., pump=false)). */
    bool Queue(int p, const std::string& type, std::vector<uint8_t> payload) { return SendRaw(p, type, std::move(payload), /*pump=*/false); }
    /** One SendMessages round for every live peer in index order (after Advance: trickle, getdata, MaybeDiscourageAndDisconnect ...). */
    void TickAll();
    /** What the socket thread does with an fDisconnect node: FinalizeNode (once). The CNode object stays (skipped everywhere). */
    void Reap(int p);
    bool Reaped(int p) const { return m_peers.at(p).reaped; }

    // ---- observers
    bool Disconnected(int p) const { return m_peers.at(p).node->fDisconnect; }
    bool Connected(int p) const { return m_peers.at(p).node->fSuccessfullyConnected && !m_peers.at(p).node->fDisconnect; }
    bool Discouraged(int p) { return banman().IsDiscouraged(m_peers.at(p).node->addr); }
    bool Banned(int p) { return banman().IsBanned(m_peers.at(p).node->addr); }

    // ---- record of everything the node sent
    const std::vector<SentMsg>& Log() const { return m_log; }
    size_t Mark() const { return m_log.size(); }
    /** messages pushed to peer p (or to anyone if p < 0) with seq >= mark, optionally only of one type */
    std::vector<const SentMsg*> SentSince(size_t mark, int p = -1, const std::string& type = "") const;
    static std::vector<CInv> DecodeInvs(const SentMsg& m);              //!< inv / getdata / notfound payload
    static CTransactionRef DecodeTx(const SentMsg& m);                  //!< tx payload (with witness if present)
    static std::vector<CBlockHeader> DecodeHeaders(const SentMsg& m);   //!< headers payload

    // ---- builders for the peer side
    static CAddress MakeAddr(AddrKind k, unsigned n);
    /** headers message payload for the given headers */
    static std::vector<uint8_t> HeadersPayload(const std::vector<CBlockHeader>& h);

private:
    struct PeerRec {
        PeerSpec spec;
        CNode* node{nullptr};
        bool reaped{false};
        bool version_sent{false};
        std::optional<uint64_t> pending_pong;
    };
    std::vector<PeerRec> m_peers;
    std::map<CService, int> m_by_addr;
    std::vector<SentMsg> m_log;
    ConnmanTestMsg* m_connman{nullptr};
    int64_t m_now{0};
    unsigned m_addr_counter{0};
    std::function<void(const CAddress&, const std::string&, std::span<const unsigned char>, bool)> m_capture_orig;
    std::unique_ptr<UniqueLock<Mutex>> m_msgproc_lock; //!< NetEventsInterface::g_msgproc_mutex, held for NetSim's lifetime

    void Inject(PeerRec& P, const std::string& type, const std::vector<uint8_t>& payload);
    void OnSent(const CAddress& addr, const std::string& type, std::span<const unsigned char> data);
};

} // namespace verif

#endif // VERIF_KITS_NETSIM_H
