// C03 — Context-free transaction checks accept exactly the spec-valid transactions.
// Oracle: an independent reference written from the statement, in the statement's order; (ok, reject reason) equality.
#include <engine/verif.h>

#include <consensus/amount.h>
#include <consensus/tx_check.h>
#include <consensus/validation.h>
#include <primitives/transaction.h>
#include <script/script.h>

#include <array>
#include <set>
#include <string>
#include <tuple>
#include <vector>

namespace {

constexpr int64_t REF_MAX_MONEY = 2100000000000000LL; // 21M * 1e8, from the statement, not from amount.h

struct RefIn { std::array<uint8_t, 32> txid; uint32_t n; size_t script_len; };
struct RefOut { int64_t value; size_t script_len; };
struct RefTx { std::vector<RefIn> in; std::vector<RefOut> out; };

size_t cs_len(uint64_t n) { return n < 253 ? 1 : n <= 0xffff ? 3 : n <= 0xffffffffULL ? 5 : 9; }

size_t ref_nowitness_size(const RefTx& t)
{
    size_t s = 4 + cs_len(t.in.size()) + cs_len(t.out.size()) + 4;
    for (auto& i : t.in) s += 32 + 4 + cs_len(i.script_len) + i.script_len + 4;
    for (auto& o : t.out) s += 8 + cs_len(o.script_len) + o.script_len;
    return s;
}

bool ref_null(const RefIn& i)
{
    for (uint8_t b : i.txid) if (b) return false;
    return i.n == 0xffffffffu;
}

/** Rules in statement order; returns all violated rule names (first = expected reason). */
std::vector<std::string> ref_violations(const RefTx& t)
{
    std::vector<std::string> v;
    if (t.in.empty()) v.push_back("bad-txns-vin-empty");
    if (t.out.empty()) v.push_back("bad-txns-vout-empty");
    if (ref_nowitness_size(t) * 4 > 4000000) v.push_back("bad-txns-oversize");
    {
        // per output, in order: negative -> too large -> running total out of range; first failing output decides
        __int128 total = 0;
        std::string first;
        bool neg = false, large = false, tot = false;
        for (auto& o : t.out) {
            if (o.value < 0) { if (first.empty()) first = "bad-txns-vout-negative"; neg = true; continue; }
            if (o.value > REF_MAX_MONEY) { if (first.empty()) first = "bad-txns-vout-toolarge"; large = true; continue; }
            total += o.value;
            if (total > REF_MAX_MONEY) { if (first.empty()) first = "bad-txns-txouttotal-toolarge"; tot = true; }
        }
        if (!first.empty()) v.push_back(first);
        // record the other output-rule violations after the first one (for the non-triviality count only)
        for (auto& [flag, name] : {std::pair{neg, "bad-txns-vout-negative"}, std::pair{large, "bad-txns-vout-toolarge"}, std::pair{tot, "bad-txns-txouttotal-toolarge"}})
            if (flag && name != first) v.push_back(std::string("+") + name);
    }
    {
        std::set<std::pair<std::array<uint8_t, 32>, uint32_t>> seen;
        bool dup = false;
        for (auto& i : t.in) if (!seen.insert({i.txid, i.n}).second) dup = true;
        if (dup) v.push_back("bad-txns-inputs-duplicate");
    }
    bool coinbase = t.in.size() == 1 && ref_null(t.in[0]);
    if (coinbase) {
        if (t.in[0].script_len < 2 || t.in[0].script_len > 100) v.push_back("bad-cb-length");
    } else {
        for (auto& i : t.in) if (ref_null(i)) { v.push_back("bad-txns-prevout-null"); break; }
    }
    return v;
}

CMutableTransaction build(const RefTx& r, verif::Src& s, bool with_witness, size_t witness_bulk)
{
    CMutableTransaction m;
    m.version = s.pick<uint32_t>({1, 2, 3, 0, 0xffffffffu});
    m.nLockTime = s.ConsumeIntegral<uint32_t>();
    for (auto& i : r.in) {
        CTxIn in;
        in.prevout = COutPoint(Txid::FromUint256(uint256(std::span<const unsigned char>(i.txid.data(), 32))), i.n);
        { std::vector<unsigned char> raw(i.script_len, 0x51); in.scriptSig = CScript(raw.begin(), raw.end()); }
        in.nSequence = s.ConsumeIntegral<uint32_t>();
        if (with_witness) {
            unsigned items = s.range<unsigned>(0, 3);
            for (unsigned k = 0; k < items; ++k) in.scriptWitness.stack.emplace_back(s.range<size_t>(0, 80), uint8_t(k));
        }
        m.vin.push_back(std::move(in));
    }
    if (witness_bulk && !m.vin.empty()) m.vin[0].scriptWitness.stack.emplace_back(witness_bulk, 0x42);
    for (auto& o : r.out) { std::vector<unsigned char> raw(o.script_len, 0x6a); m.vout.emplace_back(o.value, CScript(raw.begin(), raw.end())); }
    return m;
}

void compare(const RefTx& r, const CMutableTransaction& m, verif::Stats& st, const char* oracle)
{
    auto viol = ref_violations(r);
    CTransaction tx(m);
    TxValidationState state;
    bool ok = CheckTransaction(tx, state);
    st.steps++;
    std::string expect = viol.empty() ? "" : viol[0];
    st.note("nin=", r.in.size(), " nout=", r.out.size(), " nowit_size=", ref_nowitness_size(r), " expect=", (viol.empty() ? "OK" : expect),
            " got=", (ok ? "OK" : state.GetRejectReason()));
    VCHECK(ok == viol.empty(), oracle, "accept mismatch: impl_ok=", ok, "ref_first=", expect, "impl_reason=", state.GetRejectReason());
    if (!ok) {
        VCHECK(state.GetRejectReason() == expect, oracle, "reason mismatch: impl=", state.GetRejectReason(), "ref=", expect);
        VCHECK(state.GetResult() == TxValidationResult::TX_CONSENSUS, oracle, "result class not consensus");
    }
}

const std::initializer_list<int64_t> VALUE_BOUNDARIES = {0, 1, REF_MAX_MONEY - 1, REF_MAX_MONEY, REF_MAX_MONEY + 1, -1, INT64_MIN, INT64_MAX,
                                                         REF_MAX_MONEY / 2, REF_MAX_MONEY / 2 + 1, REF_MAX_MONEY / 3 + 1};
} // namespace

static void checktx_case(verif::Src& s, verif::Stats& st, bool force_bulk);

VERIF_TARGET(c03_checktx, nullptr, 16, 700,
             "structured transactions (0-40 inputs/outputs, boundary-dictionary values, duplicate/null prevouts at any index, coinbase scriptSig "
             "lengths around 2/100, bulk scriptSig at the 1,000,000-byte no-witness boundary with witness bulk that must not count); "
             "non-trivial = >=2 rules violated at once, or some field within +-1 of a limit (value vs MAX_MONEY/0, total vs MAX_MONEY, "
             "cb scriptSig len vs 2/100, no-witness size vs 1,000,000); distinct = by (violated-rule set, boundary kinds, nin/nout buckets)")
{
    checktx_case(s, st, false);
}

// same generator, but every case carries a bulk scriptSig at the 1,000,000-byte no-witness size boundary (slow under ASan => own stage)
VERIF_TARGET(c03_bulk, nullptr, 16, 300,
             "as c03_checktx but one scriptSig is sized so that the no-witness serialization is 999,998..1,000,002 bytes (x4 vs the 4,000,000 limit), "
             "optionally with up to 1.2 MB of witness data that must not count; non-trivial = every case (size within +-2 of the limit)")
{
    checktx_case(s, st, true);
}

static void checktx_case(verif::Src& s, verif::Stats& st, bool force_bulk)
{
    RefTx r;
    bool coinbase_shape = s.chance(48);
    bool bulk = force_bulk;
    size_t nin = coinbase_shape ? 1 : (s.chance(200) ? s.range<size_t>(0, 4) : s.range<size_t>(0, 40));
    size_t nout = s.chance(200) ? s.range<size_t>(0, 4) : s.range<size_t>(0, 40);
    // small pool of txids/indices so duplicates are dense
    size_t pool = s.range<size_t>(1, 6);
    bool near = false;
    for (size_t k = 0; k < nin; ++k) {
        RefIn i{};
        unsigned mode = s.range<unsigned>(0, 15);
        if (coinbase_shape || mode == 0) {
            i.n = 0xffffffffu; // null prevout (all-zero txid, index -1)
        } else if (mode == 1) {
            i.n = s.pick<uint32_t>({0xffffffffu, 0xfffffffeu, 0}); i.txid[0] = uint8_t(s.range<unsigned>(0, 1)); // near-null
        } else {
            i.txid[0] = uint8_t(1 + s.index(pool)); i.txid[31] = 0xaa;
            i.n = uint32_t(s.index(3));
        }
        if (coinbase_shape) {
            i.script_len = s.chance(200) ? s.pick<size_t>({0, 1, 2, 3, 99, 100, 101}) : s.range<size_t>(0, 200);
            if (i.script_len <= 3 || (i.script_len >= 99 && i.script_len <= 101)) near = true;
        } else {
            i.script_len = s.range<size_t>(0, 30);
        }
        r.in.push_back(i);
    }
    if (nin >= 2 && s.chance(64)) { // explicit duplicate at an arbitrary index pair
        size_t a = s.index(nin), b = s.index(nin);
        if (a != b) { r.in[b].txid = r.in[a].txid; r.in[b].n = r.in[a].n; }
    }
    for (size_t k = 0; k < nout; ++k) {
        RefOut o{};
        o.value = s.chance(150) ? s.biased64(VALUE_BOUNDARIES) : s.range<int64_t>(0, REF_MAX_MONEY / 20);
        o.script_len = s.range<size_t>(0, 40);
        r.out.push_back(o);
    }
    // rare shape: thousands of individually in-range outputs whose 64-bit sum wraps past 2^64 (8784 * MAX_MONEY < 2^64 <= 8785 * MAX_MONEY):
    // only a running-total check rejects it at the first output that pushes the total above MAX_MONEY
    bool wrap = false;
    if (s.chance(2) && s.chance(12)) {
        wrap = true;
        size_t many = s.pick<size_t>({8784, 8785, 8786, 9000, 17569});
        r.out.clear();
        for (size_t k = 0; k < many; ++k) r.out.push_back(RefOut{REF_MAX_MONEY, 0});
        r.out.push_back(RefOut{s.pick<int64_t>({0, 1, 1000, REF_MAX_MONEY, 704109551616LL}), 0}); // 2^64 - 8784*MAX_MONEY = 1 153 709 551 616 region
        near = true;
    }
    size_t witness_bulk = 0;
    if (bulk && nin > 0) {
        size_t cur = ref_nowitness_size(r) - cs_len(r.in[0].script_len) - r.in[0].script_len;
        size_t want = s.pick<size_t>({999998, 999999, 1000000, 1000001, 1000002});
        // choose script_len L with cur + cs_len(L) + L == want (cs_len(L)=5 for L>65535)
        if (want > cur + 5 + 65536) { r.in[0].script_len = want - cur - 5; near = true; }
        if (s.boolean()) witness_bulk = s.pick<size_t>({1, 1000, 100000, 1200000});
    }
    {
        __int128 tot = 0;
        for (auto& o : r.out) {
            if (o.value >= -1 && o.value <= 1) near = near || (o.value != 0 && o.value != 1) || false;
            if (o.value >= REF_MAX_MONEY - 1 && o.value <= REF_MAX_MONEY + 1) near = true;
            if (o.value == -1) near = true;
            if (o.value >= 0 && o.value <= REF_MAX_MONEY) { tot += o.value; if (tot >= REF_MAX_MONEY - 1 && tot <= REF_MAX_MONEY + 1) near = true; }
        }
    }
    auto viol = ref_violations(r);
    CMutableTransaction m = build(r, s, s.boolean(), witness_bulk);
    // shape: violated-rule set + coarse structure
    for (auto& v : viol) st.mix(v);
    st.mix(uint64_t(near)); st.mix(uint64_t(coinbase_shape)); st.mix(uint64_t(bulk)); st.mix(uint64_t(std::min<size_t>(nin, 3))); st.mix(uint64_t(std::min<size_t>(nout, 3)));
    st.mix(uint64_t(witness_bulk != 0)); st.mix(uint64_t(wrap));
    st.nontrivial = viol.size() >= 2 || near;
    st.cls(viol.empty() ? "accepted" : "rejected:" + viol[0]);
    if (viol.size() >= 2) st.cls("multi-violation");
    if (near) st.cls("near-limit");
    if (bulk) st.cls("bulk-size-boundary");
    if (wrap) st.cls("output-sum-wraps-64-bits");
    compare(r, m, st, "c03.reference");
}

// Exhaustive rule table: all 2^9 combinations of the nine single-rule violations x 4 structural variants.
VERIF_TARGET(c03_ruletable, nullptr, 0, 8,
             "exhaustive: 2^9 combinations of single-rule violations (vin-empty, vout-empty, oversize, negative, toolarge, total-toolarge, "
             "duplicate input, cb-length, prevout-null) applied to a base transaction x 4 variants (coinbase shape y/n, violating element first/last); "
             "non-trivial = >=2 violations requested")
{
    const uint64_t TOTAL = 512 * 4;
    verif::set_enum_total(TOTAL);
    int64_t idx = verif::enum_index();
    if (idx < 0) idx = int64_t(s.range<uint64_t>(0, TOTAL - 1));
    if (uint64_t(idx) >= TOTAL) return;
    unsigned mask = unsigned(idx) & 511, variant = unsigned(idx) >> 9;
    bool coinbase_shape = variant & 1, last = variant & 2;
    RefTx r;
    auto mkin = [](uint8_t id, uint32_t n) { RefIn i{}; i.txid[0] = id; i.txid[5] = 7; i.n = n; i.script_len = 10; return i; };
    if (coinbase_shape) { RefIn cb{}; cb.n = 0xffffffffu; cb.script_len = 50; r.in.push_back(cb); }
    else { r.in = {mkin(1, 0), mkin(2, 0), mkin(3, 1)}; }
    r.out = {{1000, 25}, {2000, 25}, {3000, 25}};
    auto at = [&](auto& vec) -> decltype(vec[0])& { return last ? vec.back() : vec.front(); };
    if (mask & 8) at(r.out).value = -1;
    if (mask & 16) (last ? r.out.front() : r.out.back()).value = REF_MAX_MONEY + 1;
    if (mask & 32) { r.out[1].value = REF_MAX_MONEY; r.out.push_back({1, 25}); }
    if (mask & 64) { if (coinbase_shape) { r.in.push_back(r.in[0]); } else { if (last) r.in.push_back(r.in[0]); else r.in.insert(r.in.begin() + 1, r.in[0]); } }
    if (mask & 128) { if (coinbase_shape && r.in.size() == 1) r.in[0].script_len = last ? 101 : 1; else at(r.in).script_len = 101; }
    if (mask & 256) { RefIn nul{}; nul.n = 0xffffffffu; nul.script_len = 10; if (last) r.in.push_back(nul); else r.in.insert(r.in.begin(), nul); }
    if (mask & 4) { if (r.in.empty()) r.in.push_back(mkin(9, 0)); r.in.back().script_len = 1000001; }
    if (mask & 1) r.in.clear();
    if (mask & 2) r.out.clear();
    CMutableTransaction m = build(r, s, false, 0);
    st.mix(uint64_t(idx));
    st.nontrivial = __builtin_popcount(mask) >= 2;
    st.cls("popcount=" + std::to_string(__builtin_popcount(mask)));
    compare(r, m, st, "c03.ruletable");
}
