// C42 — Wallet encryption protects keys.
//
//   c42_encrypt         : in-process histories on an on-disk SQLite wallet: wallet with fixed/generated/imported private descriptors ->
//                         EncryptWallet(passphrase) -> byte-pattern scan of the database file for every secret the harness knows -> signing while
//                         locked / after wrong passphrases must fail -> right passphrase: signatures verify (script interpreter, not the wallet)
//                         against the ORIGINAL scripts -> change passphrase / reload / import while encrypted ... ; after every clean unload all
//                         files of the wallet directory are scanned
//   c42_journal_residue : the same scan, but of the rollback journal the database keeps open next to wallet.dat, right after EncryptWallet returned
//                         (separate target: whatever it finds cannot mask the histories of c42_encrypt)
//   c42_workload        : crash workload (E3 recorder, production durability): create, import, EncryptWallet, optional passphrase change, reload
//   c42_recover         : oracle for one crash image: never a mix of plain and encrypted key records / atomic groups of the interrupted encryption
//                         entirely before or after; the image loads; encrypted => locked, unlockable with the workload's passphrase; signatures
//                         verify against the original scripts; once EncryptWallet had returned before the cut, the image holds no known secret
#include <engine/verif.h>
#include <kits/walletsim.h>
#include <targets/c43_walletlib.h>

#include <policy/policy.h>
#include <script/interpreter.h>
#include <util/time.h>
#include <wallet/crypter.h>

#include <iostream>

using namespace verif;
using namespace wl;

namespace {

constexpr int64_t GENESIS_TIME = 1296688602;

struct SignOutcome { bool complete{false}; int verified{0}; int inputs{0}; };

/** Ask the wallet to sign a spend of one fake coin per script; judge every input with the script interpreter. */
SignOutcome TrySign(wallet::CWallet& w, const std::vector<CScript>& spks)
{
    SignOutcome o;
    CMutableTransaction mtx;
    mtx.version = 2;
    std::map<COutPoint, Coin> coins;
    std::vector<CTxOut> spent;
    for (size_t i = 0; i < spks.size(); ++i) {
        COutPoint op(Txid::FromUint256(uint256(uint8_t(i + 1))), 0);
        mtx.vin.emplace_back(op);
        coins[op] = Coin(CTxOut(50000, spks[i]), 1, false);
        spent.emplace_back(50000, spks[i]);
    }
    mtx.vout.emplace_back(40000 * CAmount(spks.size()), CScript() << OP_TRUE);
    std::map<int, bilingual_str> errors;
    o.complete = w.SignTransaction(mtx, coins, SIGHASH_DEFAULT, errors);
    o.inputs = spks.size();
    PrecomputedTransactionData txdata;
    txdata.Init(mtx, std::vector<CTxOut>(spent), /*force=*/true);
    for (size_t i = 0; i < spks.size(); ++i) {
        ScriptError err;
        if (VerifyScript(mtx.vin[i].scriptSig, spks[i], &mtx.vin[i].scriptWitness, STANDARD_SCRIPT_VERIFY_FLAGS,
                         MutableTransactionSignatureChecker(&mtx, i, 50000, txdata, MissingDataBehavior::FAIL), &err)) o.verified++;
    }
    return o;
}

SecureString MakePass(Src& s, std::string& desc)
{
    const unsigned mode = s.range<unsigned>(0, 5);
    SecureString p;
    if (mode == 0) { p = "pass"; desc = "ascii(4)"; }
    else if (mode == 1) { p.assign(1, char(s.range<unsigned>(1, 255))); desc = "1 byte"; }
    else if (mode == 2) { unsigned n = s.range<unsigned>(2, 40); for (unsigned i = 0; i < n; ++i) p.push_back(char(s.range<unsigned>(0, 255))); desc = "binary(" + util::ToString(n) + ") incl. NUL/non-ASCII"; }
    else if (mode == 3) { p.assign(1000, 'x'); p[s.range<unsigned>(0, 999)] = char(s.range<unsigned>(0, 255)); desc = "1000 bytes"; }
    else if (mode == 4) { p = "p\xc3\xa4ss\xe2\x82\xac w\xc3\xb6rd"; desc = "utf-8"; }
    else { p = ""; desc = "empty"; }
    return p;
}

std::vector<SecureString> WrongVariants(const SecureString& p)
{
    std::vector<SecureString> v;
    { SecureString x = p; x.push_back('\0'); v.push_back(x); }            // trailing NUL must matter
    { SecureString x = p; x.push_back('x'); v.push_back(x); }
    if (!p.empty()) { SecureString x = p; x.pop_back(); v.push_back(x); }
    if (!p.empty()) { SecureString x = p; x[0] = char(x[0] ^ 0x20); v.push_back(x); }
    if (!p.empty()) v.push_back(SecureString(""));
    if (p.size() > 2) { SecureString x = p; std::swap(x[0], x[1]); if (x != p) v.push_back(x); }
    return v;
}

struct EHist {
    Src& s;
    Stats& st;
    const bool crash_mode;
    const bool journal_only; //!< c42_journal_residue: only the scan of the open rollback journal after EncryptWallet
    EHist(Src& s_, Stats& st_, bool crash, bool journal) : s(s_), st(st_), crash_mode(crash), journal_only(journal) {}

    std::vector<Secret> secrets;
    std::vector<CScript> scripts;              //!< original scripts (own expansion of the original descriptors, index 0 and 1)
    std::map<uint256, std::string> pub_before; //!< descriptor id -> public string before encryption
    std::string side;
    int n_snap{0};

    void Snapshot(WalletSim& ws)
    {
        if (!crash_mode) return;
        ws.sim.SyncSignals();
        Records r;
        VCHECK(DumpRecords(ws.wallet().GetDatabase(), r), "c42.harness", "cannot read the records of the live wallet");
        WriteSnapshot(side + "/snap-" + util::ToString(n_snap) + ".txt", r);
        Mark("state " + util::ToString(n_snap));
        ++n_snap;
    }

    void LearnSecrets(wallet::CWallet& w)
    {
        // private descriptor strings of an unlocked / unencrypted wallet: the harness learns every key the wallet can use
        LOCK(w.cs_wallet);
        for (auto* spkm : w.GetAllScriptPubKeyMans()) {
            auto* d = dynamic_cast<wallet::DescriptorScriptPubKeyMan*>(spkm);
            std::string priv;
            if (d && d->GetDescriptorString(priv, /*priv=*/true)) AddSecretsOfDescriptorString(secrets, priv);
        }
        Dedupe();
    }

    void Dedupe()
    {
        std::set<std::vector<unsigned char>> seen;
        std::vector<Secret> u;
        for (auto& x : secrets) if (seen.insert(x.bytes).second) u.push_back(x);
        secrets = std::move(u);
    }

    void ScanOrFail(const fs::path& dir, const char* when, const char* oracle, const std::function<bool(const std::string&)>& want)
    {
        st.steps++;
        std::string hit = ScanDir(dir, secrets, want);
        VCHECK(hit.empty(), oracle, when, ":", hit, "| secrets known:", secrets.size());
    }

    void CheckLockedCannotSign(wallet::CWallet& w, const char* when)
    {
        SignOutcome o = TrySign(w, scripts);
        st.steps++;
        VCHECK(!o.complete && o.verified == 0, "c42.signed-without-passphrase", when, ": SignTransaction complete =", o.complete, ", inputs with a valid signature:", o.verified, "of", o.inputs);
    }

    void CheckCanSign(wallet::CWallet& w, const char* when)
    {
        SignOutcome o = TrySign(w, scripts);
        st.steps++;
        VCHECK(o.complete && o.verified == o.inputs, "c42.cannot-sign-with-right-passphrase", when, ": SignTransaction complete =", o.complete, ", inputs with a valid signature for the ORIGINAL scripts:",
               o.verified, "of", o.inputs);
    }

    void CheckPublicUnchanged(wallet::CWallet& w, const char* when)
    {
        LOCK(w.cs_wallet);
        std::map<uint256, std::string> now;
        for (auto* spkm : w.GetAllScriptPubKeyMans()) {
            auto* d = dynamic_cast<wallet::DescriptorScriptPubKeyMan*>(spkm);
            std::string pub;
            if (d && d->GetDescriptorString(pub, /*priv=*/false)) now[d->GetID()] = pub;
        }
        for (auto& [id, pub] : pub_before) {
            st.steps++;
            auto it = now.find(id);
            VCHECK(it != now.end() && it->second == pub, "c42.public-descriptor-changed", when, ": descriptor", pub.substr(0, 60), it == now.end() ? "is gone" : "became " + it->second.substr(0, 60));
        }
        for (const CScript& spk : scripts) {
            st.steps++;
            VCHECK(w.IsMine(spk), "c42.address-lost", when, ": an original script is no longer the wallet's:", HexStr(spk));
        }
    }

    void Run()
    {
        SetMockTime(GENESIS_TIME + 3600);
        ChainSimOpts o;
        o.immediate_signals = false;
        std::vector<std::string> keep;
        if (crash_mode) {
            keep.push_back("-testdatadir=" + Env("VH_W_ROOT"));
            o.extra_args.push_back(keep.back().c_str());
            side = Env("VH_W_SIDE");
        }
        ChainSim sim(o);
        LoadWalletBase(sim, 8);

        WalletSimOpts wo;
        wo.on_disk = true;
        wo.unsafe_sync = !crash_mode;
        wo.generated_seed = s.chance(96);
        wo.keypool = s.pick<int>({2, 1, 3});
        wo.rescan = false;
        std::string pdesc;
        SecureString pass = MakePass(s, pdesc);
        const unsigned n_imports = s.range<unsigned>(0, 3);
        unsigned nops = journal_only ? 0 : s.range<unsigned>(crash_mode ? 0 : 2, crash_mode ? 4 : 10);
        st.mix(uint64_t(wo.generated_seed)); st.mix(uint64_t(n_imports)); st.mix(pdesc);
        st.note(wo.generated_seed ? "generated-seed" : "fixed-descriptors", " keypool=", wo.keypool, " passphrase=", pdesc);

        Mark("op-begin create 0");
        WalletSim ws(sim, wo);
        // CWallet::CreateNew gives every new wallet this flag (descriptor caches are complete from birth); WalletSim builds the wallet by hand
        ws.wallet().SetWalletFlag(wallet::WALLET_FLAG_LAST_HARDENED_XPUB_CACHED);
        Mark("op-end create");
        Mark("begin");
        DescModel model;
        model.range = 2;
        std::vector<uint256> original_ids;

        // imported private descriptors with keys made from the case bytes
        int imp = 0;
        auto import_one = [&](bool while_encrypted) {
            unsigned form = s.range<unsigned>(0, 3);
            if (form == 3 && wo.generated_seed) form = 2; // WalletSim::Reload re-expands every descriptor of a generated-seed wallet from its PUBLIC string: no hardened ranges there
            std::vector<unsigned char> b = s.bytes(32);
            b.resize(32, uint8_t(0x11 + imp));
            b[0] |= 0x01; b[31] |= 0x01; b[0] &= 0x7f; // a valid secp256k1 scalar, never zero
            b[1] = uint8_t(0xA0 + imp);                 // distinct per import
            ++imp;
            CKey k;
            k.Set(b.begin(), b.end(), true);
            VCHECK(k.IsValid(), "c42.harness", "generated key invalid");
            std::string d;
            if (form == 0) d = "wpkh(" + EncodeSecret(k) + ")";
            else if (form == 1) d = "tr(" + EncodeSecret(k) + ")";
            else {
                CExtKey master;
                master.SetSeed(std::span<const std::byte>(reinterpret_cast<const std::byte*>(b.data()), b.size()));
                d = (form == 2 ? "pkh(" : "wpkh(") + EncodeExtKey(master) + (form == 2 ? "/0/*)" : "/7h/*h)");
            }
            AddSecretsOfDescriptorString(secrets, d);
            Dedupe();
            std::string err;
            Mark("op-begin import 0");
            auto id = ImportDescriptor(ws.wallet(), d, /*active=*/false, /*internal=*/false, /*range_end=*/2, "", &err);
            Mark("op-end import");
            VCHECK(id.has_value(), "c42.harness", "import failed", err);
            const uint256 mid = model.AddString(d);
            original_ids.push_back(mid);
            if (const CScript* spk = model.ScriptAt(mid, 0)) scripts.push_back(*spk);
            st.note(while_encrypted ? "import-while-encrypted(" : "import(", d.substr(0, d.find('(')), form >= 2 ? ",ranged" : "", ")");
        };
        for (unsigned i = 0; i < n_imports; ++i) import_one(false);

        // the wallet's own descriptors: secrets from the private strings, scripts from the own expansion of the same strings
        LearnSecrets(ws.wallet());
        {
            std::vector<std::string> privs;
            {
                LOCK(ws.wallet().cs_wallet);
                for (auto* spkm : ws.wallet().GetAllScriptPubKeyMans()) {
                    auto* d = dynamic_cast<wallet::DescriptorScriptPubKeyMan*>(spkm);
                    std::string priv, pub;
                    if (!d) continue;
                    if (d->GetDescriptorString(pub, false)) pub_before[d->GetID()] = pub;
                    if (d->GetDescriptorString(priv, true)) privs.push_back(priv);
                }
            }
            std::sort(privs.begin(), privs.end());
            for (auto& p : privs) {
                const uint256 id = model.AddString(p, /*persistent=*/!wo.generated_seed);
                if (std::find(original_ids.begin(), original_ids.end(), id) != original_ids.end()) continue;
                original_ids.push_back(id);
                if (scripts.size() < 8) if (const CScript* spk = model.ScriptAt(id, 0)) scripts.push_back(*spk); // index 0 is inside every range (keypool >= 1)
            }
        }
        VCHECK(!secrets.empty() && !scripts.empty(), "c42.harness", "no secrets / scripts collected");
        const size_t n_original_secrets = secrets.size();
        if (crash_mode) {
            std::ofstream f(side + "/secrets.txt");
            for (auto& x : secrets) f << HexStr(x.bytes) << " " << x.what << "\n";
            std::ofstream g(side + "/public.txt");
            for (auto& spk : scripts) g << HexStr(spk) << "\n";
        }
        // sanity of the scan itself: before encryption the database file must contain at least one of the raw keys (else the scan proves nothing)
        sim.SyncSignals();
        {
            st.steps++;
            std::string hit = ScanDir(ws.DbDir(), secrets, nullptr);
            VCHECK(!hit.empty(), "c42.harness", "the scan finds no secret in the UNENCRYPTED wallet file: scanner broken");
        }
        CheckCanSign(ws.wallet(), "before encryption");

        // ---- encryption ----------------------------------------------------------------------------------------------------
        Snapshot(ws);
        Mark("op-begin encrypt 1");
        bool enc = ws.wallet().EncryptWallet(pass);
        Mark("op-end encrypt");
        VCHECK(enc, "c42.harness", "EncryptWallet returned false");
        Snapshot(ws);
        const int scan_from_state = n_snap - 1;
        SecureString other = pass == SecureString("other passphrase") ? SecureString("yet another") : SecureString("other passphrase");
        if (crash_mode) {
            std::ofstream f(side + "/meta.txt");
            // hex with an "x" prefix: the passphrase may be empty
            f << "pass1 x" << HexStr(std::string(pass.begin(), pass.end())) << "\n" << "pass2 x" << HexStr(std::string(other.begin(), other.end())) << "\n" << "scan_from_state " << scan_from_state << "\n";
        }
        if (journal_only) {
            ScanOrFail(ws.DbDir(), "right after EncryptWallet returned (wallet still open), files next to wallet.dat", "c42.plaintext-secret-in-open-journal",
                       [](const std::string& n) { return n != "wallet.dat"; });
            st.nontrivial = true;
            st.cls(wo.generated_seed ? "generated" : "fixed");
            return;
        }
        ScanOrFail(ws.DbDir(), "right after EncryptWallet returned, database file", "c42.plaintext-secret-in-wallet-file", [](const std::string& n) { return n == "wallet.dat"; });
        VCHECK(ws.wallet().IsLocked(), "c42.not-locked-after-encryption", "IsLocked() is false right after EncryptWallet");
        CheckLockedCannotSign(ws.wallet(), "locked, right after encryption");
        CheckPublicUnchanged(ws.wallet(), "after encryption");

        int n_wrong = 0, n_right = 0, n_change = 0, n_reload = 0, n_import_enc = 0;
        auto wrong_then_right = [&](const char* when) {
            if (!ws.wallet().IsLocked()) ws.wallet().Lock();
            auto wrongs = WrongVariants(pass);
            const SecureString& wp = wrongs[s.index(wrongs.size())];
            st.steps++;
            VCHECK(!ws.wallet().Unlock(wp), "c42.wrong-passphrase-accepted", when, ": Unlock accepted a wrong passphrase of", wp.size(), "bytes (right one:", pass.size(), "bytes)");
            ++n_wrong;
            CheckLockedCannotSign(ws.wallet(), "after a wrong passphrase");
            st.steps++;
            VCHECK(ws.wallet().Unlock(pass), "c42.right-passphrase-rejected", when, ": Unlock rejected the right passphrase");
            ++n_right;
            CheckCanSign(ws.wallet(), when);
            LearnSecrets(ws.wallet()); // keys born after the encryption (new seed): must never be on disk in the clear either
        };
        wrong_then_right("first unlock");
        for (unsigned op = 0; op < nops && !s.exhausted(); ++op) {
            const unsigned kind = s.range<unsigned>(0, 5);
            st.mix(uint64_t(kind));
            if (kind == 0) {
                ws.wallet().Lock();
                CheckLockedCannotSign(ws.wallet(), "after Lock()");
                st.note("lock");
            } else if (kind == 1) {
                wrong_then_right("unlock");
                st.note("wrong+right unlock");
            } else if (kind == 2 && !(crash_mode && n_change)) {
                // passphrase change (crash workloads change at most once: the recovery oracle knows two passphrases): wrong old passphrase refused, then the real change; the old passphrase stops working
                std::string nd;
                SecureString np = crash_mode ? other : MakePass(s, nd);
                if (np == pass) np.push_back('2');
                auto wrongs = WrongVariants(pass);
                st.steps++;
                VCHECK(!ws.wallet().ChangeWalletPassphrase(wrongs[s.index(wrongs.size())], np), "c42.wrong-passphrase-accepted", "ChangeWalletPassphrase accepted a wrong old passphrase");
                Snapshot(ws);
                Mark("op-begin changepass 0");
                bool ok = ws.wallet().ChangeWalletPassphrase(pass, np);
                Mark("op-end changepass");
                st.steps++;
                VCHECK(ok, "c42.right-passphrase-rejected", "ChangeWalletPassphrase rejected the right old passphrase");
                ws.wallet().Lock();
                st.steps++;
                VCHECK(!ws.wallet().Unlock(pass), "c42.wrong-passphrase-accepted", "the OLD passphrase still unlocks after ChangeWalletPassphrase");
                pass = np;
                ++n_change;
                wrong_then_right("after passphrase change");
                st.note("changepass(", crash_mode ? "fixed" : nd, ")");
            } else if (kind == 3) {
                ws.Unload();
                ScanOrFail(ws.DbDir(), "after a clean unload of the encrypted wallet, all files of the wallet directory", "c42.plaintext-secret-in-wallet-file", nullptr);
                Mark("op-begin reload 0");
                std::string err;
                VCHECK(ws.Reload(&err), "c42.reload-fails", err);
                Mark("op-end reload");
                ++n_reload;
                st.steps++;
                VCHECK(ws.wallet().IsLocked(), "c42.not-locked-after-reload", "an encrypted wallet is not locked after loading");
                CheckLockedCannotSign(ws.wallet(), "locked, after reload");
                CheckPublicUnchanged(ws.wallet(), "after reload");
                wrong_then_right("after reload");
                st.note("RELOAD");
            } else if (kind == 4 && imp < 6) {
                if (ws.wallet().IsLocked()) { VCHECK(ws.wallet().Unlock(pass), "c42.right-passphrase-rejected", "unlock before import"); }
                import_one(true);
                ++n_import_enc;
                sim.SyncSignals();
                ScanOrFail(ws.DbDir(), "after importing a private descriptor into the encrypted wallet, database file", "c42.plaintext-secret-in-wallet-file",
                           [](const std::string& n) { return n == "wallet.dat"; });
            } else {
                if (!ws.wallet().IsLocked()) { auto r = ws.wallet().GetNewDestination(OutputType::BECH32, ""); st.note("newaddr=", bool(r)); }
            }
        }
        // final: clean unload, scan everything, reload, right passphrase still signs for the original scripts
        ws.Unload();
        ScanOrFail(ws.DbDir(), "after the final clean unload, all files of the wallet directory", "c42.plaintext-secret-in-wallet-file", nullptr);
        {
            Mark("op-begin reload 0");
            std::string err;
            VCHECK(ws.Reload(&err), "c42.reload-fails", err);
            Mark("op-end reload");
        }
        CheckLockedCannotSign(ws.wallet(), "locked, after the final reload");
        st.steps++;
        VCHECK(ws.wallet().Unlock(pass), "c42.right-passphrase-rejected", "after the final reload");
        CheckCanSign(ws.wallet(), "after the final reload");
        CheckPublicUnchanged(ws.wallet(), "after the final reload");
        Mark("end");
        if (n_change) st.cls("passphrase-changed");
        if (n_reload) st.cls("reloaded");
        if (n_import_enc) st.cls("import-while-encrypted");
        if (n_imports) st.cls("imported-keys");
        if (secrets.size() > n_original_secrets) st.cls("born-encrypted-keys-scanned");
        st.cls("pass:" + pdesc.substr(0, pdesc.find('(')));
        st.mix(uint64_t(n_change)); st.mix(uint64_t(n_reload)); st.mix(uint64_t(n_import_enc));
        st.nontrivial = n_wrong >= 1 && n_right >= 1 && (n_change + n_reload + n_import_enc >= 1);
    }
};

std::map<std::string, std::string> ReadMeta(const std::string& path)
{
    std::map<std::string, std::string> m;
    std::ifstream f(path);
    std::string k, v;
    while (f >> k >> v) m[k] = v;
    return m;
}

} // namespace

VERIF_TARGET(c42_encrypt, nullptr, 40, 360,
             "wallets (fixed harness descriptors or generated seed; 0-3 imported private descriptors with keys from the case bytes: wpkh(WIF), tr(WIF), ranged "
             "pkh(tprv/0/*), hardened wpkh(tprv/7h/*h)); passphrase: ascii | 1 byte | 2-40 arbitrary bytes incl. NUL | 1000 bytes | UTF-8 | empty; EncryptWallet; "
             "then 0-10 ops: lock, wrong-then-right unlock (wrong = +NUL, +char, -last char, case flip, empty, swap), ChangeWalletPassphrase (wrong old refused, old "
             "stops working), clean unload + scan + reload, import of a private descriptor while encrypted, new address. Oracles: byte-pattern scan (raw 32-byte "
             "keys, hex, WIF, base58 xprv, BIP32 payload; also of keys born after the encryption) of wallet.dat after EncryptWallet/imports and of the whole wallet "
             "directory after every clean unload; SignTransaction incomplete and no input verifies while locked / after a wrong passphrase; after the right one "
             "every input verifies (script interpreter) against the ORIGINAL scripts; public descriptors and IsMine unchanged. non-trivial = >=1 wrong and right "
             "unlock + (passphrase change, mid-history reload or import while encrypted); distinct = configuration + op sequence")
{
    EHist h(s, st, /*crash=*/false, /*journal=*/false);
    h.Run();
}

VERIF_TARGET(c42_journal_residue, nullptr, 16, 120,
             "same wallets; right after EncryptWallet returned (database still open) every file next to wallet.dat (the rollback journal SQLite keeps in exclusive "
             "locking mode) is scanned for the known secrets. Kept apart from c42_encrypt so that its verdict cannot mask the other clauses.")
{
    EHist h(s, st, /*crash=*/false, /*journal=*/true);
    h.Run();
}

VERIF_TARGET(c42_workload, nullptr, 16, 96,
             "crash workload (E3 recorder, production durability): create wallet, 0-3 private imports, EncryptWallet (MARK op-begin/op-end encrypt, record snapshots "
             "before/after), 0-4 ops (lock, unlock, passphrase change to a fixed second passphrase, reload, import), final reload")
{
    EHist h(s, st, /*crash=*/true, /*journal=*/false);
    h.Run();
    st.steps++;
}

VERIF_TARGET(c42_recover, nullptr, 0, 8,
             "recovery oracle for one crash image of a c42 workload: rows of the database: never plain private-key rows together with a master key / encrypted key "
             "rows; if the cut fell inside EncryptWallet the encryption group (master key + all key rows of the existing descriptors) and the descriptor-setup "
             "group are each entirely before or entirely after; LoadExisting succeeds; encrypted => locked, cannot sign, one of the workload's passphrases unlocks; "
             "then every input for the original scripts verifies; if EncryptWallet had returned before the cut: no known secret in any file of the image")
{
    SetMockTime(GENESIS_TIME + 7200);
    ChainSimOpts o;
    o.immediate_signals = false;
    ChainSim sim(o);
    LoadWalletBase(sim, 8);
    const std::string side = Env("VH_W_SIDE"), kind = Env("VH_W_KIND"), image = Env("VH_W_IMAGE");
    auto meta = ReadMeta(side + "/meta.txt");
    std::vector<CScript> scripts;
    {
        std::ifstream f(side + "/public.txt");
        std::string l;
        while (std::getline(f, l)) if (!l.empty()) { auto b = ParseHex(l); scripts.emplace_back(b.begin(), b.end()); }
    }
    VCHECK(!scripts.empty() && meta.count("pass1"), "c42.harness", "side files of the workload missing");
    auto ws = PrepareImage(sim, image, /*keypool=*/2);
    Records R;
    std::string err;
    if (!ReadImageRecords(ws->DbDir(), R, &err)) { std::cout << "IMAGE-UNLOADABLE database does not open: " << err << std::endl; return; }
    int n_plain = 0, n_crypted = 0, n_mkey = 0;
    for (auto& [k, v] : R) { RecKey rk = ParseKey(k); n_plain += rk.type == "walletdescriptorkey"; n_crypted += rk.type == "walletdescriptorckey"; n_mkey += rk.type == "mkey"; }
    st.steps++;
    VCHECK(!(n_plain > 0 && (n_crypted > 0 || n_mkey > 0)), "c42.crash-image-mixed", "crash image holds", n_plain, "plain private-key rows together with", n_crypted, "encrypted key rows and",
           n_mkey, "master keys");
    const bool is_encrypted = n_mkey > 0;
    st.note(is_encrypted ? "image: encrypted" : "image: unencrypted", " plain=", n_plain, " crypted=", n_crypted, " mkey=", n_mkey);
    std::cout << (is_encrypted ? "CLASS image-encrypted\n" : "CLASS image-unencrypted\n");
    if (kind == "encrypt" && !Env("VH_W_AFTER").empty() && !Env("VH_W_BEFORE").empty()) {
        Records A, B;
        VCHECK(ReadSnapshot(side + "/snap-" + Env("VH_W_BEFORE") + ".txt", A) && ReadSnapshot(side + "/snap-" + Env("VH_W_AFTER") + ".txt", B), "c42.harness", "snapshots missing");
        GroupVerdict gv = CheckGroups(A, B, R, "encrypt");
        st.steps++;
        VCHECK(gv.ok, "c42.encryption-partially-applied", gv.why);
        st.note("encrypt groups=", gv.groups, " rows=", gv.keys, " present=", gv.present, " absent=", gv.absent);
        if (gv.groups) std::cout << "CLASS atomic-group-checked\n";
        st.nontrivial = gv.groups >= 1;
    }
    // secrets must be gone from every byte of the image once EncryptWallet had returned
    const std::string sb = Env("VH_W_BEFORE");
    if (!sb.empty() && meta.count("scan_from_state") && std::stoi(sb) >= std::stoi(meta["scan_from_state"])) {
        std::vector<Secret> secrets;
        std::ifstream f(side + "/secrets.txt");
        std::string l;
        while (std::getline(f, l)) { auto sp = l.find(' '); secrets.push_back({l.substr(sp + 1), ParseHex(l.substr(0, sp))}); }
        st.steps++;
        std::string hit = ScanDir(fs::PathFromString(image), secrets, [](const std::string& n) { return n == "wallet.dat"; });
        VCHECK(hit.empty(), "c42.plaintext-secret-in-crash-image", "EncryptWallet had returned before the cut, but:", hit);
        std::string jhit = ScanDir(fs::PathFromString(image), secrets, [](const std::string& n) { return n != "wallet.dat"; });
        std::cout << "CLASS image-scanned\n" << (jhit.empty() ? "" : "CLASS journal-of-image-holds-plaintext-keys\n");
        if (!jhit.empty()) st.note("journal residue: ", jhit);
        st.nontrivial = true;
    }
    if (!ws->Reload(&err)) { std::cout << "IMAGE-UNLOADABLE " << err << std::endl; return; }
    wallet::CWallet& w = ws->wallet();
    st.steps++;
    VCHECK(w.HasEncryptionKeys() == is_encrypted, "c42.harness", "rows and loaded wallet disagree about encryption");
    if (is_encrypted) {
        VCHECK(w.IsLocked(), "c42.not-locked-after-reload", "encrypted crash image loads unlocked");
        SignOutcome lo = TrySign(w, scripts);
        VCHECK(!lo.complete && lo.verified == 0, "c42.signed-without-passphrase", "crash image, locked: valid signatures", lo.verified);
        auto p1 = ParseHex(meta["pass1"].substr(1)), p2 = ParseHex(meta["pass2"].substr(1));
        bool ok = w.Unlock(SecureString(p1.begin(), p1.end())) || w.Unlock(SecureString(p2.begin(), p2.end()));
        st.steps++;
        VCHECK(ok, "c42.right-passphrase-rejected", "neither of the workload's passphrases unlocks the encrypted crash image");
    }
    if (Env("VH_W_BEFORE").empty()) { std::cout << "CLASS image-loaded\nCLASS cut-before-setup-complete\n"; return; } // imports may not be in the image yet
    SignOutcome so = TrySign(w, scripts);
    st.steps++;
    VCHECK(so.complete && so.verified == so.inputs, "c42.crash-image-lost-keys", is_encrypted ? "encrypted+unlocked" : "unencrypted", "crash image cannot sign for the original scripts: verified", so.verified, "of",
           so.inputs);
    st.note("signs for ", so.inputs, " original scripts");
    std::cout << "CLASS image-loaded\n";
}
