# C38: stage list (what ./check C38 quick|thorough runs) and manifest text. Helpers gen()/enum()/hyp()/custom() come from props.py.
SPEC = {'level': 'exploration',
 'assumptions': ['checked at the PartiallyDownloadedBlock level (InitData/FillBlock, as net_processing drives them: FillBlock only after InitData OK) with a real '
                 'CTxMemPool filled through the test helper TryAddToMempool and the real IsBlockMutated; proof of work and block validity are out of scope',
                 'the reference is the transaction list the harness built for the announced header (own merkle / BIP141 commitment code); SHA256 collisions ignored',
                 'lists that do not start with a coinbase (only reachable with an attacker-committed header) are checked for txid-list equality only'],
 'stages': [gen('vh_c38', 'c38_cmpct', 40000, 600000, min_cases_quick=12000,
                floors={'fill-ok': 0.25, 'fill-failed-mutation-check': 0.08, 'init-invalid': 0.01, 'init-failed': 0.01, 'twin-in-play': 0.05,
                        'decoy-in-play': 0.05, 'mut:cve-2012-2459': 0.004, 'mut:index-fault': 0.02, 'ok-despite-attacker': 0.02, 'large-block': 0.03},
                rule='attacker-encoded compact block announcements vs the genuine block; non-trivial = FillBlock reached with an attacker-chosen tx in play, '
                     'or OK reconstruction from >= 2 sources'),
            gen('vh_c38', 'up_partially_downloaded_block', 8000, 150000, min_cases_quick=2500,
                rule='upstream fuzz target partially_downloaded_block (mocked mutation check; supplementary)'),
        # coverage-guided libFuzzer campaign on the same target (thorough tier only; fz tree = g++ trace-pc + covshim)
        fuzz('vh_c38', 'c38_cmpct', 300, max_len=700),
    ]}

META = {'level_text': 'Generated compact-block announcements of a harness-built block (1-200 txs, segwit and not) encoded by an attacker (substituted/twin/swapped/'
               'dropped/appended/tail-duplicated transaction lists, short ids of other pool transactions, duplicated short ids, wrong nonce, prefilled index '
               'faults) are reconstructed by PartiallyDownloadedBlock against a real mempool + extra pool holding genuine txs, same-txid twins and decoys, with '
               'correct or malicious blocktxn answers. Whenever FillBlock reports OK the block must have the announced header, the announced merkle root, a '
               'consistent witness commitment and exactly the genuine wtxid list. Exploration over bounded inputs; real short-id collisions (2^48) are simulated '
               'by substitution.',
 'technique': 'property-based testing with an explicit reference (the constructed block) and an attacker model for encodings; upstream fuzz target as supplementary stage'}
