#!/usr/bin/env python3
"""C12 -- the script interpreter implements Bitcoin script semantics (engine E2).

C++ EvalScript / VerifyScript (through sutd) versus py/refscript.py, the independent reference interpreter whose self-test
(agreement with every vector of script_tests.json, tx_valid.json, tx_invalid.json, bip341 key-path vectors) is re-run at start-up:
the module refuses to run (exit 2) if it fails.

Kinds of examples
  eval     bare EvalScript(stack, script, flags, sigversion in {base, witness_v0}) on a grammar-generated script: every opcode byte,
           boundary pushes (empty, negative zero, 4/5-byte numbers, 75/76/255/256/520/521-byte elements, minimal and non-minimal
           encodings), nested IF/NOTIF/ELSE/ENDIF (also unbalanced), repetition up to the 201-opcode / 1000-element / 10000-byte limits,
           PICK/ROLL at the depth edge, CHECKMULTISIG shapes with 0..21 keys, disabled opcodes in unexecuted branches, CLTV/CSV against a
           generated transaction; initial stacks of 0..1001 elements. Oracle: success flag equal; if both succeed the final stacks are equal.
  spend    full VerifyScript of a generated spend with REAL signatures made in Python: P2PK, P2PKH, bare/P2SH/P2WSH multisig (k-of-n,
           permutations), P2WPKH, P2SH-P2WPKH, P2WSH / P2SH-P2WSH / tapscript leaves around grammar-generated scripts, taproot key path,
           tapscript CHECKSIG/CHECKSIGADD chains at the validation-weight budget +-1 signature, OP_SUCCESS, annex, unknown leaf
           versions, unknown witness versions -- then corrupted (signature bit, hash type, high S, non-DER padding, wrong key, extra
           witness item, non-null dummy, scriptSig malleation). Oracle: success flag equal.
Random valid flag sets (WITNESS => P2SH, CLEANSTACK => P2SH+WITNESS). ScriptError identity is statistics only (classes fail:<code>).
Non-trivial: >= 3 distinct non-push opcodes executed (reference trace) and a boundary operand/limit pattern present.
"""
import sys

from hypothesis import strategies as st

import e2
import refscript as R
from test_framework import key as tf_key
from test_framework import messages as tf_msg
from test_framework import script as tf_script
from test_framework.crypto import secp256k1

# ----------------------------------------------------------------------------------------------------------------
# gate: the reference must agree with the repository's vectors before it is used as an oracle

def _gate():
    """Runs refscript's self-test once per stage run: the first worker to take the lock in the (fresh) --out directory runs it and
    leaves the verdict there, the other workers read it. Without --out (replay) the self-test is run directly."""
    import fcntl
    import json
    import os
    out = None
    if "--out" in sys.argv:
        out = sys.argv[sys.argv.index("--out") + 1]
    if out is None:
        return R.selftest(verbose=False)
    os.makedirs(out, exist_ok=True)
    stamp = os.path.join(out, "refscript-selftest.json")
    with open(os.path.join(out, "refscript-selftest.lock"), "w") as lk:
        fcntl.flock(lk, fcntl.LOCK_EX)
        if os.path.exists(stamp):
            d = json.load(open(stamp))
            return d["ok"], d["lines"]
        ok, lines = R.selftest(verbose=False)
        with open(stamp + ".tmp", "w") as f:
            json.dump({"ok": ok, "lines": lines}, f)
        os.replace(stamp + ".tmp", stamp)
        return ok, lines


_ok, _lines = _gate()
for _ln in _lines:
    sys.stderr.write(_ln + "\n")
if not _ok:
    sys.stderr.write("HARNESS-ERROR refscript self-test failed: the C12 check refuses to run\n")
    sys.exit(2)

G = secp256k1.G
ORDER = secp256k1.GE.ORDER

# ----------------------------------------------------------------------------------------------------------------
# script items -> bytes

def enc_push(data, enc):
    n = len(data)
    if enc == "min":
        if n == 0:
            return b"\x00"
        if n == 1 and 1 <= data[0] <= 16:
            return bytes([0x50 + data[0]])
        if n == 1 and data[0] == 0x81:
            return b"\x4f"
        return R.push_data(data)
    if enc == "direct" and n <= 75:
        return bytes([n]) + data
    if enc == "pd1" and n <= 255:
        return bytes([0x4c, n]) + data
    if enc == "pd2" and n <= 65535:
        return b"\x4d" + n.to_bytes(2, "little") + data
    if enc == "pd4":
        return b"\x4e" + n.to_bytes(4, "little") + data
    return R.push_data(data)


def build(items):
    out = bytearray()
    for it in items:
        k = it[0]
        if k == "push":
            out += enc_push(it[1], it[2])
        elif k == "num":
            out += enc_push(R.num_encode(it[1]), "min")
        elif k == "op":
            out.append(it[1])
        elif k == "raw":
            out += it[1]
        elif k == "if":
            out.append(0x64 if it[1] else 0x63)
            out += build(it[2])
            if it[3] is not None:
                out.append(0x67)
                out += build(it[3])
            if it[4]:
                out.append(0x68)
        elif k == "rep":
            out += build(it[1]) * it[2]
        else:
            raise e2.HarnessError("item kind " + repr(k))
    return bytes(out)


# ----------------------------------------------------------------------------------------------------------------
# strategies: data

BOUNDARY_DATA = [b"", b"\x80", b"\x00", b"\x01", b"\x02", b"\x10", b"\x11", b"\x81", b"\x7f", b"\xff", b"\x00\x80", b"\x80\x00", b"\x01\x00", b"\xff\x7f",
                 b"\xff\xff\xff\x7f", b"\xff\xff\xff\xff", b"\x00\x00\x00\x80", b"\x00\x00\x00\x80\x00", b"\xff\xff\xff\xff\x7f", b"\x00\x00\x00\x00",
                 b"\x00\x00\x00\x00\x80", b"\x00\x00\x00\x00\x00", b"\x01\x00\x00\x00\x00", b"\x00\x00\x40\x00", b"\x00\x00\x00\x80\x80"]
BOUNDARY_INTS = [0, 1, -1, 2, 3, 16, 17, 20, 21, 127, 128, 255, 256, 32767, 32768, 65535, 0x400000, 500000000 - 1, 500000000, 0x7fffffff, 0x80000000, -0x7fffffff,
                 -0x80000000, 0xffffffff, 0x7fffffffff, 0x8000000000, -127, -128, -255]
SIZES = [75, 76, 77, 255, 256, 519, 520, 521, 520, 521]
ENCS = ["min", "min", "min", "direct", "pd1", "pd2", "pd4"]


@st.composite
def datum(draw):
    k = draw(st.integers(0, 9))
    if k <= 3:
        return draw(st.sampled_from(BOUNDARY_DATA))
    if k <= 5:
        return R.num_encode(draw(st.sampled_from(BOUNDARY_INTS)) + draw(st.integers(-1, 1)))
    if k == 6:
        n = draw(st.sampled_from(SIZES))
        return bytes([draw(st.integers(0, 255))]) * n
    if k == 7:
        return draw(st.binary(min_size=0, max_size=6))
    if k == 8:
        return draw(st.binary(min_size=0, max_size=80))
    return R.num_encode(draw(st.integers(-(1 << 40), 1 << 40)))


push_item = st.builds(lambda d, e: ("push", d, e), datum(), st.sampled_from(ENCS))
num_item = st.builds(lambda n, d: ("num", n + d), st.sampled_from(BOUNDARY_INTS), st.integers(-1, 1))
small_num = st.builds(lambda n: ("num", n), st.integers(-2, 22))

# opcode classes by what they need on the stack (for a generator that usually keeps the stack deep enough)
NEED = {}
for _op in (0x61, 0x74, 0xab, 0xb0, 0xb3, 0xb4, 0xb5, 0xb6, 0xb7, 0xb8, 0xb9):
    NEED[_op] = 0
for _op in (0x69, 0x6b, 0x73, 0x75, 0x76, 0x82, 0x8b, 0x8c, 0x8f, 0x90, 0x91, 0x92, 0xa6, 0xa7, 0xa8, 0xa9, 0xaa, 0xb1, 0xb2):
    NEED[_op] = 1
for _op in (0x6d, 0x6e, 0x77, 0x78, 0x79, 0x7a, 0x7c, 0x7d, 0x87, 0x88, 0x93, 0x94, 0x9a, 0x9b, 0x9c, 0x9d, 0x9e, 0x9f, 0xa0, 0xa1, 0xa2, 0xa3, 0xa4, 0xac, 0xad):
    NEED[_op] = 2
for _op in (0x6f, 0x7b, 0xa5, 0xba):
    NEED[_op] = 3
for _op in (0x70, 0x72):
    NEED[_op] = 4
NEED[0x71] = 6
NEED[0x6c] = 0
DEFINED_OPS = sorted(set(NEED) | {0x4f, 0x51, 0x60, 0x63, 0x64, 0x67, 0x68, 0x6a, 0xae, 0xaf})
BY_NEED = {n: [o for o, k in NEED.items() if k <= n] for n in range(7)}
DISABLED_OPS = sorted(R.DISABLED)
ODD_OPS = [0x50, 0x62, 0x65, 0x66, 0x89, 0x8a, 0x6a, 0xae, 0xaf, 0xba, 0xbb, 0xfe, 0xff, 0x67, 0x68, 0x63, 0x64]
any_op = st.integers(0x4f, 0xff)


@st.composite
def block(draw, depth, nesting, budget):
    """-> (items, new depth estimate). depth is a rough static estimate used to pick applicable opcodes."""
    items = []
    n = draw(st.integers(0, budget))
    for _ in range(n):
        k = draw(st.integers(0, 99))
        if k < 23:
            items.append(draw(st.one_of(small_num, small_num, num_item, push_item)))
            depth += 1
        elif k < 38:
            # an opcode drawn uniformly from the whole defined set, with enough small operands in front of it to be executable
            op = draw(st.sampled_from(DEFINED_OPS))
            for _j in range(max(0, NEED.get(op, 0) - (depth if draw(st.booleans()) else 0))):
                items.append(draw(small_num))
                depth += 1
            items.append(("op", op))
            depth = max(0, depth - max(0, NEED.get(op, 0) - 1))
        elif k < 66:
            op = draw(st.sampled_from(BY_NEED[min(depth, 6)]))
            items.append(("op", op))
            depth = max(0, depth + {0: 1 if op == 0x74 else 0, 1: 0, 2: -1, 3: -2, 4: 0, 6: 0}.get(NEED[op], 0))
            if op in (0x6e, 0x78, 0x7d, 0x76, 0x73):
                depth += 1
        elif k < 69:
            items.append(("op", draw(any_op)))
        elif k < 72:
            items.append(("op", draw(st.sampled_from(ODD_OPS))))
        elif k < 74:
            # disabled opcodes fail even when not executed: usually hide them in a dead branch to prove exactly that
            dis = ("op", draw(st.sampled_from(DISABLED_OPS)))
            items.append(dis if draw(st.booleans()) else ("if", False, [dis], None, True))
            if items[-1][0] == "if":
                items.insert(-1, ("num", 0))
        elif k < 84 and nesting < 3:
            # conditional: push the condition (usually), then IF/NOTIF .. [ELSE ..] ENDIF
            if draw(st.integers(0, 9)) < 8:
                items.append(draw(st.sampled_from([("num", 0), ("num", 1), ("push", b"\x01", "direct"), ("push", b"\x02", "direct"), ("push", b"\x80", "direct"),
                                                   ("push", b"\x00", "direct"), ("push", b"\x01\x00", "direct"), ("num", 2)])))
            a, _ = draw(block(depth, nesting + 1, 4))
            has_else = draw(st.booleans())
            b = draw(block(depth, nesting + 1, 3))[0] if has_else else None
            items.append(("if", draw(st.booleans()), a, b, draw(st.integers(0, 19)) != 0))
        elif k < 88:
            # PICK / ROLL around the stack depth
            delta = draw(st.integers(-1, 2))
            items += [("op", 0x74), ("num", delta), ("op", 0x94), ("op", draw(st.sampled_from([0x79, 0x7a])))]
        elif k < 93:
            items += draw(multisig_shape())
            depth += 1
        elif k < 95:
            cnt = draw(st.sampled_from([2, 3, 5, 50, 198, 199, 200, 201, 202]))
            items.append(("rep", [draw(st.sampled_from([("op", 0x61), ("op", 0x76), ("num", 1), ("op", 0x8b), ("op", 0x82), ("op", 0x75)]))], cnt))
        elif k < 97:
            # the opcode budget counts the keys of CHECKMULTISIG: filler opcodes so that  filler + 1 + nkeys = 201 + d
            nkeys = draw(st.sampled_from([1, 3, 20, 20]))
            d = draw(st.sampled_from([-1, 0, 0, 1, 1]))
            items.append(("rep", [("op", 0x61)], 200 - nkeys + d))
            items += [("num", 0), ("num", 0)] + [("push", GARBAGE_KEYS[2], "direct")] * nkeys + [("num", nkeys), ("op", 0xae)]
            depth += 1
        else:
            # x lo hi WITHIN with the bounds at distance -1/0/+1 from x
            x = draw(st.sampled_from(BOUNDARY_INTS[:16]))
            items += [("num", x), ("num", x + draw(st.integers(-1, 1))), ("num", x + draw(st.integers(-1, 1))), ("op", 0xa5)]
            depth += 1
    return items, depth


GARBAGE_SIGS = [b"", b"\x30\x06\x02\x01\x01\x02\x01\x01\x01", b"\x30\x06\x02\x01\x01\x02\x01\x01\x00", b"\x30\x06\x02\x01\x01\x02\x01\x01\x04", b"\x01", b"\x30",
                b"\x30\x07\x02\x02\x00\x01\x02\x01\x01\x01", bytes(64), bytes(65),
                b"\x30\x25\x02\x01\x01\x02\x20" + b"\xff" * 32 + b"\x01"]
GARBAGE_KEYS = [b"", b"\x02" + bytes(32), G.to_bytes_compressed(), G.to_bytes_uncompressed(), b"\x06" + G.to_bytes_uncompressed()[1:], b"\x02" + b"\xff" * 32,
                G.to_bytes_xonly(), b"\x04" + bytes(64), b"\x03" + G.to_bytes_xonly(), bytes(33)]


@st.composite
def multisig_shape(draw):
    nkeys = draw(st.sampled_from([0, 1, 2, 3, 19, 20, 21, 16, 17]))
    nsigs = draw(st.one_of(st.integers(0, min(nkeys, 3)), st.sampled_from([nkeys, nkeys + 1])))
    items = []
    if draw(st.integers(0, 9)) != 0:
        items.append(("push", draw(st.sampled_from([b"", b"", b"", b"\x00", b"\x01"])), "min"))
    for _ in range(nsigs):
        items.append(("push", draw(st.sampled_from(GARBAGE_SIGS)), "min"))
    items.append(("num", nsigs))
    for _ in range(nkeys):
        items.append(("push", draw(st.sampled_from(GARBAGE_KEYS)), "direct"))
    items.append(("num", nkeys))
    items.append(("op", draw(st.sampled_from([0xae, 0xae, 0xaf]))))
    return items


@st.composite
def flag_set(draw, for_verify):
    f = set(draw(st.lists(st.sampled_from(R.ALL_FLAGS), max_size=8, unique=True)))
    m = draw(st.integers(0, 5))
    if m == 0:
        f = set()
    elif m == 1:
        f = set(R.ALL_FLAGS) - f
    if for_verify:
        f = R._fill_flags(f)
    return sorted(f)


@st.composite
def tx_ctx(draw):
    return {"version": draw(st.sampled_from([1, 2, 2, 3, 0, 0xffffffff])),
            "locktime": draw(st.sampled_from([0, 1, 100, 499999999, 500000000, 500000001, 0xffffffff])) + draw(st.integers(0, 1)) * 0,
            "sequence": draw(st.sampled_from([0, 1, 0xffff, 0x400000, 0x400001, 0x40ffff, 0x80000000, 0xfffffffe, 0xffffffff, 0x10000])),
            "amount": draw(st.sampled_from([0, 1, 50000, 2100000000000000]))}


@st.composite
def stack_init(draw):
    k = draw(st.sampled_from([9] * 24 + [0]))
    if k == 0:
        n = draw(st.sampled_from([990, 997, 998, 999, 1000, 1001]))
        return {"fill": n, "top": [draw(datum()) for _ in range(2)]}
    return {"fill": 0, "top": draw(st.lists(st.one_of(st.integers(-2, 20).map(R.num_encode), st.integers(-2, 20).map(R.num_encode), datum()), max_size=6))}


def stack_of(si):
    return [b"\x01"] * si["fill"] + list(si["top"])


@st.composite
def k_eval(draw):
    si = draw(stack_init())
    items, _ = draw(block(len(si["top"]) + si["fill"], 0, 14))
    ex = {"kind": "eval", "items": items, "stack": si, "flags": draw(flag_set(False)), "sigversion": draw(st.sampled_from(["base", "base", "witness_v0"]))}
    m = draw(st.sampled_from([9] * 22 + [0, 1, 1]))
    if m == 0:        # script size limit: 19 pushes of 520 bytes and a generated tail
        pad = draw(st.sampled_from([0, 40, 41, 42, 60]))
        ex["items"] = [("rep", [("push", b"\x42" * 520, "pd2"), ("op", 0x75)], 19), ("push", b"\x07" * pad, "direct"), ("op", 0x75)] + items
    elif m == 1:      # truncated push at the end
        ex["items"] = items + [("raw", draw(st.sampled_from([b"\x4c", b"\x4d\x01", b"\x4e\x01\x00\x00", b"\x05\x01\x02", b"\x4c\x02\x01", b"\x4e\xff\xff\xff\xff\x01"])))]
    if draw(st.integers(0, 2)) == 0:
        ex["tx"] = draw(tx_ctx())
    return ex


# ----------------------------------------------------------------------------------------------------------------
# spends with real signatures

def priv_of(i):
    return (R.sha256(b"verif-c12-key-%d" % i)[:31] + b"\x01")       # < group order


def eckey(i, compressed=True):
    k = tf_key.ECKey()
    k.set(priv_of(i), compressed)
    return k


SPEND_TEMPLATES = ["p2pk", "p2pkh", "multisig", "p2sh_multisig", "p2wpkh", "p2sh_p2wpkh", "p2wsh_multisig", "p2wsh_script", "p2sh_script", "p2sh_p2wsh_script",
                   "p2tr_key", "p2tr_checksig", "p2tr_csa", "p2tr_budget", "p2tr_unknownpk", "p2tr_unknownpk", "p2tr_unknownpk", "p2tr_script", "p2tr_leafver", "witness_unknown", "bare_script"]
MUTATIONS = ["none", "none", "none", "sigbit", "hashtype", "highs", "derpad", "wrongkey", "extrawit", "dummy", "sigmall", "emptysig", "amount", "dropwit", "uncompressed",
             "hybrid", "annex", "sighash_default_byte", "swap"]


@st.composite
def k_spend(draw):
    t = draw(st.sampled_from(SPEND_TEMPLATES))
    ex = {"kind": "spend", "template": t, "mut": draw(st.sampled_from(MUTATIONS)), "flags": draw(flag_set(True)), "tx": draw(tx_ctx()),
          "hashtype": draw(st.sampled_from([1, 1, 1, 2, 3, 0x81, 0x82, 0x83, 0, 4, 0x80, 0xff])), "nin": draw(st.integers(1, 3)), "nout": draw(st.integers(1, 3)),
          "idx_sel": draw(st.integers(0, 2)), "k": draw(st.integers(1, 3)), "n": draw(st.integers(1, 4)), "perm": draw(st.integers(0, 5)),
          "key": draw(st.integers(0, 7))}
    if draw(st.integers(0, 3)) == 0:
        ex["flags"] = sorted(R._fill_flags(set(ex["flags"]) | {"P2SH", "WITNESS", "TAPROOT"}))
    if t in ("p2wsh_script", "p2sh_script", "p2sh_p2wsh_script", "p2tr_script", "bare_script"):
        si = draw(stack_init())
        if si["fill"] and t in ("p2sh_script", "bare_script"):
            si = {"fill": 0, "top": si["top"]}        # the scriptSig must stay a reasonable size
        ex["stack"] = si
        ex["items"] = draw(block(len(si["top"]) + si["fill"], 0, 10))[0]
        if t == "p2tr_script" and draw(st.integers(0, 3)) == 0:
            ex["items"] = ex["items"] + [("op", draw(st.sampled_from([0x50, 0x62, 0x7e, 0x89, 0xbb, 0xfe, 0xff, 0x8d, 0x95])))]    # OP_SUCCESSx / 0xff
    if t == "p2tr_csa":
        ex["nsig"] = draw(st.integers(1, 5))
    if t == "p2tr_budget":
        ex["nsig"] = draw(st.integers(6, 9))
        ex["pad"] = draw(st.sampled_from([-2, -1, 0, 0, 1, 30]))
    if t == "p2tr_unknownpk":
        # BIP342: a signature opcode with a non-empty signature is charged 50 units also when the public key has an unknown type
        # (length other than 0 / 32); nsig such opcodes around the budget 50 + witness size (annex padding: valid iff pad >= 0)
        ex["pklen"] = draw(st.sampled_from([1, 1, 2, 16, 31, 33, 33, 65]))
        ex["nsig"] = draw(st.integers(2, 12))
        ex["pad"] = draw(st.sampled_from([-2, -1, -1, -1, 0, 0, 1, 7]))
        ex["form"] = draw(st.integers(0, 2))
        ex["siglen"] = draw(st.sampled_from([1, 1, 2, 64, 65]))
        fl = set(ex["flags"]) | {"P2SH", "WITNESS", "TAPROOT"}
        if draw(st.integers(0, 3)):
            fl.discard("DISCOURAGE_UPGRADABLE_PUBKEYTYPE")
        else:
            fl.add("DISCOURAGE_UPGRADABLE_PUBKEYTYPE")
        ex["flags"] = sorted(R._fill_flags(fl))
    if t == "p2tr_leafver":
        ex["leafver"] = draw(st.sampled_from([0xc2, 0xc4, 0x50 & 0xfe, 0xfe, 0x66, 0xc0]))
    if t == "witness_unknown":
        ex["ver"] = draw(st.integers(0, 16))
        ex["proglen"] = draw(st.sampled_from([2, 19, 20, 21, 31, 32, 33, 40]))
        ex["p2sh_wrap"] = draw(st.booleans())
    return ex


def cases():
    return st.one_of(k_eval(), k_eval(), k_eval(), k_spend())


# ----------------------------------------------------------------------------------------------------------------
# building transactions

def make_tx(ctx, nin, nout, idx, script_sig=b"", witness=()):
    tx = tf_msg.CTransaction()
    tx.version = ctx["version"]
    tx.nLockTime = ctx["locktime"]
    tx.vin = []
    for i in range(nin):
        tx.vin.append(tf_msg.CTxIn(tf_msg.COutPoint(0x1111 * (i + 1), i), b"", ctx["sequence"] if i == idx else 0xfffffffd))
    tx.vout = [tf_msg.CTxOut(1000 * (j + 1), bytes([0x51 + j])) for j in range(nout)]
    tx.vin[idx].scriptSig = script_sig
    tx.wit.vtxinwit = [tf_msg.CTxInWitness() for _ in range(nin)]
    tx.wit.vtxinwit[idx].scriptWitness.stack = list(witness)
    return tx


def spent_outputs(nin, idx, spk, amount):
    return [tf_msg.CTxOut(amount if i == idx else 7000 + i, spk if i == idx else bytes([0x51, 0x20]) + bytes([i + 1]) * 32) for i in range(nin)]


def sut_spent(spent):
    return [{"amount": o.nValue, "spk": bytes(o.scriptPubKey).hex()} for o in spent]


def tx_hex(tx):
    has_wit = any(w.scriptWitness.stack for w in tx.wit.vtxinwit)
    return (tx.serialize_with_witness() if has_wit else tx.serialize_without_witness()).hex()


BOUNDARY_SET = set(BOUNDARY_DATA)


def boundary_in(items):
    for it in items:
        if it[0] == "push" and (it[1] in BOUNDARY_SET or len(it[1]) in SIZES or it[2] != "min"):
            return True
        if it[0] == "num" and abs(it[1]) >= 0x7fffffff:
            return True
        if it[0] == "rep" and it[2] >= 198:
            return True
        if it[0] == "if" and (boundary_in(it[2]) or (it[3] is not None and boundary_in(it[3]))):
            return True
        if it[0] == "raw":
            return True
    return False


def account(c, trace, ok, code, boundary, extra=()):
    ops = sorted(trace)
    for o in ops:
        c.cls("op:%02x" % o)
    c.cls("ok" if ok else "fail:" + code)
    c.mix(tuple(ops), ok, code, *extra)
    c.nontrivial(len(ops) >= 3 and boundary)


def c_eval(sut, ex, c):
    script = build(ex["items"])
    stack = stack_of(ex["stack"])
    flags = ex["flags"]
    sv = ex["sigversion"]
    req = {"script": script, "stack": stack, "flags": flags, "sigversion": sv}
    checker = R.NoTxChecker()
    if "tx" in ex:
        tx = make_tx(ex["tx"], 1, 1, 0)
        spent = spent_outputs(1, 0, b"\x51", ex["tx"]["amount"])
        checker = R.TxChecker(tx, 0, spent)
        req.update(tx=tx_hex(tx), idx=0, spent=sut_spent(spent))
    R.TRACE = set()
    try:
        ok, code, final = R.evaluate(script, stack, flags, checker, sv)
        trace = R.TRACE
    finally:
        R.TRACE = None
    got = sut.call("eval_script", **req)
    c.note(f"eval {sv}: ref {code} / cpp '{got['err']}'; {len(flags)} flags; stack={len(stack)}; script({len(script)} bytes)="
           f"{script[:100].hex()}{'...' if len(script) > 100 else ''}; flags={','.join(flags)}")
    c.expect(got["ok"] == ok, "c12.eval-verdict", "EvalScript success differs from the reference interpreter", cpp=got["ok"], cpp_err=got["err"], ref=code,
             script=script, stack_items=len(stack), flags=flags, sigversion=sv)
    if ok:
        c.expect(got["stack"] == [e.hex() for e in final], "c12.eval-stack", "final stack differs from the reference interpreter", cpp=got["stack"][-6:],
                 ref=[e.hex() for e in final][-6:], script=script, flags=flags, sigversion=sv)
    if ex["stack"]["fill"]:
        c.cls("deep-stack")
    if len(script) > 9000:
        c.cls("big-script")
    c.cls("sv:" + sv)
    account(c, trace, ok, code, boundary_in(ex["items"]) or ex["stack"]["fill"] > 0, (sv,))


# --- taproot helpers (own construction from BIP341)

def tap_leaf(script, ver=0xc0):
    return R.tagged_hash("TapLeaf", bytes([ver]) + R.compact_size(len(script)) + script)


def tap_output(internal_x, merkle_root):
    P = secp256k1.GE.from_bytes_xonly(internal_x)
    t = int.from_bytes(R.tagged_hash("TapTweak", internal_x + merkle_root), "big")
    Q = P + t * G
    return Q.to_bytes_xonly(), int(Q.y) & 1, t


def mutate_der(sig, mut, key_i):
    """sig: DER || hashtype."""
    der, ht = sig[:-1], sig[-1:]
    if mut == "sigbit":
        return der[:-1] + bytes([der[-1] ^ 1]) + ht
    if mut == "highs":
        rs = R.lax_der_parse(der)
        body = R.der_encode_int(rs[0]) + R.der_encode_int(ORDER - rs[1])
        return b"\x30" + bytes([len(body)]) + body + ht
    if mut == "derpad":
        rs = R.lax_der_parse(der)
        rb = b"\x00" + rs[0].to_bytes(33, "big")              # superfluous zero padding: valid only for the lax parser
        body = b"\x02" + bytes([len(rb)]) + rb + R.der_encode_int(rs[1])
        return b"\x30" + bytes([len(body)]) + body + ht
    if mut == "emptysig":
        return b""
    return sig


def c_spend(sut, ex, c):
    t, mut, flags, ctx = ex["template"], ex["mut"], ex["flags"], ex["tx"]
    nin, nout = ex["nin"], ex["nout"]
    idx = ex["idx_sel"] % nin
    ht = ex["hashtype"]
    amount = ctx["amount"]
    ki = ex["key"]
    key = eckey(ki, compressed=(mut != "uncompressed"))
    pub = key.get_pubkey().get_bytes()
    if mut == "hybrid":
        un = eckey(ki, False).get_pubkey().get_bytes()
        pub = bytes([6 + (un[64] & 1)]) + un[1:]
    wrong = eckey(ki + 8)
    items = ex.get("items", [])
    inner = build(items) if items else b""
    init_stack = stack_of(ex["stack"]) if "stack" in ex else []

    def ecdsa(k, script_code, sigversion, hashtype=ht):
        tx0 = make_tx(ctx, nin, nout, idx)
        if sigversion == R.BASE:
            digest, _ = tf_script.LegacySignatureHash(tf_script.CScript(script_code), tx0, idx, hashtype)
        else:
            digest = tf_script.SegwitV0SignatureHash(tf_script.CScript(script_code), tx0, idx, hashtype, amount + (1 if mut == "amount" else 0))
        signer = wrong if mut == "wrongkey" else k
        return mutate_der(signer.sign_ecdsa(digest, rfc6979=True) + bytes([hashtype & 0xff if mut != "hashtype" else (hashtype ^ 2) & 0xff]), mut, ki)

    script_sig, witness, spk = b"", [], b""
    redeem = None
    if t == "p2pk":
        spk = R.push_data(pub) + b"\xac"
        script_sig = R.push_data(ecdsa(key, spk, R.BASE))
    elif t == "p2pkh":
        spk = b"\x76\xa9\x14" + R.hash160(pub) + b"\x88\xac"
        script_sig = R.push_data(ecdsa(key, spk, R.BASE)) + R.push_data(pub)
    elif t in ("multisig", "p2sh_multisig", "p2wsh_multisig"):
        n = ex["n"]
        k = min(ex["k"], n)
        keys = [eckey(ki + j) for j in range(n)]
        ms = bytes([0x50 + k]) + b"".join(R.push_data(x.get_pubkey().get_bytes()) for x in keys) + bytes([0x50 + n, 0xae])
        sv = R.WITNESS_V0 if t == "p2wsh_multisig" else R.BASE
        order = list(range(k))
        if mut == "swap" and k > 1:
            order = order[::-1]
        choose = sorted(range(n), key=lambda j: (j * 7 + ex["perm"]) % n)[:k]
        choose.sort()
        sigs = [ecdsa(keys[j], ms, sv) for j in choose]
        sigs = [sigs[o] for o in order]
        dummy = b"\x01" if mut == "dummy" else b""
        if t == "multisig":
            spk = ms
            script_sig = enc_push(dummy, "direct" if dummy else "min") + b"".join(R.push_data(s) for s in sigs)
        elif t == "p2sh_multisig":
            spk = b"\xa9\x14" + R.hash160(ms) + b"\x87"
            script_sig = enc_push(dummy, "direct" if dummy else "min") + b"".join(R.push_data(s) for s in sigs) + R.push_data(ms)
        else:
            spk = b"\x00\x20" + R.sha256(ms)
            witness = [dummy] + sigs + [ms]
    elif t in ("p2wpkh", "p2sh_p2wpkh"):
        prog = b"\x00\x14" + R.hash160(pub)
        code = b"\x76\xa9\x14" + R.hash160(pub) + b"\x88\xac"
        witness = [ecdsa(key, code, R.WITNESS_V0), pub]
        if t == "p2wpkh":
            spk = prog
        else:
            spk = b"\xa9\x14" + R.hash160(prog) + b"\x87"
            script_sig = R.push_data(prog)
    elif t == "bare_script":
        spk = inner
        script_sig = b"".join(enc_push(e, "min") for e in init_stack)
    elif t == "p2sh_script":
        spk = b"\xa9\x14" + R.hash160(inner) + b"\x87"
        script_sig = b"".join(enc_push(e, "min") for e in init_stack) + R.push_data(inner)
    elif t in ("p2wsh_script", "p2sh_p2wsh_script"):
        prog = b"\x00\x20" + R.sha256(inner)
        witness = init_stack + [inner]
        if t == "p2wsh_script":
            spk = prog
        else:
            spk = b"\xa9\x14" + R.hash160(prog) + b"\x87"
            script_sig = R.push_data(prog)
    elif t.startswith("p2tr"):
        xonly, _ = tf_key.compute_xonly_pubkey(priv_of(ki))
        annex = [b"\x50" + bytes([ki])] if mut == "annex" else []
        if t == "p2tr_key":
            out_x, _par, tweak = tap_output(xonly, b"")
            spk = b"\x51\x20" + out_x
            spent = spent_outputs(nin, idx, spk, amount)
            tx0 = make_tx(ctx, nin, nout, idx)
            sec = int.from_bytes(priv_of(ki), "big")
            if not (sec * G).y.is_even():
                sec = ORDER - sec
            tweaked = ((sec + tweak) % ORDER).to_bytes(32, "big")
            hts = ht if ht in (0, 1, 2, 3, 0x81, 0x82, 0x83) else 1
            if (hts & 3) == 3 and idx >= nout:
                hts = 1
            msg = tf_script.TaprootSignatureHash(tx0, spent, hts, idx, annex=annex[0] if annex else None)
            sig = tf_key.sign_schnorr(tweaked if mut != "wrongkey" else priv_of(ki + 8), msg)
            if hts or mut == "sighash_default_byte":
                sig += bytes([hts])
            if mut == "hashtype":
                sig = sig[:64] + bytes([ht if ht != hts else 0x84])
            if mut == "sigbit":
                sig = sig[:10] + bytes([sig[10] ^ 4]) + sig[11:]
            if mut == "emptysig":
                sig = b""
            witness = [sig] + annex
        else:
            if t == "p2tr_checksig":
                leaf = R.push_data(xonly) + b"\xac"
            elif t == "p2tr_csa":
                xs = [tf_key.compute_xonly_pubkey(priv_of(ki + j))[0] for j in range(ex["nsig"])]
                leaf = R.push_data(xs[0]) + b"\xac" + b"".join(R.push_data(x) + b"\xba" for x in xs[1:]) + bytes([0x50 + min(ex["k"], ex["nsig"]), 0x9c])
            elif t == "p2tr_budget":
                leaf = b"\x6e\xad" * (ex["nsig"] - 1) + b"\xac"
            elif t == "p2tr_unknownpk":
                upk = R.push_data(bytes([0xaa]) * ex["pklen"])
                unit = [b"\x76" + upk + b"\xad",                      # DUP <pk> CHECKSIGVERIFY
                        b"\x76\x00" + upk + b"\xba\x75",                # DUP 0 <pk> CHECKSIGADD DROP
                        b"\x76" + upk + b"\xac\x69"][ex["form"]]        # DUP <pk> CHECKSIG VERIFY
                leaf = unit * ex["nsig"] + b"\x75\x51"                  # ... DROP 1
            else:
                leaf = inner
            ver = ex.get("leafver", 0xc0) if t == "p2tr_leafver" else 0xc0
            sibling = tap_leaf(b"\x51")
            lh = tap_leaf(leaf, ver)
            root = R.tagged_hash("TapBranch", min(lh, sibling) + max(lh, sibling))
            out_x, par, _tw = tap_output(xonly, root)
            spk = b"\x51\x20" + out_x
            control = bytes([ver | par]) + xonly + sibling
            if mut == "sigmall":
                control = control[:-1] + bytes([control[-1] ^ 1])
            spent = spent_outputs(nin, idx, spk, amount)
            tx0 = make_tx(ctx, nin, nout, idx)
            hts = ht if ht in (0, 1, 2, 3, 0x81, 0x82, 0x83) else 0
            if (hts & 3) == 3 and idx >= nout:
                hts = 0

            def schnorr(codesep=0xffffffff):
                msg = tf_script.TaprootSignatureHash(tx0, spent, hts, idx, scriptpath=True, leaf_script=tf_script.CScript(leaf), codeseparator_pos=codesep,
                                                     annex=annex[0] if annex else None, leaf_ver=ver)
                s = tf_key.sign_schnorr(priv_of(ki) if mut != "wrongkey" else priv_of(ki + 8), msg)
                if hts:
                    s += bytes([hts])
                if mut == "sigbit":
                    s = s[:5] + bytes([s[5] ^ 0x10]) + s[6:]
                if mut == "hashtype":
                    s = s[:64] + bytes([0x84 if not hts else hts ^ 3])
                if mut == "emptysig":
                    s = b""
                return s

            if t == "p2tr_checksig":
                stack_items = [schnorr()]
            elif t == "p2tr_csa":
                # <x0> CHECKSIG <x1> CHECKSIGADD ... <k> NUMEQUAL: signatures for the first k keys, empty vectors for the others
                stack_items = []
                for j in reversed(range(ex["nsig"])):
                    if j < min(ex["k"], ex["nsig"]):
                        msg = tf_script.TaprootSignatureHash(tx0, spent, hts, idx, scriptpath=True, leaf_script=tf_script.CScript(leaf), codeseparator_pos=0xffffffff,
                                                             annex=annex[0] if annex else None, leaf_ver=ver)
                        s = tf_key.sign_schnorr(priv_of(ki + j if mut != "wrongkey" else ki + j + 8), msg) + (bytes([hts]) if hts else b"")
                        if mut == "sigbit" and j == 0:
                            s = s[:7] + bytes([s[7] ^ 1]) + s[8:]
                        stack_items.append(s)
                    else:
                        stack_items.append(b"" if mut != "emptysig" else b"\x00")
            elif t == "p2tr_budget":
                # one signature checked m times (2DUP CHECKSIGVERIFY ... CHECKSIG): budget = witness size + 50, cost = 50 * m.
                # An annex pads the witness so that the budget is off the requirement by ex["pad"] (valid iff pad >= 0).
                m = ex["nsig"]
                body = [b"\x00" * 65 if hts else b"\x00" * 64, xonly, leaf, control]
                size0 = 1 + sum(len(R.compact_size(len(e))) + len(e) for e in body)
                want = 50 * m - 50 + ex["pad"]
                extra = want - size0
                if extra >= 2 and not annex:
                    ln = extra - 1 if extra - 1 < 253 else extra - 3
                    annex = [b"\x50" + bytes(ln - 1)] if ln >= 1 else []
                stack_items = [schnorr(), xonly]
            elif t == "p2tr_unknownpk":
                dummy_sig = b"\x01" * ex["siglen"] if mut != "emptysig" else b""
                body = [dummy_sig, leaf, control]
                size0 = 1 + sum(len(R.compact_size(len(e))) + len(e) for e in body)
                extra = 50 * ex["nsig"] - 50 + ex["pad"] - size0
                if extra >= 2 and not annex:
                    ln = extra - 1 if extra - 1 <= 252 else extra - 3
                    annex = [b"\x50" + bytes(ln - 1)]
                    c.cls("unknownpk:budget-edge" + ("-over" if ex["pad"] < 0 else "-within"))
                stack_items = [dummy_sig]
            else:
                stack_items = init_stack
            witness = stack_items + [leaf, control] + annex
    elif t == "witness_unknown":
        prog = bytes([ex["ver"] + 0x50 if ex["ver"] else 0, ex["proglen"]]) + bytes([0x77]) * ex["proglen"]
        witness = [b"\x01"] if mut != "dropwit" else []
        if ex["p2sh_wrap"]:
            spk = b"\xa9\x14" + R.hash160(prog) + b"\x87"
            script_sig = R.push_data(prog)
        else:
            spk = prog
    else:
        raise e2.HarnessError("template " + t)

    # generic corruptions of the finished spend
    if mut == "extrawit":
        witness = [b"\x01"] + witness
    if mut == "dropwit" and witness and t != "witness_unknown":
        witness = witness[1:]
    if mut == "sigmall" and not t.startswith("p2tr"):
        script_sig = script_sig + b"\x61" if not witness else b"\x00" + script_sig

    tx = make_tx(ctx, nin, nout, idx, script_sig, witness)
    spent = spent_outputs(nin, idx, spk, amount)
    R.TRACE = set()
    try:
        ok, code = R.verify(script_sig, spk, witness, flags, R.TxChecker(tx, idx, spent))
        trace = R.TRACE
    finally:
        R.TRACE = None
    got = sut.call("verify_script", tx=tx_hex(tx), idx=idx, spent=sut_spent(spent), flags=flags)
    c.note(f"spend {t} mut={mut} ht={ht:#x} in={idx}/{nin} out={nout}: ref {code} / cpp '{got['err']}'; flags={','.join(flags)}")
    c.expect(got["ok"] == ok, "c12.verify-verdict", "VerifyScript success differs from the reference interpreter", cpp=got["ok"], cpp_err=got["err"], ref=code,
             template=t, mutation=mut, flags=flags, script_sig=script_sig, spk=spk, witness=[w.hex()[:80] for w in witness[-6:]], tx=tx_hex(tx)[:400])
    c.cls("template:" + t)
    c.cls("mut:" + mut)
    if ok:
        c.cls("spend-ok:" + t)
    account(c, trace, ok, code, boundary_in(items) or mut != "none" or t in ("p2tr_csa", "p2tr_budget", "p2tr_unknownpk", "witness_unknown", "p2tr_leafver"), (t, mut))


check = e2.dispatch({"eval": c_eval, "spend": c_spend})

if __name__ == "__main__":
    e2.main(__file__, strategy=cases(), check=check)
