"""Engine E3 (DESIGN.md §3.5): strace recorder, trace parser and crash-image builder.

A recorded run yields an ordered op log over the files of one directory tree (the datadir). For a cut point k:
  * kill image      : every op < k applied (page cache survives a process kill)
  * power-loss image: U = ordered list of data writes before k not yet covered by an fsync/fdatasync of their file;
                      keep U[:j], drop U[j:] (optionally keep only the first `tear` bytes of U[j]); metadata ops
                      (create/truncate/extend/rename/unlink) are applied in order (ordered-journal assumption).
This is the fault model of the property statements ("a suffix of not-yet-synced writes is discarded"), nothing stronger.
"""
import os
import re
import shutil
import subprocess

TRACE_SYSCALLS = "openat,creat,read,pread64,write,pwrite64,writev,lseek,fsync,fdatasync,ftruncate,fallocate,rename,renameat,renameat2,unlink,unlinkat,close"


def record(cmd, env, trace_path, stdout_path, timeout=1800):
    # -s 0: no string bodies (reads stay small); -e write=all: full hex dump of every write's data after the syscall line;
    # file names are always printed in full; -y annotates fds with paths.
    full = ["strace", "-f", "-y", "-s", "0", "-e", "write=all", "-o", trace_path, "-e", "trace=" + TRACE_SYSCALLS] + cmd
    with open(stdout_path, "wb") as out:
        r = subprocess.run(full, env=env, stdout=out, stderr=subprocess.PIPE, timeout=timeout)
    return r.returncode, r.stderr.decode(errors="replace")


class Op:
    __slots__ = ("i", "kind", "path", "off", "data", "path2", "length")

    def __init__(self, i, kind, path, off=0, data=b"", path2=None, length=0):
        self.i, self.kind, self.path, self.off, self.data, self.path2, self.length = i, kind, path, off, data, path2, length

    def __repr__(self):
        if self.kind == "w":
            return f"#{self.i} write {self.path} @{self.off}+{len(self.data)}"
        if self.kind == "r":
            return f"#{self.i} rename {self.path} -> {self.path2}"
        if self.kind in ("t", "x"):
            return f"#{self.i} {'truncate' if self.kind == 't' else 'extend'} {self.path} {self.length}"
        return f"#{self.i} {self.kind} {self.path}"


_line_re = re.compile(r"^(\d+)\s(.*)$", re.S)
_dump_re = re.compile(r"^\s*\| [0-9a-f]{5}  ((?:[0-9a-f]{2} ?| )+?)\s{2,}")
_fdpath_re = re.compile(r"^(\d+)<(.*)>$", re.S)
_cstr_re = re.compile(r'"((?:[^"\\]|\\.)*)"')


def _unescape(s):
    return s.encode("latin-1", "replace").decode("unicode_escape", "replace")


def _split_args(s):
    """split a syscall argument string at top-level commas"""
    out, depth, cur, inq, esc = [], 0, [], False, False
    for ch in s:
        if inq:
            cur.append(ch)
            if esc:
                esc = False
            elif ch == "\\":
                esc = True
            elif ch == '"':
                inq = False
        elif ch == '"':
            inq = True
            cur.append(ch)
        elif ch in "([{<":
            depth += 1
            cur.append(ch)
        elif ch in ")]}>":
            depth -= 1
            cur.append(ch)
        elif ch == "," and depth == 0:
            out.append("".join(cur).strip())
            cur = []
        else:
            cur.append(ch)
    if cur:
        out.append("".join(cur).strip())
    return out


def _path_arg(a):
    m = _cstr_re.match(a)
    return _unescape(m.group(1)) if m else None


def parse_trace(trace_path, root, initial_sizes=None):
    """-> (ops, marks). ops: ordered list of Op over paths relative to `root`; marks: list of (op_index, text) for every
    'MARK ...' line written to fd 1, where op_index = number of ops recorded before the marker. A 'MARK copied' line resets
    everything (the traced process has just copied the template into the datadir with syscalls that are not modelled)."""
    root = root.rstrip("/") + "/"
    pending = {}
    ops, raw_marks = [], []   # raw_marks: [op_index, bytearray, reset_flag_checked]
    fds = {}                  # fd -> [relpath or None, offset, append]
    sizes = dict(initial_sizes or {})
    sink = {}                 # pid -> bytearray receiving the hex dump of that pid's last write
    last_pid = None

    def rel(p):
        return p[len(root):] if p is not None and p.startswith(root) else None

    def size_of(path):
        return sizes.get(path, 0)

    def add(kind, path, **kw):
        op = Op(len(ops), kind, path, **kw)
        ops.append(op)
        return op

    def fd_of(a0):
        m = _fdpath_re.match(a0)
        if m:
            return int(m.group(1)), m.group(2)
        try:
            return int(a0), None
        except ValueError:
            return -1, None

    def finish_marks():
        """turn completed fd-1 writes into marker tuples; handle 'copied' resets"""
        out = []
        for idx, buf in raw_marks:
            for line in bytes(buf).decode(errors="replace").splitlines():
                if line.startswith("MARK "):
                    out.append((idx, line[5:].strip()))
        return out

    with open(trace_path, "r", errors="replace") as f:
        for raw in f:
            if raw.startswith(" | "):
                # hex dump line of the preceding write: " | 00000  xx xx .. (16 bytes, extra space after 8)  ascii |"
                buf = sink.get(last_pid)
                if buf is not None:
                    buf.extend(bytes.fromhex(raw[10:59].replace(" ", "")))
                continue
            m = _line_re.match(raw.rstrip("\n"))
            if not m:
                continue
            pid, rest = m.group(1), m.group(2)
            last_pid = pid
            rest = rest.strip()
            if rest.endswith("<unfinished ...>"):
                pending[pid] = rest[:-len("<unfinished ...>")].rstrip()
                continue
            mm = re.match(r"^<\.\.\. (\w+) resumed>(.*)$", rest, re.S)
            if mm:
                rest = pending.pop(pid, "") + mm.group(2)
            if rest.startswith("+++") or rest.startswith("---"):
                continue
            mc = re.match(r"^(\w+)\((.*)\)\s+=\s+(-?\d+|\?)(.*)$", rest, re.S)
            if not mc:
                continue
            name, argstr, ret, tail = mc.group(1), mc.group(2), mc.group(3), mc.group(4)
            sink.pop(pid, None)
            if ret == "?" or int(ret) < 0:
                continue
            ret = int(ret)
            a = _split_args(argstr)
            if name in ("openat", "creat"):
                mfd = re.match(r"^<(.*)>", tail.strip(), re.S)
                p = mfd.group(1) if mfd else _path_arg(a[1] if name == "openat" else a[0])
                flags = a[2] if name == "openat" else "O_CREAT|O_WRONLY|O_TRUNC"
                rp = rel(p)
                fds[ret] = [rp, 0, "O_APPEND" in flags]
                if rp is not None and ("O_WRONLY" in flags or "O_RDWR" in flags):
                    if "O_CREAT" in flags and rp not in sizes:
                        add("c", rp)
                        sizes[rp] = 0
                    if "O_TRUNC" in flags:
                        add("t", rp, length=0)
                        sizes[rp] = 0
            elif name == "close":
                fds.pop(fd_of(a[0])[0], None)
            elif name in ("read", "pread64"):
                fd, _ = fd_of(a[0])
                if name == "read" and fd in fds:
                    fds[fd][1] += ret
            elif name in ("write", "pwrite64", "writev"):
                # writev: with -e write=all every iovec is dumped in order (" * N bytes in buffer i" + hex lines), total = ret
                fd, fpath = fd_of(a[0])
                if fd == 1:
                    buf = bytearray()
                    raw_marks.append((len(ops), buf))
                    sink[pid] = buf
                    continue
                st = fds.get(fd)
                if st is None and fpath is not None:
                    st = fds[fd] = [rel(fpath), 0, False]
                if st is None or st[0] is None:
                    continue
                if name == "pwrite64":
                    off = int(a[3])
                else:
                    off = size_of(st[0]) if st[2] else st[1]
                    st[1] = off + ret
                buf = bytearray()
                op = add("w", st[0], off=off, data=buf, length=ret)
                sink[pid] = buf
                sizes[st[0]] = max(size_of(st[0]), off + ret)
            elif name == "lseek":
                fd, _ = fd_of(a[0])
                if fd in fds:
                    fds[fd][1] = ret
            elif name in ("fsync", "fdatasync"):
                _, fpath = fd_of(a[0])
                rp = rel(fpath)
                if rp is not None:
                    add("s", rp)
            elif name == "ftruncate":
                _, fpath = fd_of(a[0])
                rp = rel(fpath)
                if rp is not None:
                    add("t", rp, length=int(a[1]))
                    sizes[rp] = int(a[1])
            elif name == "fallocate":
                _, fpath = fd_of(a[0])
                rp = rel(fpath)
                if rp is not None and a[1].strip() == "0":
                    end = int(a[2]) + int(a[3])
                    if end > size_of(rp):
                        add("x", rp, length=end)
                        sizes[rp] = end
            elif name in ("rename", "renameat", "renameat2"):
                strs = [x for x in (_path_arg(z) for z in a) if x is not None]
                if len(strs) >= 2:
                    o, n = rel(strs[0]), rel(strs[1])
                    if o is not None and n is not None:
                        add("r", o, path2=n)
                        if o in sizes:
                            sizes[n] = sizes.pop(o)
            elif name in ("unlink", "unlinkat"):
                strs = [x for x in (_path_arg(z) for z in a) if x is not None]
                if strs and rel(strs[0]) is not None and "AT_REMOVEDIR" not in argstr:
                    rp = rel(strs[0])
                    add("u", rp)
                    sizes.pop(rp, None)
    marks = finish_marks()
    # 'copied' reset: drop every op before the marker and renumber
    cp = [i for i, t in marks if t == "copied"]
    if cp:
        c0 = cp[-1]
        ops = ops[c0:]
        for n, op in enumerate(ops):
            op.i = n
        marks = [(i - c0, t) for i, t in marks if i >= c0 and t != "copied"]
    for op in ops:
        if op.kind == "w":
            op.data = bytes(op.data)
            if len(op.data) != op.length:
                raise RuntimeError(f"write dump incomplete for {op}: got {len(op.data)} of {op.length} bytes")
    return ops, marks


def unsynced_writes(ops, k):
    """indices of data writes before k not covered by a later (< k) fsync/fdatasync of their file (rename carries the state)"""
    pend = {}  # path -> list of op indices
    for op in ops[:k]:
        if op.kind == "w":
            pend.setdefault(op.path, []).append(op.i)
        elif op.kind == "s":
            pend.pop(op.path, None)
        elif op.kind == "r":
            if op.path in pend:
                pend[op.path2] = pend.pop(op.path)
        elif op.kind == "u":
            pend.pop(op.path, None)
        elif op.kind == "t" and op.length == 0:
            pend.pop(op.path, None)
    out = sorted(i for v in pend.values() for i in v)
    return out


def build_image(template_dir, ops, k, dest, drop=frozenset(), tear=None):
    """materialise the state after ops[:k] on top of template_dir into dest. `drop`: indices of data writes to skip;
    `tear`: (index, nbytes) keep only the first nbytes of that write."""
    if os.path.exists(dest):
        shutil.rmtree(dest)
    shutil.copytree(template_dir, dest)
    files = {}  # relpath -> bytearray (loaded lazily)

    def load(p):
        if p not in files:
            fp = os.path.join(dest, p)
            files[p] = bytearray(open(fp, "rb").read()) if os.path.isfile(fp) else None
        return files[p]

    for op in ops[:k]:
        if op.kind == "c":
            if load(op.path) is None:
                files[op.path] = bytearray()
        elif op.kind == "w":
            if op.i in drop:
                continue
            data = op.data
            if tear and tear[0] == op.i:
                data = data[:tear[1]]
            b = load(op.path)
            if b is None:
                b = files[op.path] = bytearray()
            if len(b) < op.off:
                b.extend(bytes(op.off - len(b)))
            b[op.off:op.off + len(data)] = data
        elif op.kind == "t":
            b = load(op.path)
            if b is None:
                b = files[op.path] = bytearray()
            if op.length < len(b):
                del b[op.length:]
            else:
                b.extend(bytes(op.length - len(b)))
        elif op.kind == "x":
            b = load(op.path)
            if b is None:
                b = files[op.path] = bytearray()
            if op.length > len(b):
                b.extend(bytes(op.length - len(b)))
        elif op.kind == "r":
            files[op.path2] = load(op.path)
            files[op.path] = None
        elif op.kind == "u":
            load(op.path)
            files[op.path] = None
    for p, b in files.items():
        fp = os.path.join(dest, p)
        if b is None:
            if os.path.isfile(fp):
                os.unlink(fp)
            continue
        os.makedirs(os.path.dirname(fp), exist_ok=True)
        with open(fp, "wb") as f:
            f.write(b)


def dir_digest(d, ignore=()):
    """{relpath: bytes} for comparison of a materialised image with a real directory"""
    out = {}
    for base, _, names in os.walk(d):
        for n in names:
            fp = os.path.join(base, n)
            rp = os.path.relpath(fp, d)
            if any(rp == i or rp.endswith(i) for i in ignore):
                continue
            out[rp] = open(fp, "rb").read()
    return out
