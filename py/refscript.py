#!/usr/bin/env python3
"""refscript -- an independent reference interpreter for Bitcoin script (property C12).

Written from the rules (original opcode table; BIP16 P2SH, BIP62-style policy flags, BIP65 CLTV, BIP66 strict DER, BIP112 CSV,
BIP141/143 segwit v0, BIP146 LOW_S/NULLFAIL, BIP147 NULLDUMMY, BIP341/342 taproot/tapscript), not from interpreter.cpp:
  * scripts and stack elements are `bytes`; numbers are Python ints with explicit script-number encode/decode;
  * signature hashes come from test_framework.script (LegacySignatureHash / SegwitV0SignatureHash / TaprootSignatureHash),
    ECDSA / BIP340 verification from test_framework.key (after an own lax-DER parse, because consensus accepts non-strict DER
    without DERSIG), curve arithmetic for the taproot commitment from test_framework.crypto.secp256k1;
  * a failed evaluation raises ScriptFail(code); codes mirror ScriptError names but only success/failure (and, for bare evaluation,
    the final stack) is meant to be compared with the C++ interpreter.

Trust is earned, not assumed:   python3-vt py/refscript.py --selftest
runs every vector of /repo/src/test/data/script_tests.json (verdict AND error class), tx_valid.json / tx_invalid.json and the
key-path vectors of bip341_wallet_vectors.json through this interpreter and prints the agreement counts; exit status 0 only if
every applicable vector agrees. The C12 check refuses to run otherwise.
"""
import hashlib
import json
from decimal import Decimal
import os
import sys

REPO = os.environ.get("VERIF_REPO", "/repo")
_tf = os.path.join(REPO, "test", "functional")
if _tf not in sys.path:
    sys.path.insert(0, _tf)

from test_framework import key as tf_key                      # noqa: E402
from test_framework import messages as tf_msg                 # noqa: E402
from test_framework import script as tf_script                # noqa: E402
from test_framework.crypto import secp256k1                   # noqa: E402
from test_framework.crypto.ripemd160 import ripemd160         # noqa: E402

# ----------------------------------------------------------------------------------------------------------------
# constants

MAX_SCRIPT_SIZE = 10000
MAX_ELEMENT_SIZE = 520
MAX_OPS = 201
MAX_STACK = 1000
MAX_MULTISIG_KEYS = 20
LOCKTIME_THRESHOLD = 500000000
SEQ_FINAL = 0xffffffff
SEQ_DISABLE = 1 << 31
SEQ_TYPE = 1 << 22
SEQ_MASK = 0xffff
VALIDATION_WEIGHT_PER_SIGOP = 50
VALIDATION_WEIGHT_OFFSET = 50
ORDER = secp256k1.GE.ORDER
FIELD = secp256k1.FE.SIZE

ALL_FLAGS = ["P2SH", "STRICTENC", "DERSIG", "LOW_S", "NULLDUMMY", "SIGPUSHONLY", "MINIMALDATA", "DISCOURAGE_UPGRADABLE_NOPS", "CLEANSTACK",
             "CHECKLOCKTIMEVERIFY", "CHECKSEQUENCEVERIFY", "WITNESS", "DISCOURAGE_UPGRADABLE_WITNESS_PROGRAM", "MINIMALIF", "NULLFAIL",
             "WITNESS_PUBKEYTYPE", "CONST_SCRIPTCODE", "TAPROOT", "DISCOURAGE_UPGRADABLE_TAPROOT_VERSION", "DISCOURAGE_OP_SUCCESS",
             "DISCOURAGE_UPGRADABLE_PUBKEYTYPE"]

BASE, WITNESS_V0, TAPROOT, TAPSCRIPT = "base", "witness_v0", "taproot", "tapscript"

# opcodes (numbers from the opcode table)
OP_0, OP_PUSHDATA1, OP_PUSHDATA2, OP_PUSHDATA4, OP_1NEGATE, OP_RESERVED, OP_1, OP_16 = 0x00, 0x4c, 0x4d, 0x4e, 0x4f, 0x50, 0x51, 0x60
OP_NOP, OP_VER, OP_IF, OP_NOTIF, OP_VERIF, OP_VERNOTIF, OP_ELSE, OP_ENDIF, OP_VERIFY, OP_RETURN = 0x61, 0x62, 0x63, 0x64, 0x65, 0x66, 0x67, 0x68, 0x69, 0x6a
OP_TOALTSTACK, OP_FROMALTSTACK, OP_2DROP, OP_2DUP, OP_3DUP, OP_2OVER, OP_2ROT, OP_2SWAP = 0x6b, 0x6c, 0x6d, 0x6e, 0x6f, 0x70, 0x71, 0x72
OP_IFDUP, OP_DEPTH, OP_DROP, OP_DUP, OP_NIP, OP_OVER, OP_PICK, OP_ROLL, OP_ROT, OP_SWAP, OP_TUCK = 0x73, 0x74, 0x75, 0x76, 0x77, 0x78, 0x79, 0x7a, 0x7b, 0x7c, 0x7d
OP_CAT, OP_SUBSTR, OP_LEFT, OP_RIGHT, OP_SIZE = 0x7e, 0x7f, 0x80, 0x81, 0x82
OP_INVERT, OP_AND, OP_OR, OP_XOR, OP_EQUAL, OP_EQUALVERIFY, OP_RESERVED1, OP_RESERVED2 = 0x83, 0x84, 0x85, 0x86, 0x87, 0x88, 0x89, 0x8a
OP_1ADD, OP_1SUB, OP_2MUL, OP_2DIV, OP_NEGATE, OP_ABS, OP_NOT, OP_0NOTEQUAL = 0x8b, 0x8c, 0x8d, 0x8e, 0x8f, 0x90, 0x91, 0x92
OP_ADD, OP_SUB, OP_MUL, OP_DIV, OP_MOD, OP_LSHIFT, OP_RSHIFT = 0x93, 0x94, 0x95, 0x96, 0x97, 0x98, 0x99
OP_BOOLAND, OP_BOOLOR, OP_NUMEQUAL, OP_NUMEQUALVERIFY, OP_NUMNOTEQUAL, OP_LESSTHAN, OP_GREATERTHAN = 0x9a, 0x9b, 0x9c, 0x9d, 0x9e, 0x9f, 0xa0
OP_LESSTHANOREQUAL, OP_GREATERTHANOREQUAL, OP_MIN, OP_MAX, OP_WITHIN = 0xa1, 0xa2, 0xa3, 0xa4, 0xa5
OP_RIPEMD160, OP_SHA1, OP_SHA256, OP_HASH160, OP_HASH256, OP_CODESEPARATOR = 0xa6, 0xa7, 0xa8, 0xa9, 0xaa, 0xab
OP_CHECKSIG, OP_CHECKSIGVERIFY, OP_CHECKMULTISIG, OP_CHECKMULTISIGVERIFY = 0xac, 0xad, 0xae, 0xaf
OP_NOP1, OP_CLTV, OP_CSV, OP_NOP4, OP_NOP10, OP_CHECKSIGADD = 0xb0, 0xb1, 0xb2, 0xb3, 0xb9, 0xba

DISABLED = {OP_CAT, OP_SUBSTR, OP_LEFT, OP_RIGHT, OP_INVERT, OP_AND, OP_OR, OP_XOR, OP_2MUL, OP_2DIV, OP_MUL, OP_DIV, OP_MOD, OP_LSHIFT, OP_RSHIFT}


def is_op_success(op):
    """BIP342: 80, 98, 126-129, 131-134, 137-138, 141-142, 149-153, 187-254."""
    return op in (80, 98) or 126 <= op <= 129 or 131 <= op <= 134 or 137 <= op <= 138 or 141 <= op <= 142 or 149 <= op <= 153 or 187 <= op <= 254


TRACE = None      # set to a set() to collect the non-push opcodes that were actually executed (statistics of the C12 check)


class ScriptFail(Exception):
    def __init__(self, code):
        super().__init__(code)
        self.code = code


# ----------------------------------------------------------------------------------------------------------------
# hashing helpers

def sha256(b):
    return hashlib.sha256(b).digest()


def hash256(b):
    return sha256(sha256(b))


def hash160(b):
    return ripemd160(sha256(b))


def tagged_hash(tag, data):
    t = sha256(tag.encode())
    return sha256(t + t + data)


def compact_size(n):
    if n < 253:
        return bytes([n])
    if n <= 0xffff:
        return b"\xfd" + n.to_bytes(2, "little")
    if n <= 0xffffffff:
        return b"\xfe" + n.to_bytes(4, "little")
    return b"\xff" + n.to_bytes(8, "little")


# ----------------------------------------------------------------------------------------------------------------
# script numbers and booleans

def num_encode(n):
    """Minimal little-endian sign-magnitude encoding; zero is the empty string."""
    if n == 0:
        return b""
    neg, a = n < 0, abs(n)
    out = bytearray()
    while a:
        out.append(a & 0xff)
        a >>= 8
    if out[-1] & 0x80:
        out.append(0x80 if neg else 0x00)
    elif neg:
        out[-1] |= 0x80
    return bytes(out)


def num_decode(b, minimal, max_len=4):
    if len(b) > max_len:
        raise ScriptFail("SCRIPTNUM_OVERFLOW")
    if minimal and len(b) > 0:
        # the most significant byte may only be 0x00/0x80 if the byte below it needs the room for its own top bit
        if (b[-1] & 0x7f) == 0 and (len(b) == 1 or (b[-2] & 0x80) == 0):
            raise ScriptFail("SCRIPTNUM_NONMINIMAL")
    if not b:
        return 0
    v = int.from_bytes(b, "little")
    if b[-1] & 0x80:
        v &= ~(0x80 << (8 * (len(b) - 1)))
        return -v
    return v


def cast_bool(b):
    """False: empty, all zero bytes, or zero bytes followed by a final 0x80 (negative zero)."""
    for i, x in enumerate(b):
        if x != 0:
            return not (i == len(b) - 1 and x == 0x80)
    return False


# ----------------------------------------------------------------------------------------------------------------
# script parsing

def read_op(script, pc):
    """-> (opcode, data or None, next pc); raises ScriptFail('BAD_OPCODE') on a truncated push."""
    op = script[pc]
    pc += 1
    if op > OP_PUSHDATA4:
        return op, None, pc
    if op < OP_PUSHDATA1:
        n = op
    else:
        w = {OP_PUSHDATA1: 1, OP_PUSHDATA2: 2, OP_PUSHDATA4: 4}[op]
        if pc + w > len(script):
            raise ScriptFail("BAD_OPCODE")
        n = int.from_bytes(script[pc:pc + w], "little")
        pc += w
    if pc + n > len(script):
        raise ScriptFail("BAD_OPCODE")
    return op, script[pc:pc + n], pc + n


def iter_ops(script):
    pc = 0
    while pc < len(script):
        op, data, pc = read_op(script, pc)
        yield op, data, pc


def push_data(data):
    """Shortest push-by-length encoding (what `CScript << vector` produces): never OP_N."""
    n = len(data)
    if n < OP_PUSHDATA1:
        return bytes([n]) + data
    if n <= 0xff:
        return bytes([OP_PUSHDATA1, n]) + data
    if n <= 0xffff:
        return bytes([OP_PUSHDATA2]) + n.to_bytes(2, "little") + data
    return bytes([OP_PUSHDATA4]) + n.to_bytes(4, "little") + data


def is_minimal_push(op, data):
    n = len(data)
    if n == 0:
        return op == OP_0
    if n == 1 and 1 <= data[0] <= 16:
        return False                       # OP_1..OP_16 exist for that
    if n == 1 and data[0] == 0x81:
        return False                       # OP_1NEGATE
    if n <= 75:
        return op == n
    if n <= 255:
        return op == OP_PUSHDATA1
    if n <= 65535:
        return op == OP_PUSHDATA2
    return True


def is_push_only(script):
    try:
        for op, _data, _pc in iter_ops(script):
            if op > OP_16:
                return False
    except ScriptFail:
        return False
    return True


def witness_program(script):
    """(version, program) or None."""
    if len(script) < 4 or len(script) > 42:
        return None
    if script[0] != OP_0 and not (OP_1 <= script[0] <= OP_16):
        return None
    if script[1] + 2 != len(script):
        return None
    return (0 if script[0] == OP_0 else script[0] - OP_1 + 1), script[2:]


def is_p2sh(script):
    return len(script) == 23 and script[0] == OP_HASH160 and script[1] == 20 and script[22] == OP_EQUAL


def find_and_delete(script, pattern):
    """Remove every occurrence of `pattern` that starts at an opcode boundary. -> (new script, number removed)."""
    if not pattern:
        return script, 0
    out = bytearray()
    n = 0
    pc = 0
    seg = 0          # start of the not yet copied segment
    while True:
        while script[pc:pc + len(pattern)] == pattern and pc + len(pattern) <= len(script):
            out += script[seg:pc]
            pc += len(pattern)
            seg = pc
            n += 1
        if pc >= len(script):
            break
        try:
            _op, _d, pc = read_op(script, pc)
        except ScriptFail:
            break        # undecodable tail is kept as it is
    out += script[seg:]
    return (bytes(out), n) if n else (script, 0)


# ----------------------------------------------------------------------------------------------------------------
# signature / key encodings

def is_strict_der(sig):
    """BIP66, on the signature including its hash type byte."""
    if len(sig) < 9 or len(sig) > 73:
        return False
    if sig[0] != 0x30 or sig[1] != len(sig) - 3:
        return False
    lr = sig[3]
    if 5 + lr >= len(sig):
        return False
    ls = sig[5 + lr]
    if lr + ls + 7 != len(sig):
        return False
    if sig[2] != 0x02 or lr == 0 or (sig[4] & 0x80):
        return False
    if lr > 1 and sig[4] == 0 and not (sig[5] & 0x80):
        return False
    if sig[lr + 4] != 0x02 or ls == 0 or (sig[lr + 6] & 0x80):
        return False
    if ls > 1 and sig[lr + 6] == 0 and not (sig[lr + 7] & 0x80):
        return False
    return True


def check_signature_encoding(sig, flags):
    if len(sig) == 0:
        return
    if flags & {"DERSIG", "LOW_S", "STRICTENC"} and not is_strict_der(sig):
        raise ScriptFail("SIG_DER")
    if "LOW_S" in flags:
        # decided on the parsed value: an S (or R) outside the group makes the signature "zero", which is not high (it can never verify)
        rs = lax_der_parse(sig[:-1])
        if rs is None or rs[1] > ORDER // 2:
            raise ScriptFail("SIG_HIGH_S")
    if "STRICTENC" in flags and not (1 <= (sig[-1] & ~0x80) <= 3):
        raise ScriptFail("SIG_HASHTYPE")


def check_pubkey_encoding(pub, flags, sigversion):
    if "STRICTENC" in flags:
        ok = (len(pub) == 33 and pub[0] in (2, 3)) or (len(pub) == 65 and pub[0] == 4)
        if not ok:
            raise ScriptFail("PUBKEYTYPE")
    if "WITNESS_PUBKEYTYPE" in flags and sigversion == WITNESS_V0:
        if not (len(pub) == 33 and pub[0] in (2, 3)):
            raise ScriptFail("WITNESS_PUBKEYTYPE")


def lax_der_parse(sig):
    """Permissive BER-style parse used by consensus when no strictness flag applies. -> (r, s) or None.
    Sequence length is ignored, multi-byte lengths are allowed, leading zeros are skipped, trailing data is ignored;
    an integer that does not fit 32 bytes or is >= the group order turns the signature into (0, 0) (never valid)."""
    n = len(sig)
    pos = 0

    def need(cond):
        if not cond:
            raise ValueError

    def read_len():
        nonlocal pos
        need(pos < n)
        b = sig[pos]
        pos += 1
        if b & 0x80:
            k = b - 0x80
            need(k <= n - pos)
            while k > 0 and sig[pos] == 0:
                pos += 1
                k -= 1
            need(k < 8)
            v = 0
            while k > 0:
                v = (v << 8) + sig[pos]
                pos += 1
                k -= 1
            return v
        return b

    try:
        need(pos < n and sig[pos] == 0x30)
        pos += 1
        # sequence length: skipped, value unused
        need(pos < n)
        b = sig[pos]
        pos += 1
        if b & 0x80:
            need(b - 0x80 <= n - pos)
            pos += b - 0x80
        ints = []
        for _ in range(2):
            need(pos < n and sig[pos] == 0x02)
            pos += 1
            ln = read_len()
            need(ln <= n - pos)
            ints.append(sig[pos:pos + ln])
            pos += ln
    except ValueError:
        return None
    vals = []
    overflow = False
    for raw in ints:
        raw = raw.lstrip(b"\x00")
        if len(raw) > 32:
            overflow = True
            vals.append(0)
        else:
            vals.append(int.from_bytes(raw, "big"))
    if overflow or vals[0] >= ORDER or vals[1] >= ORDER:
        return (0, 0)
    return (vals[0], vals[1])


def der_encode_int(v):
    b = v.to_bytes((v.bit_length() + 7) // 8 or 1, "big")
    if b[0] & 0x80:
        b = b"\x00" + b
    return b"\x02" + bytes([len(b)]) + b


def parse_pubkey(pub):
    """secp256k1 public key parsing as consensus does it: 02/03 compressed, 04 uncompressed, 06/07 hybrid. -> ECPubKey or None."""
    if len(pub) == 33 and pub[0] in (2, 3):
        enc = pub
    elif len(pub) == 65 and pub[0] in (4, 6, 7):
        x = int.from_bytes(pub[1:33], "big")
        y = int.from_bytes(pub[33:65], "big")
        if x >= FIELD or y >= FIELD:
            return None
        if pub[0] in (6, 7) and (y & 1) != (pub[0] & 1):
            return None
        enc = b"\x04" + pub[1:]
    else:
        return None
    k = tf_key.ECPubKey()
    try:
        k.set(enc)
    except Exception:
        return None
    return k if k.is_valid else None


_ECDSA_MEMO = {}


def ecdsa_verify(pub, sig_der, msg32):
    """Consensus ECDSA verification: lax DER, high S accepted (normalised). Memoised (pure function, slow in Python)."""
    k = (bytes(pub), bytes(sig_der), bytes(msg32))
    if k not in _ECDSA_MEMO:
        if len(_ECDSA_MEMO) > 20000:
            _ECDSA_MEMO.clear()
        _ECDSA_MEMO[k] = _ecdsa_verify(pub, sig_der, msg32)
    return _ECDSA_MEMO[k]


def _ecdsa_verify(pub, sig_der, msg32):
    k = parse_pubkey(pub)
    if k is None:
        return False
    rs = lax_der_parse(sig_der)
    if rs is None:
        return False
    r, s = rs
    if r == 0 or s == 0:
        return False
    if s > ORDER // 2:
        s = ORDER - s
    body = der_encode_int(r) + der_encode_int(s)
    return k.verify_ecdsa(b"\x30" + bytes([len(body)]) + body, msg32, low_s=False)


# ----------------------------------------------------------------------------------------------------------------
# transaction context

class ExecData:
    def __init__(self):
        self.annex = None                 # full annex including the 0x50 byte, or None
        self.tapleaf_script = None
        self.leaf_ver = None
        self.codesep_pos = 0xffffffff
        self.weight_left = None


class NoTxChecker:
    """Evaluation without a transaction: every signature / lock-time check fails."""

    def check_ecdsa(self, sig, pub, script_code, sigversion):
        return False

    def check_schnorr(self, sig, pub, sigversion, execdata):
        raise ScriptFail("SCHNORR_SIG")

    def check_locktime(self, n):
        return False

    def check_sequence(self, n):
        return False


class TxChecker:
    """tx: test_framework.messages.CTransaction; spent: list of CTxOut (one per input; needed for taproot; only spent[idx] for v0)."""

    def __init__(self, tx, idx, spent):
        self.tx, self.idx, self.spent = tx, idx, spent
        self.amount = spent[idx].nValue

    def check_ecdsa(self, sig, pub, script_code, sigversion):
        if len(sig) == 0:
            return False
        # the key must have the length its first byte announces
        want = {2: 33, 3: 33, 4: 65, 6: 65, 7: 65}.get(pub[0] if pub else None)
        if want is None or len(pub) != want:
            return False
        hashtype = sig[-1]
        try:
            sc = tf_script.CScript(script_code)
            if sigversion == BASE:
                list(sc.raw_iter())                      # legacy hashing walks the script: undecodable => the evaluation fails anyway
                digest, _err = tf_script.LegacySignatureHash(sc, self.tx, self.idx, hashtype)
            else:
                if self.amount < 0:
                    return False
                digest = tf_script.SegwitV0SignatureHash(sc, self.tx, self.idx, hashtype, self.amount)
        except tf_script.CScriptInvalidError:
            return False
        return ecdsa_verify(pub, sig[:-1], digest)

    def check_schnorr(self, sig, pub, sigversion, execdata):
        if len(sig) not in (64, 65):
            raise ScriptFail("SCHNORR_SIG_SIZE")
        hashtype = 0
        if len(sig) == 65:
            hashtype = sig[64]
            if hashtype == 0:
                raise ScriptFail("SCHNORR_SIG_HASHTYPE")
        if hashtype not in (0, 1, 2, 3, 0x81, 0x82, 0x83):
            raise ScriptFail("SCHNORR_SIG_HASHTYPE")
        if (hashtype & 3) == 3 and self.idx >= len(self.tx.vout):
            raise ScriptFail("SCHNORR_SIG_HASHTYPE")
        if len(self.spent) != len(self.tx.vin):
            raise ScriptFail("SCHNORR_SIG_HASHTYPE")       # spent outputs unknown: the message cannot be formed
        kw = {}
        if sigversion == TAPSCRIPT:
            kw = dict(scriptpath=True, leaf_script=execdata.tapleaf_script, codeseparator_pos=execdata.codesep_pos, leaf_ver=execdata.leaf_ver)
        msg = tf_script.TaprootSignatureHash(self.tx, self.spent, hashtype, self.idx, annex=execdata.annex, **kw)
        if not tf_key.verify_schnorr(pub, sig[:64], msg):
            raise ScriptFail("SCHNORR_SIG")
        return True

    def check_locktime(self, n):
        lt = self.tx.nLockTime
        if (lt < LOCKTIME_THRESHOLD) != (n < LOCKTIME_THRESHOLD):
            return False
        if n > lt:
            return False
        return self.tx.vin[self.idx].nSequence != SEQ_FINAL

    def check_sequence(self, n):
        if (self.tx.version & 0xffffffff) < 2:
            return False
        seq = self.tx.vin[self.idx].nSequence
        if seq & SEQ_DISABLE:
            return False
        mask = SEQ_TYPE | SEQ_MASK
        a, b = seq & mask, n & mask
        if (a < SEQ_TYPE) != (b < SEQ_TYPE):
            return False
        return b <= a


# ----------------------------------------------------------------------------------------------------------------
# the interpreter

def _checksig_pre_tapscript(sig, pub, script, codehash_pc, flags, checker, sigversion):
    code = script[codehash_pc:]
    if sigversion == BASE:
        code, found = find_and_delete(code, push_data(sig))
        if found and "CONST_SCRIPTCODE" in flags:
            raise ScriptFail("SIG_FINDANDDELETE")
    check_signature_encoding(sig, flags)
    check_pubkey_encoding(pub, flags, sigversion)
    ok = checker.check_ecdsa(sig, pub, code, sigversion)
    if not ok and "NULLFAIL" in flags and len(sig):
        raise ScriptFail("SIG_NULLFAIL")
    return ok


def _checksig_tapscript(sig, pub, flags, checker, execdata):
    ok = len(sig) > 0
    if ok:
        execdata.weight_left -= VALIDATION_WEIGHT_PER_SIGOP
        if execdata.weight_left < 0:
            raise ScriptFail("TAPSCRIPT_VALIDATION_WEIGHT")
    if len(pub) == 0:
        raise ScriptFail("TAPSCRIPT_EMPTY_PUBKEY")
    if len(pub) == 32:
        if ok:
            checker.check_schnorr(sig, pub, TAPSCRIPT, execdata)       # raises on failure
    else:
        if "DISCOURAGE_UPGRADABLE_PUBKEYTYPE" in flags:
            raise ScriptFail("DISCOURAGE_UPGRADABLE_PUBKEYTYPE")
    return ok


def _checksig(sig, pub, script, codehash_pc, flags, checker, sigversion, execdata):
    if sigversion == TAPSCRIPT:
        return _checksig_tapscript(sig, pub, flags, checker, execdata)
    return _checksig_pre_tapscript(sig, pub, script, codehash_pc, flags, checker, sigversion)


def eval_script(stack, script, flags, checker, sigversion, execdata=None):
    """Runs `script` on `stack` (list of bytes, modified in place). Raises ScriptFail on failure."""
    flags = frozenset(flags)
    if execdata is None:
        execdata = ExecData()
    legacy = sigversion in (BASE, WITNESS_V0)
    if legacy and len(script) > MAX_SCRIPT_SIZE:
        raise ScriptFail("SCRIPT_SIZE")
    minimal = "MINIMALDATA" in flags
    alt = []
    cond = []                   # one bool per open IF
    nops = 0
    codehash_pc = 0
    execdata.codesep_pos = 0xffffffff
    pc = 0
    opcode_pos = -1

    def need(n):
        if len(stack) < n:
            raise ScriptFail("INVALID_STACK_OPERATION")

    def num(b, max_len=4):
        return num_decode(b, minimal, max_len)

    while pc < len(script):
        opcode_pos += 1
        executing = all(cond)
        op, data, pc = read_op(script, pc)
        if data is not None and len(data) > MAX_ELEMENT_SIZE:
            raise ScriptFail("PUSH_SIZE")
        if legacy and op > OP_16:
            nops += 1
            if nops > MAX_OPS:
                raise ScriptFail("OP_COUNT")
        if op in DISABLED:
            raise ScriptFail("DISABLED_OPCODE")
        if op == OP_CODESEPARATOR and sigversion == BASE and "CONST_SCRIPTCODE" in flags:
            raise ScriptFail("OP_CODESEPARATOR")

        if data is not None:
            if executing:
                if minimal and not is_minimal_push(op, data):
                    raise ScriptFail("MINIMALDATA")
                stack.append(data)
        elif executing or OP_IF <= op <= OP_ENDIF:
            if TRACE is not None and executing:
                TRACE.add(op)
            if op == OP_1NEGATE or OP_1 <= op <= OP_16:
                stack.append(num_encode(op - (OP_1 - 1)))
            elif op == OP_NOP:
                pass
            elif op == OP_CLTV:
                if "CHECKLOCKTIMEVERIFY" in flags:
                    need(1)
                    n = num(stack[-1], 5)
                    if n < 0:
                        raise ScriptFail("NEGATIVE_LOCKTIME")
                    if not checker.check_locktime(n):
                        raise ScriptFail("UNSATISFIED_LOCKTIME")
            elif op == OP_CSV:
                if "CHECKSEQUENCEVERIFY" in flags:
                    need(1)
                    n = num(stack[-1], 5)
                    if n < 0:
                        raise ScriptFail("NEGATIVE_LOCKTIME")
                    if not (n & SEQ_DISABLE) and not checker.check_sequence(n):
                        raise ScriptFail("UNSATISFIED_LOCKTIME")
            elif op == OP_NOP1 or OP_NOP4 <= op <= OP_NOP10:
                if "DISCOURAGE_UPGRADABLE_NOPS" in flags:
                    raise ScriptFail("DISCOURAGE_UPGRADABLE_NOPS")
            elif op in (OP_IF, OP_NOTIF):
                v = False
                if executing:
                    need(1)
                    top = stack[-1]
                    if sigversion == TAPSCRIPT:
                        if top not in (b"", b"\x01"):
                            raise ScriptFail("TAPSCRIPT_MINIMALIF")
                    elif sigversion == WITNESS_V0 and "MINIMALIF" in flags:
                        if top not in (b"", b"\x01"):
                            raise ScriptFail("MINIMALIF")
                    v = cast_bool(top)
                    if op == OP_NOTIF:
                        v = not v
                    stack.pop()
                cond.append(v)
            elif op == OP_ELSE:
                if not cond:
                    raise ScriptFail("UNBALANCED_CONDITIONAL")
                cond[-1] = not cond[-1]
            elif op == OP_ENDIF:
                if not cond:
                    raise ScriptFail("UNBALANCED_CONDITIONAL")
                cond.pop()
            elif op == OP_VERIFY:
                need(1)
                if not cast_bool(stack[-1]):
                    raise ScriptFail("VERIFY")
                stack.pop()
            elif op == OP_RETURN:
                raise ScriptFail("OP_RETURN")
            elif op == OP_TOALTSTACK:
                need(1)
                alt.append(stack.pop())
            elif op == OP_FROMALTSTACK:
                if not alt:
                    raise ScriptFail("INVALID_ALTSTACK_OPERATION")
                stack.append(alt.pop())
            elif op == OP_2DROP:
                need(2)
                del stack[-2:]
            elif op == OP_2DUP:
                need(2)
                stack.extend(stack[-2:])
            elif op == OP_3DUP:
                need(3)
                stack.extend(stack[-3:])
            elif op == OP_2OVER:
                need(4)
                stack.extend(stack[-4:-2])
            elif op == OP_2ROT:
                need(6)
                pair = stack[-6:-4]
                del stack[-6:-4]
                stack.extend(pair)
            elif op == OP_2SWAP:
                need(4)
                stack[-4:] = stack[-2:] + stack[-4:-2]
            elif op == OP_IFDUP:
                need(1)
                if cast_bool(stack[-1]):
                    stack.append(stack[-1])
            elif op == OP_DEPTH:
                stack.append(num_encode(len(stack)))
            elif op == OP_DROP:
                need(1)
                stack.pop()
            elif op == OP_DUP:
                need(1)
                stack.append(stack[-1])
            elif op == OP_NIP:
                need(2)
                del stack[-2]
            elif op == OP_OVER:
                need(2)
                stack.append(stack[-2])
            elif op in (OP_PICK, OP_ROLL):
                need(2)
                n = num(stack[-1])
                stack.pop()
                if n < 0 or n >= len(stack):
                    raise ScriptFail("INVALID_STACK_OPERATION")
                item = stack[-1 - n]
                if op == OP_ROLL:
                    del stack[-1 - n]
                stack.append(item)
            elif op == OP_ROT:
                need(3)
                stack.append(stack.pop(-3))
            elif op == OP_SWAP:
                need(2)
                stack[-2], stack[-1] = stack[-1], stack[-2]
            elif op == OP_TUCK:
                need(2)
                stack.insert(-2, stack[-1])
            elif op == OP_SIZE:
                need(1)
                stack.append(num_encode(len(stack[-1])))
            elif op in (OP_EQUAL, OP_EQUALVERIFY):
                need(2)
                b = stack.pop()
                a = stack.pop()
                if op == OP_EQUAL:
                    stack.append(b"\x01" if a == b else b"")
                elif a != b:
                    stack.append(b"")       # the failing evaluation leaves the false result on the stack
                    raise ScriptFail("EQUALVERIFY")
            elif op in (OP_1ADD, OP_1SUB, OP_NEGATE, OP_ABS, OP_NOT, OP_0NOTEQUAL):
                need(1)
                a = num(stack[-1])
                r = {OP_1ADD: a + 1, OP_1SUB: a - 1, OP_NEGATE: -a, OP_ABS: abs(a), OP_NOT: int(a == 0), OP_0NOTEQUAL: int(a != 0)}[op]
                stack.pop()
                stack.append(num_encode(r))
            elif op in (OP_ADD, OP_SUB, OP_BOOLAND, OP_BOOLOR, OP_NUMEQUAL, OP_NUMEQUALVERIFY, OP_NUMNOTEQUAL, OP_LESSTHAN, OP_GREATERTHAN,
                        OP_LESSTHANOREQUAL, OP_GREATERTHANOREQUAL, OP_MIN, OP_MAX):
                need(2)
                a = num(stack[-2])
                b = num(stack[-1])
                if op == OP_ADD:
                    r = a + b
                elif op == OP_SUB:
                    r = a - b
                elif op == OP_BOOLAND:
                    r = int(a != 0 and b != 0)
                elif op == OP_BOOLOR:
                    r = int(a != 0 or b != 0)
                elif op in (OP_NUMEQUAL, OP_NUMEQUALVERIFY):
                    r = int(a == b)
                elif op == OP_NUMNOTEQUAL:
                    r = int(a != b)
                elif op == OP_LESSTHAN:
                    r = int(a < b)
                elif op == OP_GREATERTHAN:
                    r = int(a > b)
                elif op == OP_LESSTHANOREQUAL:
                    r = int(a <= b)
                elif op == OP_GREATERTHANOREQUAL:
                    r = int(a >= b)
                elif op == OP_MIN:
                    r = min(a, b)
                else:
                    r = max(a, b)
                del stack[-2:]
                stack.append(num_encode(r))
                if op == OP_NUMEQUALVERIFY:
                    if not r:
                        raise ScriptFail("NUMEQUALVERIFY")
                    stack.pop()
            elif op == OP_WITHIN:
                need(3)
                x = num(stack[-3])
                lo = num(stack[-2])
                hi = num(stack[-1])
                del stack[-3:]
                stack.append(b"\x01" if lo <= x < hi else b"")
            elif op in (OP_RIPEMD160, OP_SHA1, OP_SHA256, OP_HASH160, OP_HASH256):
                need(1)
                v = stack.pop()
                if op == OP_RIPEMD160:
                    h = ripemd160(v)
                elif op == OP_SHA1:
                    h = hashlib.sha1(v).digest()
                elif op == OP_SHA256:
                    h = sha256(v)
                elif op == OP_HASH160:
                    h = hash160(v)
                else:
                    h = hash256(v)
                stack.append(h)
            elif op == OP_CODESEPARATOR:
                codehash_pc = pc
                execdata.codesep_pos = opcode_pos
            elif op in (OP_CHECKSIG, OP_CHECKSIGVERIFY):
                need(2)
                sig, pub = stack[-2], stack[-1]
                ok = _checksig(sig, pub, script, codehash_pc, flags, checker, sigversion, execdata)
                del stack[-2:]
                stack.append(b"\x01" if ok else b"")
                if op == OP_CHECKSIGVERIFY:
                    if not ok:
                        raise ScriptFail("CHECKSIGVERIFY")
                    stack.pop()
            elif op == OP_CHECKSIGADD:
                if legacy:
                    raise ScriptFail("BAD_OPCODE")
                need(3)
                sig, pub = stack[-3], stack[-1]
                n = num(stack[-2])
                ok = _checksig(sig, pub, script, codehash_pc, flags, checker, sigversion, execdata)
                del stack[-3:]
                stack.append(num_encode(n + (1 if ok else 0)))
            elif op in (OP_CHECKMULTISIG, OP_CHECKMULTISIGVERIFY):
                if sigversion == TAPSCRIPT:
                    raise ScriptFail("TAPSCRIPT_CHECKMULTISIG")
                need(1)
                nkeys = num(stack[-1])
                if nkeys < 0 or nkeys > MAX_MULTISIG_KEYS:
                    raise ScriptFail("PUBKEY_COUNT")
                nops += nkeys
                if nops > MAX_OPS:
                    raise ScriptFail("OP_COUNT")
                need(1 + nkeys + 1)
                nsigs = num(stack[-(nkeys + 2)])
                if nsigs < 0 or nsigs > nkeys:
                    raise ScriptFail("SIG_COUNT")
                need(1 + nkeys + 1 + nsigs)
                # top-of-stack first: keys[0] is the key pushed last
                keys = [stack[-(2 + k)] for k in range(nkeys)]
                sigs = [stack[-(nkeys + 3 + k)] for k in range(nsigs)]
                code = script[codehash_pc:]
                if sigversion == BASE:
                    for sg in sigs:
                        code, found = find_and_delete(code, push_data(sg))
                        if found and "CONST_SCRIPTCODE" in flags:
                            raise ScriptFail("SIG_FINDANDDELETE")
                ok = True
                ki = si = 0
                while ok and si < nsigs:
                    sg, pk = sigs[si], keys[ki]
                    check_signature_encoding(sg, flags)
                    check_pubkey_encoding(pk, flags, sigversion)
                    if checker.check_ecdsa(sg, pk, code, sigversion):
                        si += 1
                    ki += 1
                    if nsigs - si > nkeys - ki:       # more signatures left than keys
                        ok = False
                if not ok and "NULLFAIL" in flags and any(len(sg) for sg in sigs):
                    # the C++ interpreter has already popped the items above the first non-empty signature; only the verdict matters
                    raise ScriptFail("SIG_NULLFAIL")
                del stack[-(1 + nkeys + 1 + nsigs):]
                need(1)
                if "NULLDUMMY" in flags and len(stack[-1]):
                    raise ScriptFail("SIG_NULLDUMMY")
                stack.pop()
                stack.append(b"\x01" if ok else b"")
                if op == OP_CHECKMULTISIGVERIFY:
                    if not ok:
                        raise ScriptFail("CHECKMULTISIGVERIFY")
                    stack.pop()
            else:
                # OP_RESERVED, OP_VER, OP_VERIF, OP_VERNOTIF, OP_RESERVED1/2, everything above OP_CHECKSIGADD
                raise ScriptFail("BAD_OPCODE")
        if len(stack) + len(alt) > MAX_STACK:
            raise ScriptFail("STACK_SIZE")
    if cond:
        raise ScriptFail("UNBALANCED_CONDITIONAL")


def _execute_witness_script(stack, script, flags, sigversion, checker, execdata):
    if sigversion == TAPSCRIPT:
        # OP_SUCCESSx anywhere before an undecodable byte makes the script succeed unconditionally
        for op, _data, _pc in iter_ops(script):
            if is_op_success(op):
                if "DISCOURAGE_OP_SUCCESS" in flags:
                    raise ScriptFail("DISCOURAGE_OP_SUCCESS")
                return
        if len(stack) > MAX_STACK:
            raise ScriptFail("STACK_SIZE")
    for e in stack:
        if len(e) > MAX_ELEMENT_SIZE:
            raise ScriptFail("PUSH_SIZE")
    eval_script(stack, script, flags, checker, sigversion, execdata)
    if len(stack) != 1:
        raise ScriptFail("CLEANSTACK")
    if not cast_bool(stack[-1]):
        raise ScriptFail("EVAL_FALSE")


def taproot_commitment_ok(control, program, tapleaf_hash):
    k = tapleaf_hash
    for i in range(33, len(control), 32):
        node = control[i:i + 32]
        k = tagged_hash("TapBranch", k + node if k < node else node + k)
    p = control[1:33]
    P = secp256k1.GE.from_bytes_xonly(p)
    if P is None:
        return False
    t = int.from_bytes(tagged_hash("TapTweak", p + k), "big")
    if t >= ORDER:
        return False
    Q = P + t * secp256k1.G
    if Q.infinity:
        return False
    return Q.to_bytes_xonly() == program and (int(Q.y) & 1) == (control[0] & 1)


def _verify_witness_program(witness, version, program, flags, checker, is_p2sh_wrapped):
    stack = list(witness)
    execdata = ExecData()
    if version == 0:
        if len(program) == 32:
            if not stack:
                raise ScriptFail("WITNESS_PROGRAM_WITNESS_EMPTY")
            script = stack.pop()
            if sha256(script) != program:
                raise ScriptFail("WITNESS_PROGRAM_MISMATCH")
            return _execute_witness_script(stack, script, flags, WITNESS_V0, checker, execdata)
        if len(program) == 20:
            if len(stack) != 2:
                raise ScriptFail("WITNESS_PROGRAM_MISMATCH")
            script = bytes([OP_DUP, OP_HASH160, 20]) + program + bytes([OP_EQUALVERIFY, OP_CHECKSIG])
            return _execute_witness_script(stack, script, flags, WITNESS_V0, checker, execdata)
        raise ScriptFail("WITNESS_PROGRAM_WRONG_LENGTH")
    if version == 1 and len(program) == 32 and not is_p2sh_wrapped:
        if "TAPROOT" not in flags:
            return
        if not stack:
            raise ScriptFail("WITNESS_PROGRAM_WITNESS_EMPTY")
        if len(stack) >= 2 and stack[-1] and stack[-1][0] == 0x50:
            execdata.annex = stack.pop()
        if len(stack) == 1:
            checker.check_schnorr(stack[0], program, TAPROOT, execdata)
            return
        control = stack.pop()
        script = stack.pop()
        if len(control) < 33 or len(control) > 33 + 32 * 128 or (len(control) - 33) % 32:
            raise ScriptFail("TAPROOT_WRONG_CONTROL_SIZE")
        leaf_ver = control[0] & 0xfe
        leaf_hash = tagged_hash("TapLeaf", bytes([leaf_ver]) + compact_size(len(script)) + script)
        if not taproot_commitment_ok(control, program, leaf_hash):
            raise ScriptFail("WITNESS_PROGRAM_MISMATCH")
        execdata.tapleaf_script, execdata.leaf_ver = script, leaf_ver
        if leaf_ver == 0xc0:
            size = len(compact_size(len(witness))) + sum(len(compact_size(len(e))) + len(e) for e in witness)
            execdata.weight_left = size + VALIDATION_WEIGHT_OFFSET
            return _execute_witness_script(stack, script, flags, TAPSCRIPT, checker, execdata)
        if "DISCOURAGE_UPGRADABLE_TAPROOT_VERSION" in flags:
            raise ScriptFail("DISCOURAGE_UPGRADABLE_TAPROOT_VERSION")
        return
    if not is_p2sh_wrapped and version == 1 and program == b"\x4e\x73":
        return              # pay-to-anchor
    if "DISCOURAGE_UPGRADABLE_WITNESS_PROGRAM" in flags:
        raise ScriptFail("DISCOURAGE_UPGRADABLE_WITNESS_PROGRAM")


def verify_script(script_sig, script_pubkey, witness, flags, checker):
    """Raises ScriptFail unless the spend is valid. witness: list of bytes."""
    flags = frozenset(flags)
    if "WITNESS" in flags and "P2SH" not in flags:
        raise ValueError("WITNESS requires P2SH")
    if "CLEANSTACK" in flags and not ("P2SH" in flags and "WITNESS" in flags):
        raise ValueError("CLEANSTACK requires P2SH and WITNESS")
    if "SIGPUSHONLY" in flags and not is_push_only(script_sig):
        raise ScriptFail("SIG_PUSHONLY")
    stack = []
    eval_script(stack, script_sig, flags, checker, BASE)
    saved = list(stack)
    eval_script(stack, script_pubkey, flags, checker, BASE)
    if not stack or not cast_bool(stack[-1]):
        raise ScriptFail("EVAL_FALSE")
    had_witness = False
    if "WITNESS" in flags:
        wp = witness_program(script_pubkey)
        if wp is not None:
            had_witness = True
            if script_sig:
                raise ScriptFail("WITNESS_MALLEATED")
            _verify_witness_program(witness, wp[0], wp[1], flags, checker, False)
            stack = stack[:1]
    if "P2SH" in flags and is_p2sh(script_pubkey):
        if not is_push_only(script_sig):
            raise ScriptFail("SIG_PUSHONLY")
        stack = saved
        redeem = stack.pop()
        eval_script(stack, redeem, flags, checker, BASE)
        if not stack or not cast_bool(stack[-1]):
            raise ScriptFail("EVAL_FALSE")
        if "WITNESS" in flags:
            wp = witness_program(redeem)
            if wp is not None:
                had_witness = True
                if script_sig != push_data(redeem):
                    raise ScriptFail("WITNESS_MALLEATED_P2SH")
                _verify_witness_program(witness, wp[0], wp[1], flags, checker, True)
                stack = stack[:1]
    if "CLEANSTACK" in flags and len(stack) != 1:
        raise ScriptFail("CLEANSTACK")
    if "WITNESS" in flags and not had_witness and witness:
        raise ScriptFail("WITNESS_UNEXPECTED")


def verify(script_sig, script_pubkey, witness, flags, checker):
    """-> (ok, error code or 'OK')"""
    try:
        verify_script(script_sig, script_pubkey, witness, flags, checker)
    except ScriptFail as e:
        return False, e.code
    return True, "OK"


def evaluate(script, stack, flags, checker, sigversion):
    """Bare evaluation. -> (ok, code, final stack)"""
    st = list(stack)
    try:
        eval_script(st, script, flags, checker, sigversion)
    except ScriptFail as e:
        return False, e.code, st
    return True, "OK", st


# ----------------------------------------------------------------------------------------------------------------
# self-test against the repository's vectors

_NAME_TO_OP = None


def _opcode_names():
    global _NAME_TO_OP
    if _NAME_TO_OP is None:
        m = {}
        for op, name in tf_script.OPCODE_NAMES.items():
            v = int(op)
            if v < OP_NOP and v != OP_RESERVED:
                continue
            if v > OP_NOP10:
                continue
            m[name] = v
            m[name[3:]] = v
        m["OP_NOP2"] = m["NOP2"] = OP_CLTV
        m["OP_NOP3"] = m["NOP3"] = OP_CSV
        _NAME_TO_OP = m
    return _NAME_TO_OP


def push_int(n):
    if n == -1 or 1 <= n <= 16:
        return bytes([n + OP_1 - 1])
    if n == 0:
        return b"\x00"
    return push_data(num_encode(n))


def parse_asm(text):
    """The script notation of the JSON test vectors (numbers, 0xHEX raw bytes, 'text' pushes, opcode names)."""
    names = _opcode_names()
    out = b""
    for w in text.replace("\t", " ").replace("\n", " ").split(" "):
        if not w:
            continue
        if w.isdigit() or (w[0] == "-" and w[1:].isdigit()):
            n = int(w)
            assert -0xffffffff <= n <= 0xffffffff, w
            out += push_int(n)
        elif w.startswith("0x") and len(w) > 2:
            out += bytes.fromhex(w[2:])
        elif len(w) >= 2 and w[0] == "'" and w[-1] == "'":
            out += push_data(w[1:-1].encode())
        elif w in names:
            out += bytes([names[w]])
        else:
            raise ValueError("script word " + repr(w))
    return out


_ERR_ALIASES = {
    # vector name -> codes of this interpreter that denote the same class
    "SCRIPTNUM": {"SCRIPTNUM_OVERFLOW", "SCRIPTNUM_NONMINIMAL"},
    "UNKNOWN_ERROR": {"SCRIPTNUM_OVERFLOW", "SCRIPTNUM_NONMINIMAL"},
    "NULLFAIL": {"SIG_NULLFAIL"},
    "MINIMALDATA": {"MINIMALDATA", "SCRIPTNUM_NONMINIMAL"},
}


def _credit_and_spend(script_sig, spk, witness, amount):
    credit = tf_msg.CTransaction()
    credit.version = 1
    credit.nLockTime = 0
    credit.vin = [tf_msg.CTxIn(tf_msg.COutPoint(0, 0xffffffff), b"\x00\x00", SEQ_FINAL)]
    credit.vout = [tf_msg.CTxOut(amount, spk)]
    spend = tf_msg.CTransaction()
    spend.version = 1
    spend.nLockTime = 0
    spend.vin = [tf_msg.CTxIn(tf_msg.COutPoint(credit.txid_int, 0), script_sig, SEQ_FINAL)]
    spend.vout = [tf_msg.CTxOut(amount, b"")]
    spend.wit.vtxinwit = [tf_msg.CTxInWitness()]
    spend.wit.vtxinwit[0].scriptWitness.stack = list(witness)
    return credit, spend


def _selftest_script_tests(report):
    vecs = json.load(open(os.path.join(REPO, "src/test/data/script_tests.json")))
    agree = total = err_agree = 0
    derived = [0, 0]
    G = secp256k1.G
    for v in vecs:
        if len(v) < 4:
            continue
        pos = 0
        witness, amount = [], 0
        tap_script = None
        if isinstance(v[0], list):
            items = v[0]
            for el in items[:-1]:
                if el.startswith("#SCRIPT#"):
                    tap_script = parse_asm(el[len("#SCRIPT#"):])
                    witness.append(tap_script)
                elif el == "#CONTROLBLOCK#":
                    leaf = tagged_hash("TapLeaf", b"\xc0" + compact_size(len(tap_script)) + tap_script)
                    p = G.to_bytes_xonly()
                    t = int.from_bytes(tagged_hash("TapTweak", p + leaf), "big")
                    Q = G + t * G
                    witness.append(bytes([0xc0 | (int(Q.y) & 1)]) + p)
                    tap_output = Q.to_bytes_xonly()
                else:
                    witness.append(bytes.fromhex(el))
            amount = int(Decimal(str(items[-1])) * 100000000)
            pos = 1
        sig_s, spk_s, flags_s, want = v[pos], v[pos + 1], v[pos + 2], v[pos + 3]
        script_sig = parse_asm(sig_s)
        spk = b"\x51\x20" + tap_output if spk_s == "0x51 0x20 #TAPROOTOUTPUT#" else parse_asm(spk_s)
        flags = _fill_flags(f for f in flags_s.split(",") if f and f != "NONE")     # as the unit test does
        credit, spend = _credit_and_spend(script_sig, spk, witness, amount)
        checker = TxChecker(spend, 0, [credit.vout[0]])
        ok, code = verify(script_sig, spk, witness, flags, checker)
        total += 1
        # derived vectors (the unit test asserts them with random flag masks): a valid spend stays valid when a flag is dropped,
        # an invalid one stays invalid when a flag is added
        for f in ALL_FLAGS:
            alt = _trim_flags(flags - {f}) if want == "OK" else _fill_flags(flags | {f})
            if alt == flags:
                continue
            ok2, code2 = verify(script_sig, spk, witness, alt, checker)
            derived[1] += 1
            if ok2 == ok:
                derived[0] += 1
            else:
                report.append(f"  DISAGREE script_tests (derived, flag {f}) {v}: refscript says {code2}")
        if ok == (want == "OK"):
            agree += 1
            if ok or code == want or code in _ERR_ALIASES.get(want, ()) or "SIG_" + want == code:
                err_agree += 1
            else:
                report.append(f"  (error class differs: vector {want}, refscript {code}: {v[pos:pos+3]})")
        else:
            report.append(f"  DISAGREE script_tests {v}: refscript says {code}")
    return agree, total, err_agree, derived


def _parse_prevouts(inputs):
    m = {}
    for inp in inputs:
        h = int(inp[0], 16)
        n = inp[1] & 0xffffffff
        m[(h, n)] = (parse_asm(inp[2]), inp[3] if len(inp) > 3 else 0)
    return m


def _basic_tx_check(tx):
    """Context-free transaction checks that tx_invalid.json also exercises (BIP-independent consensus basics)."""
    if not tx.vin or not tx.vout:
        return False
    if len(tx.serialize_without_witness()) * 4 > 4000000:
        return False
    total = 0
    for o in tx.vout:
        if o.nValue < 0 or o.nValue > 21000000 * 100000000:
            return False
        total += o.nValue
        if total > 21000000 * 100000000:
            return False
    outs = [(i.prevout.hash, i.prevout.n) for i in tx.vin]
    if len(set(outs)) != len(outs):
        return False
    coinbase = len(tx.vin) == 1 and tx.vin[0].prevout.hash == 0 and tx.vin[0].prevout.n == 0xffffffff
    if coinbase:
        if not (2 <= len(tx.vin[0].scriptSig) <= 100):
            return False
    else:
        for i in tx.vin:
            if i.prevout.hash == 0 and i.prevout.n == 0xffffffff:
                return False
    return True


def _fill_flags(flags):
    f = set(flags)
    if "CLEANSTACK" in f:
        f |= {"P2SH", "WITNESS"}
    if "WITNESS" in f:
        f.add("P2SH")
    return f


def _trim_flags(flags):
    f = set(flags)
    if "P2SH" not in f:
        f -= {"WITNESS", "CLEANSTACK"}
    if "WITNESS" not in f:
        f -= {"CLEANSTACK"}
    return f


def _tx_scripts_ok(tx, prevouts, flags):
    spent = []
    for i in tx.vin:
        spk, amt = prevouts[(i.prevout.hash, i.prevout.n)]
        spent.append(tf_msg.CTxOut(amt, spk))
    for idx, i in enumerate(tx.vin):
        wit = tx.wit.vtxinwit[idx].scriptWitness.stack if idx < len(tx.wit.vtxinwit) else []
        ok, code = verify(i.scriptSig, spent[idx].scriptPubKey, list(wit), flags, TxChecker(tx, idx, spent))
        if not ok:
            return False, f"input {idx}: {code}"
    return True, "OK"


_TX_TEST_FLAGS = set(ALL_FLAGS)


def _selftest_tx_tests(report):
    """tx_valid.json / tx_invalid.json with the same derived checks as the unit test: a valid transaction stays valid when any one
    flag is removed and becomes invalid when any one of its excluded flags is enforced; an invalid transaction stays invalid when any
    one flag is added and becomes valid when any one of its flags is dropped."""
    res = {}
    for name in ("tx_valid", "tx_invalid"):
        vecs = json.load(open(os.path.join(REPO, f"src/test/data/{name}.json")))
        agree = total = 0

        def expect(tx, prevouts, flags, want_valid, what, v):
            nonlocal agree, total
            total += 1
            good, why = _tx_scripts_ok(tx, prevouts, flags)
            if good == want_valid:
                agree += 1
            else:
                report.append(f"  DISAGREE {name} ({what}) {v[1][:70]}... listed={v[2]} flags={sorted(flags)}: refscript {why}")

        for v in vecs:
            if not (len(v) == 3 and isinstance(v[0], list)):
                continue
            prevouts = _parse_prevouts(v[0])
            tx = tf_msg.tx_from_hex(v[1])
            listed = set(f for f in v[2].split(",") if f and f != "NONE")
            if not _basic_tx_check(tx):
                total += 1
                if v[2] == "BADTX" and name == "tx_invalid":
                    agree += 1
                else:
                    report.append(f"  DISAGREE {name}: basic transaction checks fail for {v[1][:70]}... ({v[2]})")
                continue
            if v[2] == "BADTX":
                total += 1
                report.append(f"  DISAGREE {name}: BADTX vector passes the basic transaction checks {v[1][:70]}...")
                continue
            if name == "tx_valid":
                expect(tx, prevouts, _TX_TEST_FLAGS - listed, True, "all but the excluded flags", v)
                for f in ALL_FLAGS:
                    expect(tx, prevouts, _trim_flags(_TX_TEST_FLAGS - listed - {f}), True, "minus " + f, v)
                seen = set()
                for f in ALL_FLAGS:
                    ex1 = frozenset(_trim_flags(listed - {f}))
                    if ex1 != frozenset(listed) and ex1 not in seen:
                        seen.add(ex1)
                        expect(tx, prevouts, _TX_TEST_FLAGS - ex1, False, "excluded flags not maximal: " + f, v)
            else:
                expect(tx, prevouts, set(listed), False, "listed flags", v)
                for f in ALL_FLAGS:
                    expect(tx, prevouts, _fill_flags(listed | {f}), False, "plus " + f, v)
                seen = set()
                for f in ALL_FLAGS:
                    ex1 = frozenset(_trim_flags(listed - {f}))
                    if ex1 != frozenset(listed) and ex1 not in seen:
                        seen.add(ex1)
                        expect(tx, prevouts, set(ex1), True, "flags not minimal: " + f, v)
        res[name] = (agree, total)
    return res


def _selftest_bip341(report):
    d = json.load(open(os.path.join(REPO, "src/test/data/bip341_wallet_vectors.json")))
    agree = total = 0
    # scriptPubKey vectors: the commitment of every listed control block verifies against the output key
    for t in d["scriptPubKey"]:
        spk = bytes.fromhex(t["expected"]["scriptPubKey"])
        leaves = t["given"]["scriptTree"]
        flat = []

        def walk(n):
            if isinstance(n, list):
                for x in n:
                    walk(x)
            elif n is not None:
                flat.append(n)
        walk(leaves)
        for leaf, ctrl in zip(flat, t["expected"].get("scriptPathControlBlocks", [])):
            script = bytes.fromhex(leaf["script"])
            control = bytes.fromhex(ctrl)
            lh = tagged_hash("TapLeaf", bytes([leaf["leafVersion"]]) + compact_size(len(script)) + script)
            total += 1
            if taproot_commitment_ok(control, spk[2:], lh) and (control[0] & 0xfe) == leaf["leafVersion"]:
                agree += 1
            else:
                report.append(f"  DISAGREE bip341 control block {ctrl}")
    # key path spending: the expected witnesses are valid spends
    kp = d["keyPathSpending"][0]
    tx = tf_msg.tx_from_hex(kp["given"]["rawUnsignedTx"])
    spent = [tf_msg.CTxOut(u["amountSats"], bytes.fromhex(u["scriptPubKey"])) for u in kp["given"]["utxosSpent"]]
    tx.wit.vtxinwit = [tf_msg.CTxInWitness() for _ in tx.vin]
    flags = ["P2SH", "WITNESS", "TAPROOT"]
    for t in kp["inputSpending"]:
        idx = t["given"]["txinIndex"]
        wit = [bytes.fromhex(x) for x in t["expected"]["witness"]]
        total += 1
        ok, code = verify(b"", spent[idx].scriptPubKey, wit, flags, TxChecker(tx, idx, spent))
        # and a corrupted signature is refused
        bad = [bytes([wit[0][0] ^ 1]) + wit[0][1:]] + wit[1:]
        ok2, _ = verify(b"", spent[idx].scriptPubKey, bad, flags, TxChecker(tx, idx, spent))
        if ok and not ok2:
            agree += 1
        else:
            report.append(f"  DISAGREE bip341 key path input {idx}: {code} / corrupted accepted={ok2}")
    return agree, total


def _selftest_bip342_budget(report):
    """Cases taken from the BIP342 text (not in the repository's vectors): a signature opcode with a non-empty signature counts
    towards the validation weight budget BEFORE the public key type is looked at -- also for unknown key types."""
    G = secp256k1.G
    p = G.to_bytes_xonly()
    agree = total = 0
    for nsig, flags, want in ((1, ["P2SH", "WITNESS", "TAPROOT"], True), (2, ["P2SH", "WITNESS", "TAPROOT"], False), (3, ["P2SH", "WITNESS", "TAPROOT"], False),
                              (1, ["P2SH", "WITNESS", "TAPROOT", "DISCOURAGE_UPGRADABLE_PUBKEYTYPE"], False)):
        leaf = bytes([OP_DUP, 1, 0xaa, OP_CHECKSIGVERIFY]) * nsig + bytes([OP_DROP, OP_1])
        lh = tagged_hash("TapLeaf", b"\xc0" + compact_size(len(leaf)) + leaf)
        tw = int.from_bytes(tagged_hash("TapTweak", p + lh), "big")
        Q = G + tw * G
        wit = [b"\x01", leaf, bytes([0xc0 | (int(Q.y) & 1)]) + p]
        # budget = 50 + witness size (1 + 2 + (1 + 4 * nsig + 2) + 34 = 40 + 4 * nsig): 94/98/102 for 1/2/3 opcodes costing 50 each: only one fits
        ok, code = verify(b"", b"\x51\x20" + Q.to_bytes_xonly(), wit, flags, NoTxChecker())
        total += 1
        if ok == want:
            agree += 1
        else:
            report.append(f"  DISAGREE bip342 budget case nsig={nsig} flags={flags}: refscript {code}")
    return agree, total


def selftest(verbose=True):
    report = []
    a, t, e, dv = _selftest_script_tests(report)
    txr = _selftest_tx_tests(report)
    ba, bt = _selftest_bip341(report)
    wa, wt = _selftest_bip342_budget(report)
    ok = a == t and dv[0] == dv[1] and all(x == y for x, y in txr.values()) and ba == bt and wa == wt
    lines = [f"refscript selftest: script_tests.json {a}/{t} verdicts agree ({e}/{t} also agree on the error class); "
             f"single-flag variations {dv[0]}/{dv[1]}",
             f"refscript selftest: tx_valid.json {txr['tx_valid'][0]}/{txr['tx_valid'][1]}, tx_invalid.json {txr['tx_invalid'][0]}/{txr['tx_invalid'][1]}",
             f"refscript selftest: bip341_wallet_vectors.json {ba}/{bt}; BIP342 budget cases with unknown key types (from the BIP text) {wa}/{wt}",
             "refscript selftest: " + ("PASS" if ok else "FAIL")]
    if verbose:
        for r in report:
            print(r)
        for ln in lines:
            print(ln)
    return ok, lines


if __name__ == "__main__":
    if "--selftest" in sys.argv:
        good, _ = selftest()
        sys.exit(0 if good else 1)
    print(__doc__)
