// C33 — Headers from an unproven peer are stored only after their work is proven.
// Model of the release discipline of HeadersSyncState (own bookkeeping in cpp_int; shares no code with headerssync.cpp / pow.cpp):
//   c33.presync-release   : nothing is released while the object is in PRESYNC, and whenever something is released the chain fed in the first pass
//                           had reached the minimum work (own sum of floor(2^256/(target+1)))
//   c33.memory-bound      : after a successful first-pass batch the number of commitment heights covered is <= 6*(now - MTP(start) + 2h)/period
//   c33.release-continuous: released headers form one chain from the sync start and are exactly the second-pass headers accepted at those heights
//   c33.release-buffer    : when a header is released, >= redownload_buffer_size later second-pass headers had been accepted, unless the
//                           second-pass chain itself (own work sum) had reached the minimum work
//   c33.release-permitted : each released header's nBits passes an own permitted-transition reference w.r.t. its predecessor, and its hash meets its target
//   c33.commitment-check  : (statistical, false-alarm probability <= 2^-40 per case) if the peer serves a different header at EVERY height >= s in the
//                           second pass and buffer/period >= 40, no header at height >= s is released unless the second-pass work reached the minimum
#include <engine/verif.h>

#include <arith_uint256.h>
#include <chain.h>
#include <chainparams.h>
#include <common/args.h>
#include <consensus/params.h>
#include <headerssync.h>
#include <kernel/chainparams.h>
#include <primitives/block.h>
#include <random.h>
#include <test/util/random.h>
#include <uint256.h>
#include <util/chaintype.h>
#include <util/time.h>

#include <boost/multiprecision/cpp_int.hpp>

#include <memory>
#include <string>
#include <vector>

namespace {
using boost::multiprecision::cpp_int;

cpp_int from_u256(const uint256& u) { cpp_int v = 0; for (int i = 31; i >= 0; --i) { v <<= 8; v += u.data()[i]; } return v; }
uint256 to_u256(cpp_int v) { uint256 u; for (int i = 0; i < 32; ++i) { u.data()[i] = static_cast<unsigned char>(cpp_int(v & 0xff).convert_to<unsigned>()); v >>= 8; } return u; }

cpp_int ref_target(uint32_t bits) // compact decode for positive, non-overflowing values (all this target uses)
{
    unsigned e = bits >> 24;
    cpp_int m = bits & 0x007fffffu;
    return e >= 3 ? cpp_int(m << (8 * (e - 3))) : cpp_int(m >> (8 * (3 - e)));
}
uint32_t ref_compact(const cpp_int& v)
{
    for (unsigned s = 0; s < 256; ++s) {
        cpp_int m = s >= 3 ? cpp_int(v >> (8 * (s - 3))) : cpp_int(v << (8 * (3 - s)));
        if (m <= 0x7fffff) return (s << 24) | static_cast<uint32_t>(m);
    }
    return 0;
}
cpp_int ref_proof(uint32_t bits) { return (cpp_int(1) << 256) / (ref_target(bits) + 1); }

// synthetic consensus parameters: cheap proof of work, retarget every 4 blocks, no min-difficulty exception (so the transition rule bites),
// powLimit = 2^251-1 so that old_target * 4T never overflows 256 bits
constexpr int64_t T_SPAN = 4, T_SPACING = 1, INTERVAL = 4;
const cpp_int LIMIT = (cpp_int(1) << 251) - 1;
std::unique_ptr<Consensus::Params> g_cp;

bool ref_permitted(int64_t height, uint32_t old_bits, uint32_t new_bits)
{
    if (height % INTERVAL != 0) return old_bits == new_bits;
    cpp_int old = ref_target(old_bits);
    cpp_int hi = old * (T_SPAN * 4) / T_SPAN; if (hi > LIMIT) hi = LIMIT;
    cpp_int lo = old * (T_SPAN / 4) / T_SPAN; if (lo > LIMIT) lo = LIMIT;
    hi = ref_target(ref_compact(hi)); lo = ref_target(ref_compact(lo));
    cpp_int obs = ref_target(new_bits);
    return lo <= obs && obs <= hi;
}

void init_c33()
{
    if (g_cp) return;
    ArgsManager args;
    auto reg = CreateChainParams(args, ChainType::REGTEST);
    g_cp = std::make_unique<Consensus::Params>(reg->GetConsensus());
    g_cp->powLimit = to_u256(LIMIT);
    g_cp->nPowTargetTimespan = T_SPAN;
    g_cp->nPowTargetSpacing = T_SPACING;
    g_cp->fPowAllowMinDifficultyBlocks = false;
    g_cp->fPowNoRetargeting = false;
    g_cp->enforce_BIP94 = false;
}

class ObservedSync : public HeadersSyncState
{
public:
    using HeadersSyncState::HeadersSyncState;
    size_t offset() const { return m_commit_offset; }
};

struct Hdr { CBlockHeader h; uint256 hash; int64_t height; };

/** callers only hand PoW-checked headers to HeadersSyncState: (re)grind the nonce */
void grind(CBlockHeader& h)
{
    arith_uint256 target; target.SetCompact(h.nBits);
    h.nNonce = 0;
    while (UintToArith256(h.GetHash()) > target) ++h.nNonce;
}

/** extend `chain` (whose last element, or `start`, is the parent) by n PoW-valid headers; `salt` makes the headers of two chains differ */
void extend(std::vector<Hdr>& chain, const Hdr& start, size_t n, uint64_t salt, verif::Src& s, bool vary_difficulty)
{
    for (size_t i = 0; i < n; ++i) {
        const Hdr& prev = chain.empty() ? start : chain.back();
        Hdr x;
        x.height = prev.height + 1;
        x.h.nVersion = 0x20000000;
        x.h.hashPrevBlock = prev.hash;
        x.h.nTime = prev.h.nTime + 1;
        uint64_t tag = salt * 0x9e3779b97f4a7c15ULL + uint64_t(x.height);
        memcpy(x.h.hashMerkleRoot.begin(), &tag, 8);
        memcpy(x.h.hashMerkleRoot.begin() + 8, &salt, 8);
        uint32_t bits = prev.h.nBits;
        if (x.height % INTERVAL == 0 && vary_difficulty) {
            // required-style retarget with a generated timespan in [T/4, 4T] = [1, 16]; keep the target within [limit/8, limit] (cheap grinding)
            int64_t ts = s.chance(96) ? s.pick<int64_t>({1, 2, 4, 8, 16, 3, 5}) : 4;
            cpp_int t = ref_target(bits) * ts / T_SPAN;
            if (t > LIMIT) t = LIMIT;
            if (t < LIMIT / 8) t = ref_target(bits);
            bits = ref_compact(t);
        }
        x.h.nBits = bits;
        grind(x.h);
        x.hash = x.h.GetHash();
        chain.push_back(x);
    }
}
} // namespace

VERIF_TARGET(c33_headerssync, init_c33, 48, 400,
             "synthetic PoW-valid header chains (target ~2^251, retarget every 4 blocks, no min-difficulty exception) of 0..600 headers; HeadersSyncParams "
             "period 1..8 (offset drawn by the object), buffer 8..400; minimum work placed at a generated height (or beyond the chain: low-work peer); clock "
             "between MTP(start)-2h and +1 day (so the first-pass length bound 6*(elapsed+2h) is sometimes a few hundred headers). Peer: honest; stops early "
             "(partial batch); non-connecting batch; impermissible nBits step (either pass); second pass switching to a different chain at height s (every "
             "header differs from there on), longer/shorter than the first. Checked after every batch against an own model: release only after proven work, "
             "continuous chain equal to the second-pass headers, >= buffer followers (or second-pass work >= minimum), permitted nBits + PoW, memory bound, "
             "and the 2^-40 commitment clause. non-trivial = the sync reached REDOWNLOAD and (released >= 1 header or faced an adversarial second pass); "
             "distinct = (period, buffer bucket, behaviour pair, outcome, release pattern)")
{
    SeedRandomStateForTest(SeedRand::ZEROS);
    const int64_t T0 = 1700000000;
    // --- parameters
    HeadersSyncParams hp;
    hp.commitment_period = s.range<size_t>(1, 8);
    { unsigned bm = s.range<unsigned>(0, 3); hp.redownload_buffer_size = bm <= 1 ? hp.commitment_period * s.range<size_t>(40, 50) : bm == 2 ? s.range<size_t>(8, 40) : s.range<size_t>(8, 400); }
    if (hp.redownload_buffer_size > 400) hp.redownload_buffer_size = 400;
    unsigned rng_shift = s.range<unsigned>(0, 7);
    for (unsigned k = 0; k < rng_shift; ++k) (void)FastRandomContext().rand64(); // moves the deterministic global RNG: varies commit offset and hasher salt
    int64_t start_height = s.chance(128) ? 0 : s.range<int64_t>(1, 100000);
    cpp_int start_work = s.chance(128) ? cpp_int(0) : cpp_int(s.range<uint64_t>(1, uint64_t{1} << 40));
    size_t len1 = s.chance(170) ? s.range<size_t>(0, 160) : s.range<size_t>(160, 600); // first-pass chain length
    bool vary = s.chance(160);
    unsigned p1_behaviour = s.range<unsigned>(0, 7); // 0..4 honest, 5 non-connecting batch, 6 impermissible nBits, 7 stops with a partial batch
    unsigned p2_behaviour = s.range<unsigned>(0, 9); // 0..2 honest, 3..6 switch chain at s, 7 non-connecting, 8 impermissible nBits, 9 partial batch early
    // clock: bound on the first-pass length = 6 * (now - MTP(start) + 7200)
    int64_t elapsed = s.chance(90) ? -7200 + s.range<int64_t>(0, 120) : s.pick<int64_t>({0, 1, 600, 86400});
    SetMockTime(T0 + elapsed);

    Hdr start;
    start.h.nVersion = 1; start.h.nTime = uint32_t(T0); start.h.nBits = ref_compact(LIMIT); start.h.nNonce = uint32_t(start_height);
    start.hash = start.h.GetHash(); start.height = start_height;
    CBlockIndex start_index(start.h);
    start_index.nHeight = int(start_height);
    start_index.nChainWork = UintToArith256(to_u256(start_work));
    start_index.phashBlock = &start.hash;

    std::vector<Hdr> A;
    extend(A, start, len1, /*salt=*/1, s, vary);
    // minimum work: reached after `k_min` headers of A (k_min may exceed len1: never reached)
    size_t k_min = s.chance(110) ? len1 - std::min<size_t>(len1, s.range<size_t>(0, 3)) : s.chance(200) ? s.range<size_t>(0, len1 + 2) : len1 + s.range<size_t>(3, 50);
    cpp_int min_work = start_work;
    for (size_t i = 0; i < k_min; ++i) min_work += i < A.size() ? ref_proof(A[i].h.nBits) : ref_proof(A.empty() ? start.h.nBits : A.back().h.nBits);
    if (s.chance(64) && min_work > 0) min_work -= 1; // just below a boundary

    ObservedSync sync(/*id=*/0, *g_cp, hp, start_index, UintToArith256(to_u256(min_work)));
    const size_t offset = sync.offset();
    const int64_t bound = 6 * (elapsed + 7200) / int64_t(hp.commitment_period);

    // --- first pass
    std::string outcome = "presync-open";
    cpp_int presync_work = start_work;
    int64_t presync_height = start_height;
    size_t fed = 0;
    bool p1_attack_done = false;
    size_t p1_attack_at = s.index(len1 + 1);
    uint64_t released_total = 0;
    auto commit_count = [&](int64_t from, int64_t to) { int64_t c = 0; for (int64_t h = from + 1; h <= to; ++h) if (size_t(h % int64_t(hp.commitment_period)) == offset) ++c; return c; };
    while (sync.GetState() == HeadersSyncState::State::PRESYNC) {
        size_t left = A.size() - fed;
        if (left == 0) { outcome = "presync-chain-exhausted"; break; }
        size_t n = std::min<size_t>(left, s.chance(128) ? s.range<size_t>(1, 12) : s.range<size_t>(1, 120));
        std::vector<CBlockHeader> batch;
        for (size_t i = 0; i < n; ++i) batch.push_back(A[fed + i].h);
        bool full = true;
        bool expect_fail = false;
        if (!p1_attack_done && fed + n > p1_attack_at) {
            p1_attack_done = true;
            if (p1_behaviour == 5) { batch[0].hashPrevBlock = uint256::ONE; grind(batch[0]); expect_fail = true; st.cls("p1:non-connecting"); }
            else if (p1_behaviour == 6) {
                size_t j = p1_attack_at - fed;
                int64_t h = A[fed + j].height;
                uint32_t prevbits = (fed + j) ? A[fed + j - 1].h.nBits : start.h.nBits;
                // clearly impermissible: a change off the retarget grid, or a 16-fold jump on it
                uint32_t bad = (h % INTERVAL != 0) ? ref_compact(ref_target(prevbits) / 2) : ref_compact(ref_target(prevbits) / 64);
                batch[j].nBits = bad;
                grind(batch[j]);
                expect_fail = !ref_permitted(h, prevbits, bad);
                batch.resize(j + 1); n = j + 1; // later headers would not connect anyway
                st.cls("p1:impermissible-bits");
            } else if (p1_behaviour == 7) { full = false; st.cls("p1:partial-batch"); }
        }
        auto res = sync.ProcessNextHeaders(batch, full);
        st.steps++;
        VCHECK(res.pow_validated_headers.empty(), "c33.presync-release", "headers released by a first-pass batch:", res.pow_validated_headers.size());
        if (expect_fail && res.success) st.cls("p1:attack-not-refused"); // not part of the statement (first-pass acceptance releases nothing)
        if (!res.success) { outcome = "presync-failed"; break; }
        for (size_t i = 0; i < n; ++i) presync_work += ref_proof(batch[i].nBits);
        presync_height += int64_t(n);
        fed += n;
        VCHECK(commit_count(start_height, presync_height) <= bound, "c33.memory-bound", "first pass still alive beyond the bound: commitments", commit_count(start_height, presync_height), "bound", bound,
               "period", hp.commitment_period, "elapsed", elapsed);
        if (sync.GetState() == HeadersSyncState::State::FINAL) { outcome = full ? "presync-final" : "presync-partial-gave-up"; break; }
        if (start_height == 0) (void)sync.NextHeadersRequestLocator(); // the locator walks the (absent) ancestors of a synthetic start above genesis
    }
    bool reached_redownload = sync.GetState() == HeadersSyncState::State::REDOWNLOAD;
    bool adversarial_p2 = false;
    std::string release_pattern;
    if (reached_redownload) {
        outcome = "redownload-open";
        // --- second pass: the peer serves chain R (honest: A; switched: A[0..s) + different headers)
        std::vector<Hdr> Rsrc(A.begin(), A.begin() + fed); // only what was served in the first pass is "the" chain; the peer may extend it
        int64_t switch_height = -1;
        if (p2_behaviour >= 3 && p2_behaviour <= 6 && fed > 0) {
            size_t sidx = s.index(fed); // first differing index
            switch_height = start_height + 1 + int64_t(sidx);
            Rsrc.resize(sidx);
            size_t newlen = p2_behaviour == 3 ? fed - sidx : p2_behaviour == 4 ? fed - sidx + s.range<size_t>(1, 80) : s.range<size_t>(1, fed - sidx + 40);
            extend(Rsrc, start, newlen, /*salt=*/2 + p2_behaviour, s, vary);
            adversarial_p2 = true;
            st.cls("p2:switch-chain");
        } else if (p2_behaviour <= 2 && s.chance(64)) {
            extend(Rsrc, start, s.range<size_t>(1, 60), /*salt=*/1, s, vary); // honest peer whose chain grew meanwhile
            st.cls("p2:chain-grew");
        }
        std::vector<Hdr> R; // accepted second-pass headers (model)
        cpp_int r_work = start_work;
        size_t served = 0, released = 0;
        uint256 last_released = start.hash;
        uint32_t last_released_bits = start.h.nBits;
        bool p2_attack_done = false;
        size_t p2_attack_at = s.index(Rsrc.size() + 1);
        const bool stat_eligible = hp.redownload_buffer_size / hp.commitment_period >= 40;
        while (sync.GetState() == HeadersSyncState::State::REDOWNLOAD) {
            size_t left = Rsrc.size() - served;
            if (left == 0) { outcome = "redownload-peer-exhausted"; break; }
            size_t n = std::min<size_t>(left, s.chance(128) ? s.range<size_t>(1, 20) : s.range<size_t>(1, 200));
            std::vector<CBlockHeader> batch;
            for (size_t i = 0; i < n; ++i) batch.push_back(Rsrc[served + i].h);
            bool full = true;
            if (!p2_attack_done && served + n > p2_attack_at) {
                p2_attack_done = true;
                if (p2_behaviour == 7) { batch[0].hashPrevBlock = uint256::ONE; grind(batch[0]); adversarial_p2 = true; st.cls("p2:non-connecting"); }
                else if (p2_behaviour == 8) {
                    size_t j = p2_attack_at - served;
                    int64_t h = Rsrc[served + j].height;
                    uint32_t prevbits = (served + j) ? Rsrc[served + j - 1].h.nBits : start.h.nBits;
                    batch[j].nBits = (h % INTERVAL != 0) ? ref_compact(ref_target(prevbits) / 2) : ref_compact(ref_target(prevbits) / 64);
                    grind(batch[j]);
                    batch.resize(j + 1); n = j + 1;
                    adversarial_p2 = true; st.cls("p2:impermissible-bits");
                } else if (p2_behaviour == 9) { full = false; adversarial_p2 = true; st.cls("p2:partial-batch"); }
            }
            auto res = sync.ProcessNextHeaders(batch, full);
            st.steps++;
            // model: on success every header of the batch was accepted; on failure an unknown prefix was (weakest assumption: all of it)
            for (size_t i = 0; i < n; ++i) { Hdr x; x.h = batch[i]; x.hash = batch[i].GetHash(); x.height = start_height + 1 + int64_t(R.size()); R.push_back(x); r_work += ref_proof(batch[i].nBits); }
            served += n;
            const bool r_proven = r_work >= min_work;
            if (!res.pow_validated_headers.empty()) {
                VCHECK(presync_work >= min_work, "c33.presync-release", "headers released although the first-pass chain never reached the minimum work");
                for (const CBlockHeader& h : res.pow_validated_headers) {
                    st.steps++;
                    VCHECK(released < R.size(), "c33.release-continuous", "more headers released than were accepted in the second pass");
                    const Hdr& want = R[released];
                    VCHECK(h.hashPrevBlock == last_released, "c33.release-continuous", "released header does not connect to the previously released one at height", want.height);
                    VCHECK(h.GetHash() == want.hash, "c33.release-continuous", "released header differs from the second-pass header at height", want.height);
                    size_t followers = R.size() - released - 1;
                    VCHECK(followers >= hp.redownload_buffer_size || r_proven, "c33.release-buffer", "header at height", want.height, "released with only", followers,
                           "later second-pass headers; buffer", hp.redownload_buffer_size, "and second-pass work below the minimum");
                    VCHECK(ref_permitted(want.height, last_released_bits, h.nBits), "c33.release-permitted", "released header with impermissible nBits at height", want.height);
                    VCHECK(from_u256(h.GetHash()) <= ref_target(h.nBits), "c33.release-permitted", "released header without valid proof of work at height", want.height);
                    if (switch_height >= 0 && stat_eligible && want.height >= switch_height) {
                        VCHECK(r_proven, "c33.commitment-check", "header of a chain that differs from the committed one at every height >=", switch_height, "released at height", want.height,
                               "period", hp.commitment_period, "buffer", hp.redownload_buffer_size);
                    }
                    last_released = want.hash; last_released_bits = h.nBits;
                    ++released;
                }
                release_pattern += r_proven ? "A" : "b";
            }
            if (!res.success) { outcome = "redownload-failed"; break; }
            if (sync.GetState() == HeadersSyncState::State::FINAL) { outcome = released == R.size() && r_proven ? "complete" : (full ? "redownload-final" : "redownload-partial-gave-up"); break; }
            if (start_height == 0) (void)sync.NextHeadersRequestLocator(); // the locator walks the (absent) ancestors of a synthetic start above genesis
        }
        released_total = released;
        if (switch_height >= 0 && stat_eligible) st.cls("commitment-clause-eligible");
        if (switch_height >= 0 && released > 0 && R.size() && int64_t(start_height + released) >= switch_height) st.cls("released-beyond-switch(proven-by-work)");
    }
    SetMockTime(0);
    st.nontrivial = reached_redownload && (released_total >= 1 || adversarial_p2);
    st.mix(uint64_t(hp.commitment_period)); st.mix(uint64_t(hp.redownload_buffer_size / 50)); st.mix(uint64_t(p1_behaviour >= 5 ? p1_behaviour : 0)); st.mix(uint64_t(p2_behaviour >= 3 ? p2_behaviour : 0));
    st.mix(outcome); st.mix(release_pattern.substr(0, 6)); st.mix(uint64_t(released_total ? 1 + (released_total > hp.redownload_buffer_size) : 0)); st.mix(uint64_t(elapsed < 0));
    st.cls("outcome:" + outcome);
    if (reached_redownload) st.cls("reached-redownload");
    if (released_total) st.cls("released-some");
    if (release_pattern.find('b') != std::string::npos) st.cls("released-by-buffer");
    if (release_pattern.find('A') != std::string::npos) st.cls("released-after-work-proven");
    if (elapsed < 0) st.cls("tight-length-bound");
    if (k_min > len1) st.cls("low-work-peer");
    st.note("period=", hp.commitment_period, " offset=", offset, " buffer=", hp.redownload_buffer_size, " start_height=", start_height, " len1=", len1, " k_min=", k_min, " elapsed=", elapsed,
            " bound=", bound, " p1=", p1_behaviour, " p2=", p2_behaviour, " fed=", fed, " outcome=", outcome, " released=", released_total, " pattern=", release_pattern);
}
