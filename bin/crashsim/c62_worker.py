#!/usr/bin/env python3
"""Wallet crash-image stage (engine E3; worker protocol of bin/check.py 'custom' stages) for C62, and - through the thin wrappers
c43_worker.py / c42_worker.py which only select another configuration - for the crash clauses of C43 and C42.

  c62_worker.py --seed S --worker W --nworkers K --cases N --out DIR --tier quick|thorough [--max-seconds T]
  c62_worker.py --replay FILE.json

Per worker and workload: generate op bytes (seeded) -> record `vh_cNN --target cNN_workload` under strace on a wallet with the PRODUCTION
SQLite durability (synchronous=FULL, rollback journal, exclusive locking) -> recorder self-check (replaying the whole trace on an
empty directory must reproduce the real final wallet directory byte for byte, else the run is broken) -> choose cut points ->
materialise kill / power-loss images of the wallet directory -> run `cNN_recover` on each image in a fresh process.

Markers written by the workload with write(1) (interleaved by strace with the file operations of the same thread):
  MARK begin                       wallet created, workload proper starts
  MARK state N                     quiescent point; the workload has stored snapshot N (record-level dump, side directory) before printing
  MARK op-begin KIND ATOMIC        an operation starts (ATOMIC=1: the statement lists it as one database transaction)
  MARK op-end KIND
  MARK addr ADDRESS                printed only AFTER the call that returned ADDRESS has returned
  MARK end
A marker with op index i "happened before cut k" iff i <= k (all i file operations that precede it are part of the image).
"""
import argparse
import base64
import hashlib
import io
import json
import os
import random
import shutil
import struct
import subprocess
import sys
import tarfile
import time

HERE = os.path.dirname(os.path.abspath(__file__))
VERIF = os.path.dirname(os.path.dirname(HERE))
sys.path.insert(0, HERE)
import crashlib  # noqa: E402

SUB = os.path.join("test_common bitcoin", "verif", "datadir", "regtest", "wallets", "w")

CONFIGS = {
    "c62": {
        "name": "c62_crash_images", "vh": "vh_c62", "workload": "c62_workload", "recover": "c62_recover", "kind": "c62-wallet-crash-image",
        "ops_len": (24, 200),
        # cuts of interest: exactly when an address has just been returned (marker index) and inside the writes that precede the return
        "focus": "addr",
        "unloadable_fails": False,
    },
    "c43": {
        "name": "c43_crash_images", "vh": "vh_c43", "workload": "c43_workload", "recover": "c43_recover", "kind": "c43-wallet-crash-image",
        "ops_len": (40, 260),
        "focus": "atomic",
        "unloadable_fails": True,
    },
    "c42": {
        "name": "c42_crash_images", "vh": "vh_c42", "workload": "c42_workload", "recover": "c42_recover", "kind": "c42-wallet-crash-image",
        "ops_len": (16, 96),
        "focus": "encrypt",
        "unloadable_fails": True,
    },
}


def base_env():
    e = dict(os.environ)
    e.setdefault("ASAN_OPTIONS", "detect_leaks=0:abort_on_error=0:handle_abort=0:malloc_context_size=8:quarantine_size_mb=16")
    e["ASAN_OPTIONS"] = e["ASAN_OPTIONS"].replace("detect_leaks=1", "detect_leaks=0")
    return e


def vh_path(cfg):
    return os.path.join(os.environ.get("VH_BIN_DIR") or os.path.join(VERIF, "build", "san", "vh"), cfg["vh"])


def run_target(cfg, target, env, replay_file, timeout=600):
    return subprocess.run([vh_path(cfg), "--target", target, "--replay", replay_file], env=env, stdout=subprocess.PIPE, stderr=subprocess.PIPE,
                          timeout=timeout, text=True, errors="replace")


class Cut:
    """what the recovery oracle is told about a cut"""

    def __init__(self, k, marks):
        self.k = k
        before = [(i, t) for i, t in marks if i <= k]
        after = [(i, t) for i, t in marks if i > k]
        self.addrs = [t.split()[1] for _, t in before if t.startswith("addr ")]
        st_b = [t.split()[1] for _, t in before if t.startswith("state ")]
        st_a = [t.split()[1] for _, t in after if t.startswith("state ")]
        self.state_before = st_b[-1] if st_b else ""
        self.state_after = st_a[0] if st_a else ""
        self.op_kind, self.atomic = "", 0
        for _, t in before:
            f = t.split()
            if f[0] == "op-begin":
                self.op_kind, self.atomic = f[1], int(f[2]) if len(f) > 2 else 0
            elif f[0] == "op-end":
                self.op_kind, self.atomic = "", 0
        self.started = any(t == "begin" for _, t in before)

    def info(self):
        return {"addrs": self.addrs, "state_before": self.state_before, "state_after": self.state_after, "op_kind": self.op_kind, "atomic": self.atomic}


def recover(cfg, image_dir, side_dir, info, work):
    """run the recovery oracle on an image -> (ok, oracle, msg, stdout)"""
    addrs_file = os.path.join(work, "addrs.txt")
    open(addrs_file, "w").write("\n".join(info["addrs"]) + ("\n" if info["addrs"] else ""))
    empty = os.path.join(work, "empty.bin")
    open(empty, "wb").close()
    env = base_env()
    env.pop("VH_W_MARKS", None)
    env.update(VH_W_IMAGE=image_dir, VH_W_SIDE=side_dir, VH_W_ADDRS=addrs_file, VH_W_BEFORE=info["state_before"], VH_W_AFTER=info["state_after"],
               VH_W_ATOMIC=str(info["atomic"]), VH_W_KIND=info["op_kind"])
    try:
        r = run_target(cfg, cfg["recover"], env, empty)
    except subprocess.TimeoutExpired:
        return True, "timeout", "recovery timed out (inconclusive)", ""
    if r.returncode == 0 and "REPLAY-OK" in r.stdout:
        if "IMAGE-UNLOADABLE" in r.stdout and cfg["unloadable_fails"]:
            return False, cfg["name"][:3] + ".crash-image-does-not-load", r.stdout[-600:], r.stdout
        return True, "", r.stdout, r.stdout
    sys.path.insert(0, os.path.join(VERIF, "bin"))
    import check  # signature extraction shared with the orchestrator
    oracle, msg = check.signature_from_stderr(r.stderr + "\n" + r.stdout)
    return False, oracle, msg, r.stdout


def side_files(side_dir, info):
    """files of the side directory the recovery oracle may read for this cut (kept small: they travel inside the replay file)"""
    out = []
    for n in ("plan.bin", "secrets.txt", "public.txt", "meta.txt"):
        if os.path.exists(os.path.join(side_dir, n)):
            out.append(n)
    for s in (info["state_before"], info["state_after"]):
        if s and os.path.exists(os.path.join(side_dir, f"snap-{s}.txt")):
            out.append(f"snap-{s}.txt")
    return out


def pack_failure(cfg, path, image_dir, side_dir, info, meta):
    buf = io.BytesIO()
    with tarfile.open(fileobj=buf, mode="w:gz") as t:
        t.add(image_dir, arcname="image")
        for n in side_files(side_dir, info):
            t.add(os.path.join(side_dir, n), arcname="side/" + n)
    json.dump({"kind": cfg["kind"], "prop": cfg["name"][:3], "info": info, "meta": meta, "tar_gz_b64": base64.b64encode(buf.getvalue()).decode()}, open(path, "w"))


def replay(path):
    j = json.load(open(path))
    cfg = CONFIGS[j["prop"]]
    work = os.path.join(os.environ.get("TMPDIR", "/tmp"), f"{j['prop']}-replay-{os.getpid()}")
    shutil.rmtree(work, ignore_errors=True)
    os.makedirs(os.path.join(work, "side"))
    with tarfile.open(fileobj=io.BytesIO(base64.b64decode(j["tar_gz_b64"])), mode="r:gz") as t:
        t.extractall(work)
    print("DECODED crash image:", json.dumps(j["meta"]))
    ok, oracle, msg, out = recover(cfg, os.path.join(work, "image"), os.path.join(work, "side"), j["info"], work)
    shutil.rmtree(work, ignore_errors=True)
    if ok:
        print(out[-800:])
        print("REPLAY-OK")
        return 0
    print(f"ORACLE-FAIL {oracle} {msg}", file=sys.stderr)
    return 77


def gen_ops(rng, lo, hi):
    n = rng.randrange(lo, hi)
    mode = rng.randrange(3)
    if mode == 0:
        return bytes(rng.randrange(256) for _ in range(n))
    if mode == 1:
        return bytes(rng.choice([0, 255, 1, 127, 128, 254, rng.randrange(256), rng.randrange(256)]) for _ in range(n))
    return bytes(rng.randrange(256) if rng.random() < 0.7 else rng.randrange(4) for _ in range(n))


def main(prop="c62"):
    cfg = CONFIGS[prop]
    NAME = cfg["name"]
    ap = argparse.ArgumentParser()
    ap.add_argument("--replay")
    ap.add_argument("--seed", type=int, default=1)
    ap.add_argument("--worker", type=int, default=0)
    ap.add_argument("--nworkers", type=int, default=1)
    ap.add_argument("--cases", type=int, default=300)
    ap.add_argument("--out", default=".")
    ap.add_argument("--tier", default="quick")
    ap.add_argument("--max-seconds", type=float, default=0)
    ap.add_argument("--keep", action="store_true", help="keep the work directory (debugging)")
    a = ap.parse_args()
    if a.replay:
        return replay(a.replay)
    t0 = time.time()
    rng = random.Random(a.seed * 1000003 + a.worker)
    work = os.path.join(os.environ.get("TMPDIR", "/tmp"), f"{prop}-crash-{a.seed}-{a.worker}-{os.getpid()}")
    shutil.rmtree(work, ignore_errors=True)
    os.makedirs(work)
    stats = {"target": NAME, "worker": a.worker, "mode": "crash", "seed": a.seed, "cases": 0, "nontrivial": 0, "steps": 0,
             "distinct_nontrivial_shapes": 0, "enum_total": 0, "wall_s": 0, "stopped_by": "cases", "classes": {}, "class_cases": {}, "samples": []}
    shapes = set()

    def cls(name, n=1):
        stats["classes"][name] = stats["classes"].get(name, 0) + n
        stats["class_cases"][name] = stats["class_cases"].get(name, 0) + 1

    def flush():
        stats["wall_s"] = round(time.time() - t0, 2)
        stats["distinct_nontrivial_shapes"] = len(shapes)
        json.dump(stats, open(os.path.join(a.out, f"stats-{NAME}-{a.worker}.json"), "w"))
        with open(os.path.join(a.out, f"shapes-{NAME}-{a.worker}.bin"), "wb") as f:
            for h in shapes:
                f.write(struct.pack("<Q", h))

    def cleanup():
        if not a.keep:
            shutil.rmtree(work, ignore_errors=True)

    def fail(oracle, msg, image_dir, side_dir, info, meta):
        pack_failure(cfg, os.path.join(a.out, f"fail-{NAME}-{a.worker}.json"), image_dir, side_dir, info, meta)
        open(os.path.join(a.out, f"fail-{NAME}-{a.worker}.txt"), "w").write(f"{oracle}\n{msg}\n{json.dumps(meta)}\n")
        print(f"ORACLE-FAIL {oracle} {msg} meta={json.dumps(meta)}", file=sys.stderr)
        stats["stopped_by"] = "failure"
        flush()
        cleanup()
        sys.exit(77)

    def broken(msg):
        print("BROKEN " + msg, file=sys.stderr)
        flush()
        cleanup()
        sys.exit(2)

    template = os.path.join(work, "template")  # the wallet directory does not exist before the workload: the template is empty
    os.makedirs(template)
    per_worker = max(2, a.cases // a.nworkers)
    n_workloads = 1 if a.tier == "quick" else 6
    per_workload = max(2, per_worker // n_workloads)
    for wl in range(n_workloads):
        if a.max_seconds and time.time() - t0 > a.max_seconds:
            stats["stopped_by"] = "time"
            break
        # record ---------------------------------------------------------------------------------------
        wroot = os.path.join(work, f"wroot{wl}")
        side = os.path.join(work, f"side{wl}")
        for d in (wroot, side):
            shutil.rmtree(d, ignore_errors=True)
            os.makedirs(d)
        opsfile = os.path.join(work, f"ops{wl}.bin")
        opsb = gen_ops(rng, *cfg["ops_len"])
        open(opsfile, "wb").write(opsb)
        env = base_env()
        env.update(VH_W_ROOT=wroot, VH_W_SIDE=side, VH_W_MARKS="1")
        trace = os.path.join(work, f"trace{wl}.txt")
        stdout_path = os.path.join(work, f"stdout{wl}.txt")
        rc, err = crashlib.record([vh_path(cfg), "--target", cfg["workload"], "--replay", opsfile], env, trace, stdout_path)
        if rc != 0:
            # the workload is the in-process interpreter with its own oracles: a failure there is a genuine (non-crash) failure of the
            # property only if it reproduces through the in-process stage; here it is reported as a broken run
            broken(f"workload run failed rc={rc} ops={opsb.hex()}: {err[-1500:]}")
        wdir = os.path.join(wroot, SUB)
        if not os.path.isdir(wdir):
            broken(f"wallet directory {wdir} missing after the workload")
        ops, marks = crashlib.parse_trace(trace, wdir, {})
        if not a.keep:
            os.unlink(trace)
        # recorder self-check: replaying the whole trace must give the real final wallet directory ----------------------
        chk = os.path.join(work, "selfcheck")
        crashlib.build_image(template, ops, len(ops), chk)
        got, want = crashlib.dir_digest(chk), crashlib.dir_digest(wdir)
        if got != want:
            diff = [p for p in set(got) | set(want) if got.get(p) != want.get(p)]
            broken(f"recorder self-check failed: materialised final image differs from the real wallet directory in {sorted(diff)[:6]} "
                   f"(sizes got={[len(got.get(p, b'')) for p in sorted(diff)[:6]]} want={[len(want.get(p, b'')) for p in sorted(diff)[:6]]})")
        shutil.rmtree(chk, ignore_errors=True)
        if not any(t == "begin" for _, t in marks) or not any(t == "end" for _, t in marks):
            broken("MARK begin/end missing in the trace")
        k0 = [i for i, t in marks if t == "begin"][0]
        decoded = open(stdout_path, errors="replace").read()
        decoded = " ".join(l[8:] for l in decoded.splitlines() if l.startswith("DECODED "))[:700]
        writes = sum(1 for op in ops if op.kind == "w")
        syncs = sum(1 for op in ops if op.kind == "s")
        cls("ops-in-trace", len(ops))
        cls("writes-in-trace", writes)
        cls("fsyncs-in-trace", syncs)
        # cut selection ------------------------------------------------------------------------------------------------
        # C43: wallet creation with a generated seed (descriptor setup) is itself one of the atomic groups; otherwise cuts start after creation
        lo = 0 if (cfg["focus"] == "atomic" and any(t.startswith("op-begin create-generated") for _, t in marks)) else k0
        cand = [op.i for op in ops if op.i >= lo and op.kind in ("w", "s", "t", "x", "r", "u", "c")] + [len(ops)]
        cand = sorted(set(cand))
        focus = set()
        if cfg["focus"] == "addr":
            for i, t in marks:
                if t.startswith("addr "):
                    focus.update(range(max(lo, i - 5), i + 1))
        else:
            want_kind = None if cfg["focus"] == "atomic" else cfg["focus"]
            open_i = None
            for i, t in marks:
                f = t.split()
                if f[0] == "op-begin" and ((want_kind is None and len(f) > 2 and f[2] == "1") or (want_kind is not None and f[1] == want_kind)):
                    open_i = i
                elif f[0] == "op-end" and open_i is not None:
                    focus.update(range(open_i + 1, i + 1))
                    open_i = None
        A = [k for k in cand if k in focus]
        B = [k for k in cand if k not in focus]
        cls("focus-cuts-available", len(A))
        cls("cut-points-available", len(cand))
        rng.shuffle(A)
        rng.shuffle(B)
        budget = max(2, (per_workload * 2) // 3)  # ~1.5 images per cut
        nA = min(len(A), max(1, budget * 2 // 3))
        nB = min(len(B), max(1, budget - nA))
        chosen = A[:nA] + B[:nB]
        if cfg["focus"] == "addr":
            # always include the cut right after the LAST returned address and the very end of the trace
            last_addr = [i for i, t in marks if t.startswith("addr ")]
            for k in ([last_addr[-1]] if last_addr else []) + [len(ops)]:
                if k not in chosen:
                    chosen.append(k)
        if a.tier == "thorough" and a.cases >= 100000:
            chosen = cand
        img = os.path.join(work, "image")
        for k in chosen:
            if a.max_seconds and time.time() - t0 > a.max_seconds:
                stats["stopped_by"] = "time"
                break
            cut = Cut(k, marks)
            info = cut.info()
            U = crashlib.unsynced_writes(ops, k)
            variants = [("kill", frozenset(), None)]
            if U:
                js = sorted({0, len(U) // 2, len(U) - 1})
                j = rng.choice(js)
                variants.append((f"power:j={j}/{len(U)}", frozenset(U[j:]), None))
                big = [i for i in U if len(ops[i].data) > 512]
                if big and rng.random() < 0.5:
                    ti = rng.choice(big)
                    keep = 512 * rng.randrange(1, (len(ops[ti].data) + 511) // 512)
                    later = frozenset(i for i in U if i > ti)
                    variants.append((f"power-torn:{ti}@{keep}", later, (ti, keep)))
            for mode, drop, tear in variants:
                crashlib.build_image(template, ops, k, img, drop, tear)
                meta = {"workload_seed": [a.seed, a.worker, wl], "ops_hex": opsb.hex(), "cut": k, "of": len(ops), "mode": mode,
                        "next_op": repr(ops[k]) if k < len(ops) else "end", "in_op": info["op_kind"], "atomic": info["atomic"],
                        "addresses_before_cut": len(info["addrs"]), "state": [info["state_before"], info["state_after"]],
                        "unsynced_writes": len(U), "workload": decoded}
                ok, oracle, msg, out = recover(cfg, img, side, info, work)
                stats["cases"] += 1
                stats["steps"] += 1
                cls("mode:" + mode.split(":")[0])
                if k in focus:
                    cls("cut-in-focus-window")
                if info["op_kind"]:
                    cls("in-op:" + info["op_kind"])
                if info["atomic"]:
                    cls("cut-inside-atomic-group")
                for line in out.splitlines():
                    if line.startswith("CLASS "):
                        cls(line[6:].strip())
                nontrivial = "NONTRIVIAL 1" in out
                if "IMAGE-UNLOADABLE" in out:
                    cls("image-unloadable")
                if nontrivial:
                    stats["nontrivial"] += 1
                    shapes.add(int.from_bytes(hashlib.sha256(f"{a.seed}/{a.worker}/{wl}/{k}/{mode}".encode()).digest()[:8], "little"))
                if len(stats["samples"]) < 4 and (nontrivial or not stats["samples"]):
                    dec = [l[8:] for l in out.splitlines() if l.startswith("DECODED ")]
                    stats["samples"].append({"index": stats["cases"], "len": len(opsb), "nontrivial": nontrivial,
                                             "decoded": json.dumps({x: meta[x] for x in meta if x != "ops_hex"}) + " || recovery: " + " ".join(dec)[:400]})
                if not ok:
                    fail(oracle, msg, img, side, info, meta)
                if oracle == "timeout":
                    cls("recovery-timeout-inconclusive")
            if stats["cases"] % 8 == 0:
                flush()
    flush()
    cleanup()
    return 0


def entry(prop):
    try:
        rc = main(prop)
    except SystemExit:
        raise
    except Exception:  # a bug in the recorder/builder is a broken run, never a violation
        import traceback
        traceback.print_exc()
        print("BROKEN worker exception", file=sys.stderr)
        rc = 2
    sys.exit(rc)


if __name__ == "__main__":
    entry("c62")
