/* gcc has no inline-8bit-counters, but supports -fsanitize-coverage=trace-pc,trace-cmp. This shim turns the trace-pc
 * callbacks into an 8-bit counter table registered with libFuzzer, so the libFuzzer runtime (built for clang) guides
 * g++-compiled code. Compiled WITHOUT instrumentation. Weak fall-backs let the same objects link without libFuzzer. */
#include <stdint.h>
#include <stddef.h>
#define NCOUNTERS (1u << 18)
static uint8_t g_counters[NCOUNTERS];
static struct { uintptr_t pc, flags; } g_pcs[NCOUNTERS];
void __sanitizer_cov_8bit_counters_init(uint8_t*, uint8_t*) __attribute__((weak));
void __sanitizer_cov_pcs_init(const uintptr_t*, const uintptr_t*) __attribute__((weak));
void __sanitizer_cov_trace_pc(void)
{
    uintptr_t pc = (uintptr_t)__builtin_return_address(0);
    uint32_t idx = (uint32_t)((pc * 0x9E3779B97F4A7C15ull) >> 46) & (NCOUNTERS - 1);
    g_pcs[idx].pc = pc;
    g_counters[idx]++;
}
__attribute__((constructor)) static void covshim_init(void)
{
    if (__sanitizer_cov_8bit_counters_init) __sanitizer_cov_8bit_counters_init(g_counters, g_counters + NCOUNTERS);
    if (__sanitizer_cov_pcs_init) __sanitizer_cov_pcs_init((const uintptr_t*)g_pcs, (const uintptr_t*)(g_pcs + NCOUNTERS));
}
#define WEAKSTUB(name, ...) __attribute__((weak)) void name(__VA_ARGS__) {}
WEAKSTUB(__sanitizer_cov_trace_cmp1, uint8_t a, uint8_t b)
WEAKSTUB(__sanitizer_cov_trace_cmp2, uint16_t a, uint16_t b)
WEAKSTUB(__sanitizer_cov_trace_cmp4, uint32_t a, uint32_t b)
WEAKSTUB(__sanitizer_cov_trace_cmp8, uint64_t a, uint64_t b)
WEAKSTUB(__sanitizer_cov_trace_const_cmp1, uint8_t a, uint8_t b)
WEAKSTUB(__sanitizer_cov_trace_const_cmp2, uint16_t a, uint16_t b)
WEAKSTUB(__sanitizer_cov_trace_const_cmp4, uint32_t a, uint32_t b)
WEAKSTUB(__sanitizer_cov_trace_const_cmp8, uint64_t a, uint64_t b)
WEAKSTUB(__sanitizer_cov_trace_switch, uint64_t v, uint64_t* c)
WEAKSTUB(__sanitizer_cov_trace_div4, uint32_t v)
WEAKSTUB(__sanitizer_cov_trace_div8, uint64_t v)
WEAKSTUB(__sanitizer_cov_trace_gep, uintptr_t i)
/* gcc-only hooks for float/double comparisons (libFuzzer has no counterpart) */
void __sanitizer_cov_trace_cmpf(float a, float b) { (void)a; (void)b; }
void __sanitizer_cov_trace_cmpd(double a, double b) { (void)a; (void)b; }
