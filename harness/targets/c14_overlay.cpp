// C14 (second clause) — "Parallel prevout fetching returns the same coins as a direct lookup and leaves the base view unchanged."
// CoinsViewOverlay + ThreadPool are driven directly: a coins DB (in-memory LevelDB) under a populated base cache whose entries
// are in every state (DB only, cached clean, fresh, spent-dirty, absent), a generated block whose inputs hit all of them
// (plus outputs created earlier in the same block, which the fetcher must skip), an access pattern (ConnectBlock order with
// BIP30-style extra look-ups / shuffled / abandoned midway) and a thread count 0..16.
// Oracle: a std::map model of "what a direct lookup returns"; base cache size / dirty count / memory usage identical before and
// after fetching; after Flush the base holds exactly the model's result; the block is freed right after Flush/Reset so a worker
// still alive would touch freed memory (ASan / TSan).
#include <engine/verif.h>
#include <kits/schedhook.h>

#include <coins.h>
#include <primitives/block.h>
#include <primitives/transaction.h>
#include <txdb.h>
#include <util/threadpool.h>

#include <map>
#include <memory>
#include <set>

using namespace verif;

namespace {

enum class St { ABSENT, DB_ONLY, CACHED_CLEAN, FRESH, SPENT_DIRTY, DB_OVERWRITTEN };

COutPoint IdOutpoint(unsigned id)
{
    uint256 h;
    h.begin()[0] = uint8_t(id);
    h.begin()[1] = uint8_t(id >> 8);
    h.begin()[31] = 0xc1;
    return COutPoint(Txid::FromUint256(h), id % 3);
}

Coin MakeCoin(unsigned id, unsigned salt)
{
    Coin c;
    c.out.nValue = 1000 + CAmount(id) * 7 + salt;
    c.out.scriptPubKey = CScript() << OP_1 << std::vector<unsigned char>(2 + (id + salt) % 30, uint8_t(id));
    c.nHeight = 10 + id % 50;
    c.fCoinBase = (id % 11) == 0;
    return c;
}

bool SameCoin(const Coin& a, const Coin& b)
{
    if (a.IsSpent() || b.IsSpent()) return a.IsSpent() == b.IsSpent();
    return a.out == b.out && a.nHeight == b.nHeight && a.fCoinBase == b.fCoinBase;
}

void Body(Src& s, Stats& st)
{
    // -- schedule / configuration first
    const int threads = s.pick<int>({2, 0, 1, 3, 4, 8, 16});
    const uint64_t sched_seed = s.range<uint64_t>(0, UINT64_MAX);
    const unsigned intensity = s.pick<unsigned>({32, 0, 8, 128});
    const unsigned universe = s.range<unsigned>(4, 48);
    const unsigned mode = s.range<unsigned>(0, 3); // 0 ConnectBlock order, 1 + BIP30-style extra look-ups, 2 shuffled, 3 abandoned midway

    // -- base layers
    CCoinsViewDB db{{.path = "", .cache_bytes = 1 << 18, .memory_only = true}, {}};
    std::map<COutPoint, Coin> truth; // what a direct base lookup returns (unspent coins only)
    std::vector<St> state(universe, St::ABSENT);
    {
        CCoinsViewCache loader{&db};
        loader.SetBestBlock(uint256::ONE);
        for (unsigned id = 0; id < universe; ++id) {
            state[id] = s.pick<St>({St::DB_ONLY, St::ABSENT, St::CACHED_CLEAN, St::FRESH, St::SPENT_DIRTY, St::DB_OVERWRITTEN});
            if (state[id] == St::DB_ONLY || state[id] == St::CACHED_CLEAN || state[id] == St::SPENT_DIRTY || state[id] == St::DB_OVERWRITTEN) {
                loader.AddCoin(IdOutpoint(id), MakeCoin(id, 0), /*possible_overwrite=*/false);
            }
        }
        loader.Flush();
    }
    CCoinsViewCache main_cache{&db};
    for (unsigned id = 0; id < universe; ++id) {
        const COutPoint op = IdOutpoint(id);
        switch (state[id]) {
        case St::ABSENT: break;
        case St::DB_ONLY: truth[op] = MakeCoin(id, 0); break;
        case St::CACHED_CLEAN: (void)main_cache.AccessCoin(op); truth[op] = MakeCoin(id, 0); break;
        case St::FRESH: main_cache.AddCoin(op, MakeCoin(id, 1), false); truth[op] = MakeCoin(id, 1); break;
        case St::SPENT_DIRTY: main_cache.SpendCoin(op); break;
        case St::DB_OVERWRITTEN: main_cache.SpendCoin(op); main_cache.AddCoin(op, MakeCoin(id, 2), false); truth[op] = MakeCoin(id, 2); break;
        }
    }
    main_cache.SetBestBlock(uint256::ONE);

    // -- block: coinbase + txs; inputs from the universe (each id at most once unless a duplicate is wanted) or from earlier txs of the block
    auto block = std::make_unique<CBlock>();
    {
        CMutableTransaction cb;
        cb.vin.emplace_back();
        cb.vout.emplace_back(50, CScript() << OP_TRUE);
        block->vtx.push_back(MakeTransactionRef(cb));
    }
    const unsigned ntx = s.range<unsigned>(1, 12);
    const bool clean = s.chance(140); // a block that is valid by construction: reaches Flush when processed in ConnectBlock order
    std::vector<unsigned> unused;
    for (unsigned id = 0; id < universe; ++id) if (!clean || truth.count(IdOutpoint(id))) unused.push_back(id);
    bool wants_invalid = false, has_chain = false, has_dup = false;
    for (unsigned t = 0; t < ntx; ++t) {
        CMutableTransaction tx;
        unsigned nin = s.range<unsigned>(1, 5);
        for (unsigned k = 0; k < nin; ++k) {
            unsigned kind = s.range<unsigned>(0, 15);
            if (kind == 15 && block->vtx.size() > 1) { // output of an earlier transaction of this block
                const auto& prev = block->vtx[1 + s.index(block->vtx.size() - 1)];
                COutPoint op(prev->GetHash(), (!clean && s.chance(32)) ? 7u : 0u); // index 7 does not exist
                bool dup = false;
                for (auto& i : tx.vin) dup |= i.prevout == op;
                if (clean) for (auto& t2 : block->vtx) for (auto& i : t2->vin) dup |= i.prevout == op; // spend it once only
                if (!dup) { tx.vin.emplace_back(op); has_chain = true; }
            } else if (kind == 14 && !clean && universe > unused.size()) { // an id already used by an earlier input: double spend inside the block
                unsigned id = s.range<unsigned>(0, universe - 1);
                bool dup = false;
                for (auto& i : tx.vin) dup |= i.prevout == IdOutpoint(id);
                if (!dup) { tx.vin.emplace_back(IdOutpoint(id)); has_dup = true; }
            } else if (!unused.empty()) {
                size_t j = s.index(unused.size());
                bool dup = false; // (an id taken by the double-spend branch above stays in `unused`: never twice within ONE transaction, CheckBlock rejects that before ConnectBlock)
                for (auto& i : tx.vin) dup |= i.prevout == IdOutpoint(unused[j]);
                if (!dup) tx.vin.emplace_back(IdOutpoint(unused[j]));
                unused.erase(unused.begin() + j);
            }
        }
        if (tx.vin.empty()) continue;
        tx.vout.emplace_back(1 + t, CScript() << OP_TRUE);
        if (s.chance(64)) tx.vout.emplace_back(2 + t, CScript() << OP_2);
        tx.nLockTime = t; // distinct txids
        block->vtx.push_back(MakeTransactionRef(tx));
    }

    // -- model of the overlay: base truth + in-block modifications
    std::map<COutPoint, Coin> view = truth;
    auto view_get = [&](const COutPoint& op) -> const Coin* { auto it = view.find(op); return it == view.end() ? nullptr : &it->second; };

    const unsigned before_size = main_cache.GetCacheSize();
    const size_t before_dirty = main_cache.GetDirtyCount();
    const size_t before_usage = main_cache.DynamicMemoryUsage();

    auto pool = std::make_shared<ThreadPool>("c14ov");
    if (threads > 0) pool->Start(threads);
    bool flushed = false;
    size_t lookups = 0;
    {
        CoinsViewOverlay overlay{&main_cache, pool};
        sched::Arm(sched_seed, intensity);
        {
            const auto guard{overlay.StartFetching(*block)};
            auto check_lookup = [&](const COutPoint& op, unsigned how) {
                const Coin* want = view_get(op);
                lookups++;
                st.steps++;
                sched::Point("consumer");
                if (how % 3 == 0) {
                    bool have = overlay.HaveCoin(op);
                    VCHECK(have == (want != nullptr), "c14.overlay-havecoin", "outpoint", op.ToString(), "overlay", have, "direct lookup", want != nullptr, "threads", threads);
                } else if (how % 3 == 1) {
                    const Coin& got = overlay.AccessCoin(op);
                    VCHECK(want ? SameCoin(got, *want) : got.IsSpent(), "c14.overlay-coin", "AccessCoin differs from direct lookup for", op.ToString(), "threads", threads);
                } else {
                    std::optional<Coin> got = overlay.GetCoin(op);
                    VCHECK(want ? (got && SameCoin(*got, *want)) : !got, "c14.overlay-coin", "GetCoin differs from direct lookup for", op.ToString(), "threads", threads);
                }
            };
            bool valid = true;
            size_t total_inputs = 0;
            for (size_t t = 1; t < block->vtx.size(); ++t) total_inputs += block->vtx[t]->vin.size();
            size_t stop_after = mode == 3 ? s.index(total_inputs + 1) : total_inputs + 1;
            if (mode == 2) {
                // shuffled: every input looked up once in a generated order, nothing spent (degrades to serial look-ups, must still be right)
                std::vector<COutPoint> all;
                for (size_t t = 1; t < block->vtx.size(); ++t) for (auto& in : block->vtx[t]->vin) all.push_back(in.prevout);
                while (!all.empty()) {
                    size_t j = s.index(all.size());
                    check_lookup(all[j], s.range<unsigned>(0, 2));
                    all.erase(all.begin() + j);
                }
                valid = false; // never flushed
            } else {
                if (mode == 1) {
                    // ConnectBlock's BIP30 check: outputs of every transaction of the block are looked up first
                    for (auto& tx : block->vtx) for (uint32_t o = 0; o < tx->vout.size(); ++o) check_lookup(COutPoint(tx->GetHash(), o), 0);
                }
                size_t done = 0;
                for (size_t t = 1; t < block->vtx.size() && valid; ++t) {
                    const CTransaction& tx = *block->vtx[t];
                    // CheckTxInputs order: every input is looked up, then spent
                    for (auto& in : tx.vin) {
                        if (done++ >= stop_after) { valid = false; break; }
                        check_lookup(in.prevout, 1 + (done & 1));
                        if (!view_get(in.prevout)) { valid = false; wants_invalid = true; break; } // missing or spent: ConnectBlock gives up here
                    }
                    if (!valid) break;
                    for (auto& in : tx.vin) {
                        Coin moved;
                        bool ok = overlay.SpendCoin(in.prevout, &moved);
                        st.steps++;
                        VCHECK(ok && SameCoin(moved, view.at(in.prevout)), "c14.overlay-spend", "spent coin differs from direct lookup", in.prevout.ToString());
                        view.erase(in.prevout);
                    }
                    for (uint32_t o = 0; o < tx.vout.size(); ++o) {
                        Coin c(tx.vout[o], 200, false);
                        view[COutPoint(tx.GetHash(), o)] = c;
                        overlay.AddCoin(COutPoint(tx.GetHash(), o), std::move(c), /*possible_overwrite=*/false);
                    }
                }
            }
            // the base must not have been touched by fetching, whatever the workers are doing right now
            st.steps++;
            VCHECK(main_cache.GetCacheSize() == before_size && main_cache.GetDirtyCount() == before_dirty && main_cache.DynamicMemoryUsage() == before_usage,
                   "c14.overlay-base-mutated", "base cache changed during fetching: size", main_cache.GetCacheSize(), "was", before_size, "dirty", main_cache.GetDirtyCount(), "was",
                   before_dirty, "usage", main_cache.DynamicMemoryUsage(), "was", before_usage, "threads", threads);
            if (valid && mode != 2) {
                st.steps++;
                VCHECK(overlay.AllInputsConsumed(), "c14.overlay-not-consumed", "a block processed in ConnectBlock order left prefetched inputs unconsumed", "threads", threads);
                overlay.SetBestBlock(uint256{2});
                overlay.Flush(/*reallocate_cache=*/s.boolean());
                flushed = true;
            }
        } // guard: Reset() (after Flush: a no-op teardown; otherwise the invalid-block path)
        sched::Disarm();
        block.reset(); // the fetch queue referenced the block's outpoints: no worker may be alive any more
        st.steps++;
        VCHECK(pool->WorkQueueSize() == 0, "c14.overlay-tasks-left", "tasks still queued after Flush/Reset");
        // a second block through the same overlay object (it is reused for every block in production)
        if (s.chance(96)) {
            CBlock b2;
            CMutableTransaction cb; cb.vin.emplace_back(); b2.vtx.push_back(MakeTransactionRef(cb));
            CMutableTransaction tx;
            for (unsigned id = 0; id < std::min(universe, 6u); ++id) tx.vin.emplace_back(IdOutpoint(id));
            b2.vtx.push_back(MakeTransactionRef(tx));
            const std::map<COutPoint, Coin>& now = flushed ? view : truth;
            const auto guard2{overlay.StartFetching(b2)};
            for (auto& in : tx.vin) {
                auto it = now.find(in.prevout);
                std::optional<Coin> got = overlay.GetCoin(in.prevout);
                st.steps++;
                VCHECK(it == now.end() ? !got : (got && SameCoin(*got, it->second)), "c14.overlay-coin", "second block through the same overlay: GetCoin differs for", in.prevout.ToString());
            }
            st.cls("second-block");
        }
    }
    pool->Stop();
    // -- the base afterwards: exactly the model (flushed) or exactly as before (reset)
    const std::map<COutPoint, Coin>& expect = flushed ? view : truth;
    if (!flushed) {
        st.steps++;
        VCHECK(main_cache.GetCacheSize() == before_size && main_cache.GetDirtyCount() == before_dirty && main_cache.DynamicMemoryUsage() == before_usage,
               "c14.overlay-base-mutated", "base cache changed by a block that was not flushed");
    }
    std::set<COutPoint> keys;
    for (unsigned id = 0; id < universe; ++id) keys.insert(IdOutpoint(id));
    for (auto& [op, c] : view) keys.insert(op);
    for (auto& op : keys) {
        std::optional<Coin> got = main_cache.PeekCoin(op);
        auto it = expect.find(op);
        st.steps++;
        VCHECK(it == expect.end() ? !got : (got && SameCoin(*got, it->second)), "c14.overlay-base-after", flushed ? "after Flush" : "after Reset", "base holds a different coin for", op.ToString());
    }
    main_cache.SanityCheck();

    st.cls("threads=" + std::string(threads == 0 ? "0" : threads == 1 ? "1" : threads <= 4 ? "2-4" : "8+"));
    st.cls(mode == 0 ? "mode:in-order" : mode == 1 ? "mode:bip30-lookups" : mode == 2 ? "mode:shuffled" : "mode:abandoned");
    st.cls(flushed ? "flushed" : "reset");
    if (wants_invalid) st.cls("missing-input-path");
    if (has_chain) st.cls("in-block-spend");
    if (has_dup) st.cls("in-block-double-spend");
    if (clean) st.cls("valid-by-construction");
    st.mix(uint64_t(threads)); st.mix(uint64_t(mode)); st.mix(uint64_t(flushed)); st.mix(uint64_t(ntx)); st.mix(uint64_t(lookups / 4)); st.mix(uint64_t(wants_invalid * 2 + has_chain));
    st.note("threads=", threads, " mode=", mode, " universe=", universe, " ntx=", ntx, " lookups=", lookups, flushed ? " flushed" : " reset", " yields=", sched::Taken());
    // non-trivial: >= 2 fetch workers, >= 6 look-ups answered, and the base contains entries the workers must read from the cache layer
    st.nontrivial = threads >= 2 && lookups >= 6;
}

} // namespace

#define C14OV_RULE                                                                                                                                   \
    "CoinsViewOverlay over a base cache over an in-memory coins DB; 4..48 outpoints in states {absent, DB only, cached clean, fresh, spent-dirty, " \
    "spent-then-re-added}; block of 1..12 txs x 1..5 inputs (universe coins, outputs of earlier txs incl. non-existent index, in-block double "   \
    "spends); 0..16 fetch threads with seeded yields; access in ConnectBlock order (+BIP30-style look-ups) then Flush, or shuffled / abandoned "  \
    "midway then Reset; block freed right after; a second block through the same overlay. oracle: every coin == std::map model of a direct "     \
    "lookup, base size/dirty/usage unchanged by fetching, base == model after Flush/Reset. non-trivial = >=2 fetch threads and >=6 look-ups; "    \
    "distinct = threads, mode, outcome, tx count, look-ups/4, invalid/chain flags"

VERIF_TARGET(c14_overlay, nullptr, 40, 260, C14OV_RULE) { Body(s, st); }
VERIF_TARGET(c14_overlay_tsan, nullptr, 40, 260, C14OV_RULE) { Body(s, st); }
