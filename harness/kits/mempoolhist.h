// MempoolHistory: the shared operation-history driver on top of MempoolSim ("C22 histories", reused by C23/C27/C28 and others).
// One Step() = one operation chosen by the choice source:
//   submit a generated transaction/package | boundary entry followed by a reorg | mine a block from a pool subset + non-pool
//   (conflicting) transactions | InvalidateBlock depth 1-3 | competing longer branch | reconsider | mock-time jump (+Expire) |
//   PrioritiseTransaction | TrimToSize | burst of chained submissions.
// After every operation the driver calls ms.Sync() (so ms.LastSnap()/Belief() describe the real pool) and then hooks.check(where).
// Properties plug their oracle into `check`, and may replace the submission itself (`submit_tx`, e.g. test-accept first).
#ifndef VERIF_KITS_MEMPOOLHIST_H
#define VERIF_KITS_MEMPOOLHIST_H

#include <kits/mempoolsim.h>

#include <functional>
#include <string>

namespace verif {

struct HistoryHooks {
    std::string prefix{"hist"};                                  //!< oracle-id prefix for harness-assumption failures ("<prefix>.harness-block-rejected")
    std::function<void(const char* where)> check{};              //!< after every operation (pool already Sync()ed)
    std::function<MempoolAcceptResult(const GenTx&)> submit_tx{}; //!< default: ms.Submit(g.tx)
    std::function<PackageMempoolAcceptResult(const GenTx&)> submit_pkg{}; //!< default: ms.SubmitPackage(g.package)
    std::function<void(const GenTx&, bool all_in_pool)> after_submit{}; //!< after a submission (before Sync)
    std::function<void(const char* what)> before_chain_op{};     //!< before mining / reorg operations
    bool allow_disconnect{true};                                 //!< false: no invalidate / competing branch / reconsider (blocks are only connected)
    bool allow_trim{true};
    bool allow_prioritise{true};
    bool allow_time{true};
};

/** true if the transaction has an enforced nLockTime or a BIP68 relative lock */
bool TxIsTimeSensitive(const CTransaction& tx);

class MempoolHistory
{
public:
    MempoolHistory(MempoolSim& ms, Src& s, Stats& st, HistoryHooks hooks);

    /** mine `blocks` empty blocks so that reorgs of depth 1-3 are possible from the first op on, Sync, check */
    void WarmUp(int blocks = 3);
    /** one operation; returns false when the choice source is exhausted */
    bool Step();
    void Run(unsigned nops) { for (unsigned i = 0; i < nops && Step(); ++i) {} }
    /** mix counters into the shape hash, emit pool-size / summary classes and the summary note */
    void Finish();

    /** submit through the hooks, with class/shape accounting; returns true if everything submitted is in the pool afterwards */
    bool Submit(const GenTx& g);
    /** number of blocks of the chain ending in old_tip that are not on the active chain any more */
    int Disconnected(const uint256& old_tip);

    unsigned submitted{0}, accepted{0}, ops{0};
    int reorgs{0}, maxdepth{0}, blocks_disconnected{0}, blocks_mined{0};
    bool reorg_with_sensitive{false};
    size_t max_pool{0};
    std::optional<MempoolAcceptResult> last_tx_result;          //!< result of the last single-transaction submission

private:
    MempoolSim& ms;
    Src& s;
    Stats& st;
    HistoryHooks hooks;
    void AfterOp(const char* where);
    bool PoolHasSensitive();
    bool SensitiveInTipBlocks(int depth);
    void NoteReorg(int depth, bool sensitive_before);
    void DoInvalidate(int depth);
};

/** The C22 configuration space: cluster-count limit 2..64, optional 1 MB -maxmempool / 1 h expiry / small cluster size. */
MempoolSimOpts PickHistoryConfig(Src& s, Stats& st);

uint64_t StrHash(const std::string& r);

} // namespace verif

#endif // VERIF_KITS_MEMPOOLHIST_H
