// C31 — Block subsidy follows the 21 million schedule.
// Oracle: closed-form subsidy (own formula on unsigned 128-bit), monotonicity, total over all heights < 21M BTC.
#include <engine/verif.h>

#include <chainparams.h>
#include <common/args.h>
#include <consensus/params.h>
#include <kernel/chainparams.h>
#include <util/chaintype.h>
#include <validation.h>

#include <memory>
#include <set>
#include <vector>

namespace {
struct ChainP { std::string name; std::unique_ptr<const CChainParams> params; int interval; };
std::vector<ChainP> g_chains;
std::vector<size_t> g_distinct; // index of first chain per distinct halving interval

void init_chains()
{
    ArgsManager args;
    for (auto [name, type] : {std::pair{"main", ChainType::MAIN}, std::pair{"testnet3", ChainType::TESTNET}, std::pair{"testnet4", ChainType::TESTNET4},
                              std::pair{"signet", ChainType::SIGNET}, std::pair{"regtest", ChainType::REGTEST}}) {
        auto p = CreateChainParams(args, type);
        int iv = p->GetConsensus().nSubsidyHalvingInterval;
        g_chains.push_back({name, std::move(p), iv});
    }
    std::set<int> seen;
    for (size_t i = 0; i < g_chains.size(); ++i) if (seen.insert(g_chains[i].interval).second) g_distinct.push_back(i);
}

constexpr unsigned __int128 REF_COIN = 100000000;
constexpr unsigned __int128 REF_21M = (unsigned __int128)21000000 * REF_COIN;

/** statement: 50 BTC shifted right once per completed halving interval, zero from the 64th halving on */
int64_t ref_subsidy(int64_t height, int64_t interval)
{
    int64_t halvings = height / interval;
    if (halvings >= 64) return 0;
    unsigned __int128 v = 50 * REF_COIN;
    for (int64_t k = 0; k < halvings; ++k) v /= 2;
    return int64_t(v);
}

/** closed-form total over heights [0, 2^31) */
unsigned __int128 ref_total(int64_t interval)
{
    unsigned __int128 total = 0;
    int64_t h = 0;
    const int64_t END = int64_t{1} << 31;
    for (int era = 0; h < END; ++era) {
        int64_t n = std::min<int64_t>(interval, END - h);
        total += (unsigned __int128)n * (unsigned __int128)ref_subsidy(h, interval);
        h += n;
        if (era > 70 && ref_subsidy(h, interval) == 0) break;
    }
    return total;
}
} // namespace

// Exhaustive: every height 0 .. 2^31-1 for every distinct halving interval among the built-in chains (chunks of 2^20 heights).
VERIF_TARGET(c31_all_heights, init_chains, 0, 8,
             "exhaustive: every non-negative 32-bit height for each distinct halving interval of the built-in chains "
             "(main/testnet3/testnet4/signet/regtest), in chunks of 2^20 heights; per height: value == closed form, value <= value(h-1); "
             "per chunk: sum == closed-form sum; per interval: closed-form total over all heights < 21,000,000 BTC; "
             "non-trivial chunk = contains a halving boundary or the 64th-halving cut-off")
{
    const uint64_t CHUNKS = uint64_t{1} << 11; // 2^31 / 2^20
    const uint64_t TOTAL = CHUNKS * g_distinct.size();
    verif::set_enum_total(TOTAL);
    int64_t idx = verif::enum_index();
    if (idx < 0) idx = int64_t(s.range<uint64_t>(0, TOTAL - 1));
    if (uint64_t(idx) >= TOTAL) return;
    const ChainP& c = g_chains[g_distinct[uint64_t(idx) / CHUNKS]];
    const Consensus::Params& cp = c.params->GetConsensus();
    const int64_t iv = c.interval;
    int64_t lo = int64_t(uint64_t(idx) % CHUNKS) << 20, hi = lo + (int64_t{1} << 20);
    if (lo == 0) {
        unsigned __int128 tot = ref_total(iv);
        VCHECK(tot < REF_21M, "c31.total", "closed-form total >= 21M BTC for chain", c.name, "interval", iv);
        // every built-in chain (not only the distinct intervals) agrees at a few heights
        for (auto& o : g_chains) for (int h : {0, 1, o.interval - 1, o.interval, 2 * o.interval, 64 * o.interval - 1})
            VCHECK(GetBlockSubsidy(h, o.params->GetConsensus()) == ref_subsidy(h, o.interval), "c31.value", "chain", o.name, "h", h);
    }
    int64_t prev = lo == 0 ? INT64_MAX : GetBlockSubsidy(int(lo - 1), cp);
    unsigned __int128 sum = 0, refsum = 0;
    bool boundary = false;
    for (int64_t h = lo; h < hi; ++h) {
        int64_t v = GetBlockSubsidy(int(h), cp);
        int64_t r = ref_subsidy(h, iv);
        if (v != r) verif::fail("c31.value", "chain " + c.name + " height " + std::to_string(h) + " impl " + std::to_string(v) + " ref " + std::to_string(r));
        if (v > prev) verif::fail("c31.monotone", "chain " + c.name + " height " + std::to_string(h) + " subsidy increases");
        if (h % iv == 0 && h / iv <= 64) boundary = true;
        prev = v;
        sum += (unsigned __int128)v;
        refsum += (unsigned __int128)r;
    }
    VCHECK(sum == refsum, "c31.sum", "chunk sum mismatch");
    st.steps += uint64_t(hi - lo);
    st.mix(uint64_t(idx));
    st.nontrivial = boundary;
    st.cls(boundary ? "chunk-with-boundary" : "chunk-flat");
    st.note("chain=", c.name, " interval=", iv, " heights=[", lo, ",", hi, ") boundary=", boundary, " chunk_sum_sat=", uint64_t(sum));
}

// Sampled: heights within +-3 of every halving boundary (first 70 eras), int32 extremes, random heights.
VERIF_TARGET(c31_boundaries, init_chains, 8, 32,
             "generated: chain x (halving boundary k*interval +- 0..3 for k in 0..70 | 2^31-1 region | random height); value == closed form and "
             "non-increasing vs h-1; non-trivial = height within +-3 of a halving boundary with k<=64; distinct = (interval, k, delta)")
{
    const ChainP& c = g_chains[s.index(g_chains.size())];
    const int64_t iv = c.interval;
    int64_t h;
    unsigned mode = s.range<unsigned>(0, 3);
    int64_t k = -1, d = 0;
    if (mode <= 1) {
        k = s.range<int64_t>(0, 70); d = s.range<int64_t>(-3, 3);
        h = k * iv + d;
    } else if (mode == 2) {
        h = INT32_MAX - s.range<int64_t>(0, 1000);
    } else {
        h = s.range<int64_t>(0, INT32_MAX);
    }
    if (h < 0) h = 0;
    if (h > INT32_MAX) h = INT32_MAX;
    int64_t v = GetBlockSubsidy(int(h), c.params->GetConsensus());
    int64_t r = ref_subsidy(h, iv);
    st.steps++;
    st.note("chain=", c.name, " h=", h, " impl=", v, " ref=", r);
    VCHECK(v == r, "c31.value", "chain", c.name, "h", h, "impl", v, "ref", r);
    if (h > 0) VCHECK(GetBlockSubsidy(int(h - 1), c.params->GetConsensus()) >= v, "c31.monotone", "chain", c.name, "h", h);
    st.nontrivial = (k >= 0 && k <= 64);
    st.mix(uint64_t(iv)); st.mix(uint64_t(k)); st.mix(uint64_t(d)); st.mix(uint64_t(mode));
    st.cls(st.nontrivial ? "near-halving" : "other");
}
