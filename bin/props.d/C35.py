# C35: stage list (what ./check C35 quick|thorough runs) and manifest text. Helpers gen()/enum()/hyp()/custom() come from props.py.
SPEC = {'level': 'exploration',
 'assumptions': ['global limits as documented in txorphanage.h: total latency score (announcements + inputs/10 per unique orphan) <= MaxGlobalLatencyScore, '
                 'total deduplicated usage (weight) <= reserved-per-peer x number of peers with announcements; per-peer share = MaxGlobalLatencyScore / peers '
                 'and the reserved usage; "within its share" = latency score and usage both <= share in the state on which limiting runs',
                 'which announcements of over-share peers get evicted is not checked (the model adopts the observed outcome)',
                 'orphanage built with MakeTxOrphanage(latency 12-80, reserved 1.5k-40k) in 11 of 12 cases so that limits are hit by small orphans, production '
                 'limits otherwise; latency limit >= number of peers (a per-peer share of 0 is rejected by an assert in GetDosScore); orphans <= 400,000 weight',
                 'orphan weight computed by own size arithmetic (checked against GetTransactionWeight as a model self-test)'],
 'stages': [gen('vh_c35', 'c35_orphanage', 4000, 80000, min_cases_quick=1000,
                floors={'eviction': 0.5, 'eviction-with-within-share-peer-present': 0.4, 'evicted-announcement-of-multi-announcer-orphan': 0.15,
                        'latency-limit-hit': 0.25, 'usage-limit-hit': 0.3, 'peer-or-block-erase-removed-something': 0.4,
                        'block-erased-multi-announcer-orphan': 0.15, 'reconsider': 0.4, 'production-limits': 0.03},
                rule='operation histories vs announcement-set refinement model; non-trivial = eviction while a within-share peer held announcements and a '
                     'peer/block erase that removed something'),
            gen('vh_c35', 'up_txorphan', 1500, 40000, rule="upstream fuzz target 'txorphan'; supplementary"),
            gen('vh_c35', 'up_txorphan_protected', 400, 12000, rule="upstream fuzz target 'txorphan_protected' (honest peers within limits keep their orphans); supplementary"),
            gen('vh_c35', 'up_txorphanage_sim', 1000, 30000, rule="upstream fuzz target 'txorphanage_sim' (its own simulation model); supplementary"),
        # coverage-guided libFuzzer campaign on the same target (thorough tier only; fz tree = g++ trace-pc + covshim)
        fuzz('vh_c35', 'c35_orphanage', 300, max_len=900),
    ]}

META = {'level_text': 'Generated operation histories (4k per quick run, up to 250 operations over up to 10 peers, one favoured "whale" peer) against an announcement-set '
               'reference model: after every operation the observed announcement set must be a subset of the set the explicit effect produces, equal to it '
               'when no global limit is exceeded (peer/block erase remove exactly the affected announcements), within the global latency/usage limits, and '
               'no peer within its per-peer share may have lost an announcement; all documented counters, HaveTx/HaveTxFromPeer, work-set assignment and '
               'SanityCheck are compared as well. Exploration over bounded histories, mostly with scaled-down limits.',
 'technique': 'stateful property-based testing: operation histories vs independent announcement-set model (refinement: nondeterministic eviction choice is '
              'observed and constrained), internal SanityCheck; three upstream txorphan fuzz targets as supplementary stages',
 'level_note': 'trusted base: the set model and its weight/latency arithmetic (~120 lines).'}
