# C27: stage list (what ./check C27 quick|thorough runs) and manifest text. Helpers gen()/enum()/hyp()/custom() come from props.py.
SPEC = {'level': 'exploration',
 'assumptions': ['standardness enforced (default policy); limits: pool 200 kB (cluster size 5 kvB, via CTxMemPool::Options) / 1 MB (25 kvB) / default, cluster count 2,3,5,9,24,64',
                 'cluster size is compared in sigop-adjusted weight units (4 x configured vbytes) with own weight and sigop counters; memory usage is the node\'s own DynamicMemoryUsage() read right after the submission',
                 'evicted feerate = aggregate (modified fee / vsize) of all transactions removed with reason SIZELIMIT by the submission: a weighted mean of the evicted chunk feerates, so the check is implied by the statement for any chunking',
                 'TRUC clauses only in histories without any block disconnection; dust clauses only for transactions accepted through submissions (not reorg handling), dust threshold by own formula at 3000 sat/kvB'],
 'stages': [{'kind': 'gen',
             'binary': 'vh_c27',
             'target': 'c27_limits',
             'cases_quick': 400,
             'cases_thorough': 5000,
             'min_cases_quick': 60,
             'max_seconds_quick': 600,
             'max_seconds_thorough': 14400,
             'floors': {'eviction-for-space': 0.15, 'usage>=90%': 0.15, 'truc-pair-in-pool': 0.3, 'dust-spent-by-child': 0.15, 'dusty-tx-accepted': 0.15, 'cluster-at-count-limit': 0.08, 'filler-burst': 0.5,
                        'no-disconnection-history': 0.6, 'dust-with-priority-op': 0.4, 'dust-delta-on-zero-fee': 0.15, 'dust-base-fee-hidden-by-delta': 0.03, 'replacement-happened': 0.2},
             'rule': 'submission histories under small limits; non-trivial = eviction for space happened, or a TRUC parent/child pair was in the pool, or a dust output was spent by an accepted child'}]}

META = {'level_text': 'Generated submission histories (single transactions and packages, filler bursts of padded transactions until the pool overflows, TRUC parent/child/sibling/mixed-version '
               'bursts incl. children at the 1000 vB cap, dusty packages with prioritisation applied before submission, plus the shared mining/reorg/time/prioritise/trim operations) on a '
               'real in-process node with small -maxmempool and cluster limits. Every submission is bracketed by an oracle that recomputes from the pool\'s transaction list: memory usage '
               '<= max, every cluster (own union-find) within count and size, min fee above the evicted feerate after an eviction for space, TRUC topology and size caps (histories without '
               'disconnections), zero-fee/single-dust and dust-spending rules for the transactions accepted by that submission. Exploration over bounded histories and configurations.',
 'technique': 'stateful property-based testing: operation histories under generated limits; invariants recomputed independently (naive pool model, own dust/sigop/weight formulas) after every submission'}
