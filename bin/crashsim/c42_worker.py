#!/usr/bin/env python3
"""C42 crash-image stage: the wallet crash worker of bin/crashsim/c62_worker.py with the 'c42' configuration (workload/recovery targets of vh_c42)."""
import os
import sys

sys.path.insert(0, os.path.dirname(os.path.abspath(__file__)))
import c62_worker  # noqa: E402

if __name__ == "__main__":
    c62_worker.entry("c42")
