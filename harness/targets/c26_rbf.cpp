// C26 — Replacements only happen when they pay for themselves and improve the mempool.
//
// Node-level histories on MempoolSim. EVERY submission (single tx or package) is judged by a model written from the statement:
//   before/after = snapshots of the real pool;  N = transactions that entered,  R = transactions that left.
//   model direct conflicts DC = pool(before) transactions spending an outpoint that a member of N spends (own spender index);
//   model TRUC siblings   SIB = pool(before) children of the in-pool parent of a version-3 member of N.
// If anything entered while conflicting (or anything left):
//   c26.evicted-set     R == descendant-closure_before(DC ∪ (R ∩ SIB)), DC ⊆ R           (exactly conflicts (+ evicted sibling) and descendants)
//   c26.replaced-list   the replaced transactions reported in the accept result(s) == R
//   c26.fee-rule        Σ modified fee(N) >= Σ modified fee(R) + ceil(incremental_rate · Σ vsize(N) / 1000)
//   c26.spends-evicted  no member of N spends an output of a member of R
//   c26.cluster-limit   the direct conflicts (incl. sibling) touch <= 100 model clusters (own union-find)
//   c26.diagram         strict feerate-diagram improvement, judged ONLY when every affected cluster before and after is a path (unique
//                       topological order => linearization-independent chunking); own exact (128-bit) diagram comparison; flagged only if the
//                       diagram fails to strictly improve both in weight units and in vsize units
// If nothing entered: c26.rejected-but-changed  the pool's transaction set is unchanged.
// The statement is only-if: a rejection with all model rules satisfied is counted ("conservative-rejection"), never flagged.
// Modified fees are recomputed: own fee (inputs - outputs from the RefLedger UTXO / parent outputs) + the deltas the harness itself applied.
#include <engine/verif.h>
#include <kits/mempoolsim.h>

#include <algorithm>
#include <map>
#include <set>

using namespace verif;

namespace {

using i128 = __int128;

int64_t OwnWeight(const CTransaction& tx) { return int64_t(::GetSerializeSize(TX_NO_WITNESS(tx))) * 3 + int64_t(::GetSerializeSize(TX_WITH_WITNESS(tx))); }

struct TxFacts {
    CAmount modfee{0};   //!< own fee + harness-applied delta
    int64_t adj_weight{0};
    int64_t vsize{0};
};

struct Chunk { i128 fee; i128 size; };

/** chunking of a forced order: merge a chunk into its predecessor while it has a strictly higher feerate */
std::vector<Chunk> ChainChunks(const std::vector<Chunk>& in_order)
{
    std::vector<Chunk> out;
    for (const Chunk& c : in_order) {
        out.push_back(c);
        while (out.size() >= 2) {
            const Chunk& b = out[out.size() - 1];
            const Chunk& a = out[out.size() - 2];
            if (b.fee * a.size > a.fee * b.size) {
                Chunk m{a.fee + b.fee, a.size + b.size};
                out.pop_back(); out.pop_back(); out.push_back(m);
            } else break;
        }
    }
    return out;
}

struct Diagram {
    std::vector<Chunk> chunks; //!< sorted by feerate, highest first
    void Sort() { std::stable_sort(chunks.begin(), chunks.end(), [](const Chunk& a, const Chunk& b) { return a.fee * b.size > b.fee * a.size; }); }
    i128 Total() const { i128 t = 0; for (const auto& c : chunks) t += c.size; return t; }
    /** value at x as a fraction num/den (den > 0): piecewise linear through the cumulative points, horizontal after the last */
    void At(i128 x, i128& num, i128& den) const
    {
        i128 fa = 0, sa = 0;
        for (const auto& c : chunks) {
            if (x >= sa + c.size) { fa += c.fee; sa += c.size; continue; }
            num = fa * c.size + (x - sa) * c.fee; den = c.size; return;
        }
        num = fa; den = 1;
    }
};

/** +1: a strictly better than b (>= everywhere, > somewhere); 0: equal; -1: a worse somewhere */
int CompareDiagrams(const Diagram& a, const Diagram& b)
{
    std::set<i128> xs;
    for (const Diagram* d : {&a, &b}) { i128 acc = 0; for (const auto& c : d->chunks) { acc += c.size; xs.insert(acc); } }
    bool better = false;
    for (i128 x : xs) {
        i128 na, da, nb, db;
        a.At(x, na, da); b.At(x, nb, db);
        const i128 l = na * db, r = nb * da;
        if (l < r) return -1;
        if (l > r) better = true;
    }
    return better ? 1 : 0;
}

/** if every tx of the component has <= 1 in-pool parent and <= 1 child: its unique topological order */
std::optional<std::vector<Txid>> PathOrder(const ModelPool& m, const std::vector<Txid>& comp)
{
    Txid head; bool have_head = false;
    for (const auto& t : comp) {
        if (m.parents.at(t).size() > 1 || m.children.at(t).size() > 1) return std::nullopt;
        if (m.parents.at(t).empty()) { if (have_head) return std::nullopt; head = t; have_head = true; }
    }
    if (!have_head) return std::nullopt;
    std::vector<Txid> order;
    Txid cur = head;
    while (true) {
        order.push_back(cur);
        const auto& ch = m.children.at(cur);
        if (ch.empty()) break;
        cur = *ch.begin();
        if (order.size() > comp.size()) return std::nullopt;
    }
    if (order.size() != comp.size()) return std::nullopt;
    return order;
}

struct Verdict {
    std::set<Txid> dc, sibs, D;
    CAmount evicted_fee{0}, new_fee{0}, incr_fee{0};
    int64_t new_vsize{0};
    bool fee_ok{false};
    bool spends_evicted{false};
    size_t nclusters{0};
    bool diagram_decidable{false};
    int diagram_w{0}, diagram_v{0};
    bool AllOk() const { return fee_ok && !spends_evicted && nclusters <= 100 && (!diagram_decidable || diagram_w > 0 || diagram_v > 0); }
};

struct Harness {
    MempoolSim& ms;
    Stats& st;
    CAmount incr_per_kvb;
    Harness(MempoolSim& m, Stats& stats, CAmount incr) : ms(m), st(stats), incr_per_kvb(incr) {}
    std::map<Txid, CAmount> my_deltas;      //!< every PrioritiseTransaction the harness made (cumulative)
    int accepted_repl{0}, rule_rejected{0}, max_evicted{0}, boundary_hits{0}, decidable_accepts{0};

    CAmount OwnFee(const CTransaction& tx, const std::map<Txid, CTransactionRef>& extra)
    {
        i128 in = 0, out = 0;
        for (const auto& i : tx.vin) {
            auto e = extra.find(i.prevout.hash);
            if (e != extra.end() && i.prevout.n < e->second->vout.size()) { in += e->second->vout[i.prevout.n].nValue; continue; }
            auto c = ms.LookupCoin(i.prevout);
            VCHECK(c.has_value(), "c26.harness", "cannot resolve input", i.prevout.ToString());
            in += c->value;
        }
        for (const auto& o : tx.vout) out += o.nValue;
        return CAmount(in - out);
    }

    TxFacts Facts(const CTransaction& tx, int64_t sigop_cost, const std::map<Txid, CTransactionRef>& extra)
    {
        TxFacts f;
        f.modfee = OwnFee(tx, extra);
        auto d = my_deltas.find(tx.GetHash());
        if (d != my_deltas.end()) f.modfee += d->second;
        f.adj_weight = std::max<int64_t>(OwnWeight(tx), sigop_cost * 20);
        f.vsize = (f.adj_weight + 3) / 4;
        return f;
    }

    void Prioritise(const Txid& t, CAmount delta)
    {
        ms.Prioritise(t, delta);
        my_deltas[t] += delta;
    }

    /** Evaluate the statement's rules for "N enters, D leaves" against the pool before. sigops: per new tx (0 if unknown). */
    Verdict Judge(const PoolSnap& before, const ModelPool& mb, const std::vector<CTransactionRef>& N, const std::map<Txid, int64_t>& sigops,
                  const std::set<Txid>& dc, const std::set<Txid>& sibs, const std::set<Txid>& D)
    {
        Verdict v;
        v.dc = dc; v.sibs = sibs; v.D = D;
        std::map<Txid, CTransactionRef> nmap;
        for (const auto& t : N) nmap[t->GetHash()] = t;
        std::map<Txid, TxFacts> facts; // before-pool + new
        for (const auto& [id, e] : before.entries) facts[id] = Facts(*e.tx, e.sigop_cost, {});
        for (const auto& t : N) {
            auto so = sigops.find(t->GetHash());
            facts[t->GetHash()] = Facts(*t, so == sigops.end() ? 0 : so->second, nmap);
        }
        for (const auto& d : D) v.evicted_fee += facts.at(d).modfee;
        for (const auto& t : N) { v.new_fee += facts.at(t->GetHash()).modfee; v.new_vsize += facts.at(t->GetHash()).vsize; }
        v.incr_fee = CAmount((i128(incr_per_kvb) * v.new_vsize + 999) / 1000);
        v.fee_ok = i128(v.new_fee) >= i128(v.evicted_fee) + v.incr_fee;
        for (const auto& t : N) for (const auto& i : t->vin) if (D.count(i.prevout.hash)) v.spends_evicted = true;
        // clusters touched by the direct conflicts (incl. sibling)
        const auto clusters_before = mb.Clusters();
        std::map<Txid, size_t> cluster_of;
        for (size_t k = 0; k < clusters_before.size(); ++k) for (const auto& t : clusters_before[k]) cluster_of[t] = k;
        std::set<size_t> touched;
        for (const auto& t : dc) touched.insert(cluster_of.at(t));
        for (const auto& t : sibs) if (D.count(t)) touched.insert(cluster_of.at(t));
        v.nclusters = touched.size();
        // diagram: affected clusters before = clusters holding a member of D or an in-pool parent of a member of N
        std::set<size_t> affected = touched;
        for (const auto& d : D) affected.insert(cluster_of.at(d));
        for (const auto& t : N) for (const auto& i : t->vin) { auto it = cluster_of.find(i.prevout.hash); if (it != cluster_of.end()) affected.insert(it->second); }
        if (v.spends_evicted) return v; // no well-defined "after"
        std::vector<CTransactionRef> after_list;
        std::set<Txid> region; // transactions of the affected clusters that stay, plus N
        for (size_t k : affected) for (const auto& t : clusters_before[k]) if (!D.count(t)) { region.insert(t); }
        for (const auto& t : region) after_list.push_back(mb.txs.at(t));
        for (const auto& t : N) { after_list.push_back(t); region.insert(t->GetHash()); }
        const ModelPool ma = ModelPool::From(after_list);
        bool decidable = true;
        Diagram old_w, new_w, old_v, new_v;
        for (size_t k : affected) {
            auto order = PathOrder(mb, clusters_before[k]);
            if (!order) { decidable = false; break; }
            std::vector<Chunk> cw, cv;
            for (const auto& t : *order) { cw.push_back({facts.at(t).modfee, facts.at(t).adj_weight}); cv.push_back({facts.at(t).modfee, facts.at(t).vsize}); }
            for (const auto& c : ChainChunks(cw)) old_w.chunks.push_back(c);
            for (const auto& c : ChainChunks(cv)) old_v.chunks.push_back(c);
        }
        if (decidable) {
            for (const auto& comp : ma.Clusters()) {
                auto order = PathOrder(ma, comp);
                if (!order) { decidable = false; break; }
                std::vector<Chunk> cw, cv;
                for (const auto& t : *order) { cw.push_back({facts.at(t).modfee, facts.at(t).adj_weight}); cv.push_back({facts.at(t).modfee, facts.at(t).vsize}); }
                for (const auto& c : ChainChunks(cw)) new_w.chunks.push_back(c);
                for (const auto& c : ChainChunks(cv)) new_v.chunks.push_back(c);
            }
        }
        v.diagram_decidable = decidable;
        if (decidable) {
            old_w.Sort(); new_w.Sort(); old_v.Sort(); new_v.Sort();
            v.diagram_w = CompareDiagrams(new_w, old_w);
            v.diagram_v = CompareDiagrams(new_v, old_v);
        }
        return v;
    }

    static std::set<Txid> ClosureOf(const ModelPool& m, const std::set<Txid>& roots)
    {
        std::set<Txid> out;
        for (const auto& r : roots) for (const auto& d : m.Descendants(r)) out.insert(d);
        return out;
    }

    struct Outcome { bool any_entered{false}; bool conflicting{false}; Verdict v; size_t evicted{0}; bool sibling_evicted{false}; std::string reason; };

    /** Submit (single tx, or package if txs.size() > 1 or force_package) from a synced state, then judge. */
    Outcome SubmitAndJudge(const std::vector<CTransactionRef>& txs, bool as_package, const std::string& what)
    {
        Outcome oc;
        const PoolSnap before = ms.LastSnap();
        const ModelPool mb = ModelPool::From(before.Txs());
        std::set<Txid> reported;
        size_t reported_count = 0;
        std::string res_str;
        if (as_package) {
            auto r = ms.SubmitPackage(txs);
            for (const auto& [w, tr] : r.m_tx_results) {
                if (tr.m_result_type != MempoolAcceptResult::ResultType::VALID) continue;
                for (const auto& rt : tr.m_replaced_transactions) { reported.insert(rt->GetHash()); reported_count++; }
            }
            res_str = PkgStateStr(r);
            oc.reason = r.m_state.GetRejectReason();
            for (const auto& [w, tr] : r.m_tx_results) if (tr.m_result_type == MempoolAcceptResult::ResultType::INVALID) oc.reason += "/" + tr.m_state.GetRejectReason();
        } else {
            auto r = ms.Submit(txs[0]);
            if (r.m_result_type == MempoolAcceptResult::ResultType::VALID) for (const auto& rt : r.m_replaced_transactions) { reported.insert(rt->GetHash()); reported_count++; }
            res_str = TxStateStr(r);
            oc.reason = r.m_state.GetRejectReason();
        }
        const PoolSnap& after = ms.Sync();
        st.steps++;
        std::set<Txid> R, added;
        for (const auto& [id, e] : before.entries) if (!after.entries.count(id)) R.insert(id);
        for (const auto& [id, e] : after.entries) if (!before.entries.count(id)) added.insert(id);
        std::vector<CTransactionRef> N;
        std::map<Txid, int64_t> sigops;
        for (const auto& t : txs) if (added.count(t->GetHash())) { N.push_back(t); sigops[t->GetHash()] = after.entries.at(t->GetHash()).sigop_cost; }
        VCHECK(N.size() == added.size(), "c26.rejected-but-changed", what, "transactions entered the pool that were not submitted:", added.size(), "vs", N.size());
        oc.any_entered = !N.empty();
        // model conflicts of the submitted transactions (for classification) and of the entered ones (for the verdict)
        auto direct_conflicts = [&](const std::vector<CTransactionRef>& list) {
            std::set<Txid> dc;
            for (const auto& t : list) for (const auto& i : t->vin) {
                auto it = mb.spenders.find(i.prevout);
                if (it != mb.spenders.end()) for (const auto& sp : it->second) dc.insert(sp);
            }
            return dc;
        };
        auto siblings = [&](const std::vector<CTransactionRef>& list) {
            std::set<Txid> sb;
            for (const auto& t : list) {
                if (t->version != 3) continue;
                for (const auto& i : t->vin) if (mb.Has(i.prevout.hash)) for (const auto& c : mb.children.at(i.prevout.hash)) sb.insert(c);
            }
            return sb;
        };
        const std::set<Txid> dc_sub = direct_conflicts(txs);
        oc.conflicting = !dc_sub.empty();
        Note(st, what, " -> ", res_str, " removed=", R.size(), " entered=", N.size());
        if (N.empty()) {
            VCHECK(R.empty(), "c26.rejected-but-changed", what, "nothing was accepted but", R.size(), "pool transactions disappeared; result", res_str);
            // classification of the rejection: would the model have allowed it?
            const std::set<Txid> sb = siblings(txs);
            if (!dc_sub.empty() || !sb.empty()) {
                // the sibling is part of the model's eviction set only if no descendant of the TRUC parent is a direct conflict
                std::set<Txid> roots = dc_sub;
                bool sib_used = false;
                for (const auto& x : sb) if (!ClosureOf(mb, dc_sub).count(x)) { roots.insert(x); sib_used = true; }
                bool resolvable = true; // a package child may spend a rejected parent: treat the whole list as N
                for (const auto& t : txs) for (const auto& i : t->vin) {
                    bool in_list = false;
                    for (const auto& u : txs) if (u->GetHash() == i.prevout.hash) in_list = true;
                    if (!in_list && !ms.LookupCoin(i.prevout)) resolvable = false;
                }
                if (resolvable && !roots.empty()) {
                    const std::set<Txid> D = ClosureOf(mb, roots);
                    oc.v = Judge(before, mb, txs, {}, dc_sub, sib_used ? sb : std::set<Txid>{}, D);
                    oc.evicted = D.size();
                    if (!oc.v.AllOk()) {
                        rule_rejected++;
                        st.cls("rejected:model-rule-violated");
                        if (!oc.v.fee_ok) st.cls("rejected:fee-rule");
                        if (oc.v.spends_evicted) st.cls("rejected:spends-evicted");
                        if (oc.v.nclusters > 100) st.cls("rejected:clusters>100");
                        if (oc.v.fee_ok && !oc.v.spends_evicted && oc.v.diagram_decidable && oc.v.diagram_w <= 0 && oc.v.diagram_v <= 0) st.cls("rejected:diagram-only");
                    } else {
                        st.cls("conservative-rejection");
                        if (oc.v.diagram_decidable) st.cls("conservative-rejection:diagram-decidable");
                    }
                    const i128 margin = i128(oc.v.new_fee) - i128(oc.v.evicted_fee) - oc.v.incr_fee;
                    if (margin == -1) { st.cls("fee=thr-1:rejected"); boundary_hits++; }
                    if (margin == 0) st.cls("fee=thr:rejected");
                    if (margin == 1) st.cls("fee=thr+1:rejected");
                }
            }
            return oc;
        }
        // something entered
        const std::set<Txid> dc = direct_conflicts(N);
        const std::set<Txid> sb = siblings(N);
        if (dc.empty() && R.empty()) return oc; // not a replacement
        std::set<Txid> roots = dc;
        for (const auto& x : sb) if (R.count(x)) { roots.insert(x); oc.sibling_evicted = oc.sibling_evicted || !ClosureOf(mb, dc).count(x); }
        const std::set<Txid> want = ClosureOf(mb, roots);
        for (const auto& t : dc) VCHECK(R.count(t), "c26.evicted-set", what, "direct conflict", t.ToString(), "is still in the pool after the replacement was accepted");
        VCHECK(R == want, "c26.evicted-set", what, "evicted", R.size(), "transactions but direct conflicts (+sibling) and their descendants are", want.size(),
               "direct", dc.size(), "result", res_str);
        VCHECK(reported == R && reported_count == R.size(), "c26.replaced-list", what, "accept result reports", reported_count, "replaced transactions, pool lost", R.size());
        oc.v = Judge(before, mb, N, sigops, dc, sb, R);
        oc.evicted = R.size();
        const Verdict& v = oc.v;
        VCHECK(v.fee_ok, "c26.fee-rule", what, "accepted with modified fees", v.new_fee, "< evicted modified fees", v.evicted_fee, "+ incremental fee", v.incr_fee,
               "for vsize", v.new_vsize, "evicted", R.size());
        VCHECK(!v.spends_evicted, "c26.spends-evicted", what, "an accepted transaction spends an output of a transaction it evicted");
        VCHECK(v.nclusters <= 100, "c26.cluster-limit", what, "accepted although the direct conflicts touch", v.nclusters, "clusters");
        if (v.diagram_decidable) {
            st.steps++;
            decidable_accepts++;
            st.cls("accepted:diagram-decidable");
            VCHECK(v.diagram_w > 0 || v.diagram_v > 0, "c26.diagram", what, "accepted although the feerate diagram of the affected (path-shaped) clusters does not strictly improve: weight-units",
                   v.diagram_w, "vsize-units", v.diagram_v, "new fee", v.new_fee, "vsize", v.new_vsize, "evicted fee", v.evicted_fee, "evicted", R.size());
        }
        accepted_repl++;
        max_evicted = std::max<int>(max_evicted, int(R.size()));
        st.cls("accepted-replacement");
        if (R.size() >= 2) st.cls("accepted:evicted>=2");
        if (R.size() >= 4) st.cls("accepted:evicted>=4");
        if (dc.size() >= 2) st.cls("accepted:direct-conflicts>=2");
        if (oc.sibling_evicted) st.cls("accepted:sibling-eviction");
        if (N.size() >= 2) st.cls("accepted:package-rbf");
        for (const auto& d : R) if (my_deltas.count(d) && my_deltas[d] != 0) { st.cls("accepted:prioritised-victim"); break; }
        for (const auto& t : N) if (my_deltas.count(t->GetHash()) && my_deltas[t->GetHash()] != 0) { st.cls("accepted:prioritised-candidate"); break; }
        const i128 margin = i128(v.new_fee) - i128(v.evicted_fee) - v.incr_fee;
        if (margin == 0) { st.cls("fee=thr:accepted"); boundary_hits++; }
        if (margin == 1) { st.cls("fee=thr+1:accepted"); boundary_hits++; }
        st.mix(uint64_t(R.size()));
        st.mix(uint64_t(dc.size()));
        return oc;
    }
};

int64_t VSizeOf(const CTransaction& tx) { return (OwnWeight(tx) + 3) / 4; }

CTxOut Padding(size_t bytes)
{
    CScript sc;
    sc << OP_RETURN;
    std::vector<unsigned char> data(bytes, 0x6b);
    sc << data;
    return CTxOut(0, sc);
}

uint64_t ReasonHash(const std::string& r)
{
    uint64_t h = 1469598103934665603ULL;
    for (unsigned char c : r) { h ^= c; h *= 1099511628211ULL; }
    return h;
}

/** pick an element index among those satisfying pred (nullptr if none) */
template <typename P>
const Spendable* PickSp(Src& s, const std::vector<Spendable>& v, P pred, bool prefer_late = false)
{
    std::vector<size_t> idx;
    for (size_t i = 0; i < v.size(); ++i) if (pred(v[i])) idx.push_back(i);
    if (idx.empty()) return nullptr;
    size_t j = (prefer_late && s.chance(160)) ? idx.size() - 1 - s.index(std::min<size_t>(idx.size(), 4)) : s.index(idx.size());
    return &v[idx[j]];
}

} // namespace

VERIF_TARGET(c26_rbf, nullptr, 128, 1400,
             "a regtest node (MempoolSim; incremental relay fee 100 or 1000 sat/kvB, cluster-count limit 64 or 6) is filled with 3-14 generated transactions (plain, chains, merges, "
             "TRUC parents/children, CPFP packages, prioritised entries); then 3-10 replacement attempts: candidates double-spending 1-3 pool transactions (optionally with a fresh "
             "confirmed input, an unconfirmed input of an unrelated pool tx, or an output of a transaction they would evict), TRUC sibling-eviction candidates, 1-parent-1-child "
             "package RBF, candidates prioritised before submission; the fee is set to the model threshold (sum of evicted modified fees + incremental fee for the own size) "
             "+ {-1,0,+1}, generous, padded to a lower feerate than the victims (diagram clause) or at the single-victim diagram threshold +-1. Every submission is judged by the "
             "model (see file header). non-trivial = >=1 accepted replacement evicting >=2 transactions AND >=1 candidate rejected that violates a model rule; distinct = candidate "
             "modes, fee modes, outcomes, evicted/conflict counts")
{
    MempoolSimOpts o;
    const unsigned cfg = s.range<unsigned>(0, 3);
    CAmount incr = 100;
    if (cfg == 1) { o.extra_args.push_back("-incrementalrelayfee=0.00001"); incr = 1000; }
    if (cfg == 2) o.extra_args.push_back("-limitclustercount=6");
    o.with_mempool_checks = cfg != 3;
    MempoolSim ms(o);
    {
        LOCK(ms.pool().cs);
        assert(ms.pool().m_opts.incremental_relay_feerate.GetFeePerK() == incr); // harness sanity: the configured rate is the one in force
    }
    Harness h(ms, st, incr);
    st.mix(uint64_t(cfg));
    Note(st, "cfg=", cfg, " incremental=", incr);
    const CAmount minrate = incr; // min relay fee follows the incremental fee when that is larger

    // ---- phase 1: fill the pool
    const unsigned nfill = s.range<unsigned>(3, 14);
    static const GenKind fill_kinds[] = {GenKind::PLAIN, GenKind::CHAIN, GenKind::PLAIN, GenKind::CHAIN, GenKind::CHAIN, GenKind::MERGE, GenKind::TRUC_PARENT,
                                         GenKind::TRUC_CHILD, GenKind::CPFP_PKG, GenKind::TRUC_PARENT, GenKind::CONFLICT, GenKind::TRUC_SIBLING};
    for (unsigned i = 0; i < nfill; ++i) {
        GenTx g = ms.GenOfKind(s, fill_kinds[s.index(std::size(fill_kinds))]);
        if (!g.tx) continue;
        if (!g.package.empty()) h.SubmitAndJudge(g.package, true, std::string("fill pkg ") + g.note);
        else h.SubmitAndJudge({g.tx}, false, std::string("fill ") + GenKindName(g.kind) + " " + g.note);
        if (s.chance(40) && !ms.LastSnap().entries.empty()) {
            auto it = ms.LastSnap().entries.begin();
            std::advance(it, s.index(ms.LastSnap().entries.size()));
            const Txid who = it->first;
            const CAmount delta = s.pick<CAmount>({1000, -300, 25000, -2000, 1});
            h.Prioritise(who, delta);
            ms.Sync();
            st.cls("prioritised-pool-entry");
            Note(st, "prioritise ", who.ToString().substr(0, 8), " ", delta);
        }
    }

    // ---- phase 2: replacement attempts
    const unsigned nattempts = s.range<unsigned>(3, 10);
    for (unsigned a = 0; a < nattempts && !s.exhausted(); ++a) {
        const PoolSnap& snap = ms.LastSnap();
        const ModelPool& mb = ms.Belief();
        std::vector<Spendable> sp = ms.Spendables();
        auto is_victim_op = [&](const Spendable& x) { return x.spent_by.has_value() && (x.unconfirmed || ms.IsMatureAtNext(x.coin)); };
        auto fresh_conf = [&](const Spendable& x) { return !x.unconfirmed && !x.spent_by && !x.coin.coinbase && x.coin.value > 100000; };
        auto fresh_unconf = [&](const Spendable& x) { return x.unconfirmed && !x.spent_by && !ModelIsDust(CTxOut(x.coin.value, x.coin.spk)); };
        const unsigned mode = s.range<unsigned>(0, 9);
        st.mix(uint64_t(100 + mode));
        TxPlan plan;
        std::set<Txid> victims; // model direct conflicts of the candidate being built
        auto add_input = [&](const Spendable* p) {
            if (!p) return false;
            for (const auto& e : plan.inputs) if (e.op == p->op) return false;
            plan.inputs.push_back(*p);
            if (p->spent_by) for (const auto& spn : mb.spenders.at(p->op)) victims.insert(spn);
            return true;
        };
        std::string mode_name;
        bool package_mode = false, sibling_mode = false;
        if (mode <= 1 || mode >= 8) { // one victim outpoint; modes 8,9 prefer victims that have descendants
            mode_name = "single-conflict";
            const Spendable* p = nullptr;
            if (mode >= 8) p = PickSp(s, sp, [&](const Spendable& x) { return is_victim_op(x) && mb.Descendants(*x.spent_by).size() >= 2; });
            if (!p) p = PickSp(s, sp, is_victim_op, true);
            add_input(p);
        } else if (mode == 2) { // two or three victim outpoints, different spenders preferred
            mode_name = "multi-conflict";
            const unsigned n = s.range<unsigned>(2, 3);
            for (unsigned k = 0; k < n; ++k) {
                add_input(PickSp(s, sp, [&](const Spendable& x) {
                    if (!is_victim_op(x)) return false;
                    for (const auto& e : plan.inputs) if (e.op == x.op) return false;
                    return !victims.count(*x.spent_by) || s.chance(32); }));
            }
        } else if (mode == 3) { // victim + fresh confirmed input
            mode_name = "conflict+confirmed";
            add_input(PickSp(s, sp, is_victim_op, true));
            add_input(PickSp(s, sp, fresh_conf));
        } else if (mode == 4) { // victim + unconfirmed output of a pool tx that is not evicted
            mode_name = "conflict+unconfirmed";
            add_input(PickSp(s, sp, is_victim_op, true));
            const std::set<Txid> D = Harness::ClosureOf(mb, victims);
            add_input(PickSp(s, sp, [&](const Spendable& x) { return fresh_unconf(x) && !D.count(x.op.hash); }));
        } else if (mode == 5) { // victim + an output of a transaction that would be evicted
            mode_name = "spends-evicted";
            add_input(PickSp(s, sp, is_victim_op, true));
            const std::set<Txid> D = Harness::ClosureOf(mb, victims);
            add_input(PickSp(s, sp, [&](const Spendable& x) { return fresh_unconf(x) && D.count(x.op.hash); }));
        } else if (mode == 6) { // TRUC sibling eviction: another output of a v3 parent that already has a child
            mode_name = "truc-sibling";
            sibling_mode = true;
            const Spendable* p = PickSp(s, sp, [&](const Spendable& x) {
                return fresh_unconf(x) && mb.txs.at(x.op.hash)->version == 3 && !mb.children.at(x.op.hash).empty(); }, true);
            if (!p) { // make the situation: a v3 parent and a v3 child
                GenTx gp = ms.GenOfKind(s, GenKind::TRUC_PARENT);
                if (gp.tx) { h.SubmitAndJudge({gp.tx}, false, "prep truc parent"); }
                GenTx gc = ms.GenOfKind(s, GenKind::TRUC_CHILD);
                if (gc.tx) { h.SubmitAndJudge({gc.tx}, false, "prep truc child"); }
                sp = ms.Spendables();
                p = PickSp(s, sp, [&](const Spendable& x) {
                    return fresh_unconf(x) && ms.Belief().txs.at(x.op.hash)->version == 3 && !ms.Belief().children.at(x.op.hash).empty(); }, true);
            }
            if (p) {
                add_input(p);
                for (const auto& c : ms.Belief().children.at(p->op.hash)) victims.insert(c);
                if (s.chance(48)) add_input(PickSp(s, sp, fresh_conf));
                if (s.chance(32)) add_input(PickSp(s, sp, is_victim_op)); // plus an ordinary conflict elsewhere
            }
            plan.version = 3;
        } else { // mode 7: 1-parent-1-child package RBF
            mode_name = "package-rbf";
            package_mode = true;
            add_input(PickSp(s, sp, [&](const Spendable& x) { return is_victim_op(x) && !x.unconfirmed; }, true));
            if (s.chance(64)) add_input(PickSp(s, sp, [&](const Spendable& x) { return is_victim_op(x) && !x.unconfirmed; }));
        }
        if (plan.inputs.empty()) { // nothing to conflict with: add something to the pool instead
            GenTx g = ms.GenOfKind(s, GenKind::CHAIN);
            if (g.tx) h.SubmitAndJudge({g.tx}, false, "extra fill " + g.note);
            st.cls("attempt:no-victim-available");
            continue;
        }
        // refresh references (the sibling preparation may have re-synced)
        const PoolSnap& snap2 = ms.LastSnap();
        const ModelPool& mb2 = ms.Belief();
        (void)snap;
        // version: follow unconfirmed parents
        for (const auto& i : plan.inputs) if (i.unconfirmed && mb2.txs.at(i.op.hash)->version == 3) plan.version = 3;
        if (!sibling_mode && plan.version != 3 && s.chance(24)) plan.version = 3;
        const unsigned nout = s.range<unsigned>(1, 2);
        for (unsigned k = 0; k < nout; ++k) plan.change_scripts.push_back(ms.OutScript(s));
        // model eviction set and its modified fees (own fee + harness deltas)
        const std::set<Txid> D = Harness::ClosureOf(mb2, victims);
        CAmount evicted_fee = 0;
        for (const auto& d : D) evicted_fee += h.Facts(*mb2.txs.at(d), snap2.entries.at(d).sigop_cost, {}).modfee;
        // fee mode
        const unsigned fmode = s.range<unsigned>(0, 9);
        st.mix(uint64_t(200 + fmode));
        size_t pad = 0;
        if (fmode == 6 || fmode == 7) pad = s.pick<size_t>({600, 1500, 4000, 9000, 30000});
        if (plan.version == 3 && pad > 0) pad = std::min<size_t>(pad, 600);
        if (pad) plan.fixed_outputs.push_back(Padding(pad));
        CAmount in_total = 0;
        for (const auto& i : plan.inputs) in_total += i.coin.value;

        std::vector<CTransactionRef> submit_list;
        std::string desc;
        if (!package_mode) {
            plan.fee = 1000;
            CTransactionRef probe = ms.Build(plan);
            ms.known_txs.erase(probe->GetHash());
            const int64_t vs = VSizeOf(*probe);
            const CAmount incr_fee = (incr * vs + 999) / 1000;
            CAmount cand_delta = 0;
            const bool prio_candidate = s.chance(28);
            if (prio_candidate) cand_delta = s.pick<CAmount>({500, -500, 7, -7});
            const CAmount thr = evicted_fee + incr_fee - cand_delta; // base fee at which the modified fee meets the rule exactly
            CAmount fee;
            const char* fname;
            switch (fmode) {
            case 0: fee = thr - 1; fname = "thr-1"; break;
            case 1: fee = thr; fname = "thr"; break;
            case 2: fee = thr + 1; fname = "thr+1"; break;
            case 3: fee = thr + s.range<CAmount>(2, 30000); fname = "thr+rand"; break;
            case 4: fee = thr * 3 + 5000; fname = "generous"; break;
            case 5: fee = vs * s.range<CAmount>(1, 3) * minrate / 100; fname = "unrelated-low"; break;
            case 6: fee = thr + s.range<CAmount>(0, 3); fname = "padded-thr"; break;
            case 7: { // single-victim diagram threshold: feerate(T) vs feerate(victim) when T is larger
                fname = "diagram-boundary";
                fee = thr;
                if (D.size() == 1) {
                    const TxFacts vf = h.Facts(*mb2.txs.at(*D.begin()), snap2.entries.at(*D.begin()).sigop_cost, {});
                    const int64_t wt = OwnWeight(*probe);
                    if (vf.modfee > 0 && wt > vf.adj_weight) {
                        const CAmount eq = CAmount((i128(vf.modfee) * wt + vf.adj_weight - 1) / vf.adj_weight); // smallest fee with feerate(T) >= feerate(victim) in weight units
                        fee = std::max<CAmount>(thr, eq - cand_delta + s.range<int>(-1, 1));
                    }
                }
                break;
            }
            case 8: fee = thr + 2; fname = "thr+2"; break;
            default: fee = thr + s.pick<CAmount>({-1, 0, 1}); fname = "thr+-1"; break;
            }
            if (fee < 0) fee = 0;
            if (fee > in_total - 2000) { fee = std::max<CAmount>(0, in_total - 2000); fname = "clamped"; }
            plan.fee = fee;
            CTransactionRef tx = ms.Build(plan);
            if (prio_candidate) { h.Prioritise(tx->GetHash(), cand_delta); ms.Sync(); st.cls("prioritised-candidate"); }
            submit_list = {tx};
            desc = strprintf("attempt %s v%d ins=%d victims=%d D=%d evicted_fee=%d vs=%d thr=%d fee=%s(%d) delta=%d pad=%d", mode_name, plan.version, plan.inputs.size(),
                             victims.size(), D.size(), evicted_fee, vs, thr, fname, fee, cand_delta, pad);
        } else {
            // parent conflicts, pays little; child pays for both
            const CAmount pfee_mode = s.pick<CAmount>({0, 0, 30, 150});
            plan.fixed_outputs.clear();
            plan.fee = 1000;
            CTransactionRef pprobe = ms.Build(plan);
            ms.known_txs.erase(pprobe->GetHash());
            const int64_t pvs = VSizeOf(*pprobe);
            CAmount pfee = pfee_mode == 0 ? 0 : (pvs * pfee_mode * minrate / 100) / 100; // 0, 0.3 or 1.5 x min feerate
            plan.fee = pfee;
            CTransactionRef parent = ms.Build(plan);
            TxPlan cp;
            cp.version = plan.version;
            cp.inputs.push_back(Spendable{COutPoint(parent->GetHash(), 0), RefCoin{parent->vout[0].nValue, parent->vout[0].scriptPubKey, -1, false}, true, std::nullopt});
            bool child_conflicts = false;
            if (s.chance(40)) {
                const Spendable* extra = PickSp(s, sp, [&](const Spendable& x) {
                    if (!(is_victim_op(x) && !x.unconfirmed)) return false;
                    for (const auto& e : plan.inputs) if (e.op == x.op) return false;
                    return true; });
                if (extra) { cp.inputs.push_back(*extra); for (const auto& spn : mb2.spenders.at(extra->op)) victims.insert(spn); child_conflicts = true; }
            }
            const std::set<Txid> D2 = Harness::ClosureOf(mb2, victims);
            CAmount evicted2 = 0;
            for (const auto& d : D2) evicted2 += h.Facts(*mb2.txs.at(d), snap2.entries.at(d).sigop_cost, {}).modfee;
            cp.change_scripts = {ms.OutScript(s)};
            if (pad) cp.fixed_outputs.push_back(Padding(pad));
            cp.fee = 1000;
            CTransactionRef cprobe = ms.Build(cp);
            ms.known_txs.erase(cprobe->GetHash());
            const int64_t cvs = VSizeOf(*cprobe);
            const CAmount thr = evicted2 + (incr * (pvs + cvs) + 999) / 1000 - pfee; // child fee at which the package meets the fee rule exactly
            CAmount cfee;
            const char* fname;
            switch (fmode) {
            case 0: cfee = thr - 1; fname = "thr-1"; break;
            case 1: cfee = thr; fname = "thr"; break;
            case 2: cfee = thr + 1; fname = "thr+1"; break;
            case 3: case 6: case 7: cfee = thr + s.range<CAmount>(2, 30000); fname = "thr+rand"; break;
            case 4: cfee = thr * 3 + 5000; fname = "generous"; break;
            case 5: cfee = cvs * 2 * minrate / 100; fname = "unrelated-low"; break;
            default: cfee = thr + s.pick<CAmount>({-1, 0, 1}); fname = "thr+-1"; break;
            }
            CAmount cin = 0;
            for (const auto& i : cp.inputs) cin += i.coin.value;
            if (cfee < 0) cfee = 0;
            if (cfee > cin - 2000) { cfee = std::max<CAmount>(0, cin - 2000); fname = "clamped"; }
            cp.fee = cfee;
            CTransactionRef child = ms.Build(cp);
            submit_list = {parent, child};
            desc = strprintf("attempt package-rbf v%d victims=%d D=%d evicted_fee=%d pvs=%d cvs=%d parent fee=%d thr=%d child fee=%s(%d) child_conflicts=%d", plan.version,
                             victims.size(), D2.size(), evicted2, pvs, cvs, pfee, thr, fname, cfee, child_conflicts);
        }
        st.cls("attempt:" + mode_name);
        const bool as_pkg = package_mode || (submit_list.size() == 1 && s.chance(24)); // a single tx may also arrive through the package interface
        auto oc = h.SubmitAndJudge(submit_list, as_pkg, desc);
        if (oc.any_entered && (oc.evicted > 0)) st.cls("accepted:" + mode_name);
        st.mix(uint64_t(oc.any_entered ? 1 : 0));
        st.mix(ReasonHash(oc.reason));
    }
    st.nontrivial = h.accepted_repl >= 1 && h.max_evicted >= 2 && h.rule_rejected >= 1;
    if (h.boundary_hits) st.cls("case:fee-boundary-hit");
    if (h.decidable_accepts) st.cls("case:diagram-decidable-accept");
    st.mix(uint64_t(h.accepted_repl));
    Note(st, "accepted replacements=", h.accepted_repl, " rule-violating rejections=", h.rule_rejected, " max evicted=", h.max_evicted);
}

// ------------------------------------------------------------------------------------------------
// Rule #5 boundary: a candidate double-spending k independent pool transactions (k around 100), optionally with two victims joined into one
// cluster by a merging child (so 101 direct conflicts sit in 100 clusters).
VERIF_TARGET(c26_cluster_limit, nullptr, 24, 96,
             "a fan-out transaction with 100-106 outputs is mined; each output is spent by an independent pool transaction (own cluster); optionally one child merges two of them "
             "into one cluster; the candidate double-spends k of them (k in 98..103 relative to the 100-cluster limit) with a fee around the model threshold or generous. Same model "
             "as c26_rbf. non-trivial = the candidate's direct conflicts touch >= 99 clusters; distinct = k, merge, fee mode, outcome")
{
    MempoolSimOpts o;
    o.with_mempool_checks = false;
    o.funding_block = true;
    MempoolSim ms(o);
    Harness h(ms, st, 100);
    // fan-out of a mature coinbase
    // all structural choices first (the buffer is short; per-transaction fees come from one seed byte)
    const unsigned nfan = s.range<unsigned>(100, 106);
    const bool merge = s.boolean();
    const unsigned kpick = s.pick<unsigned>({100, 101, 99, 102, 100, 101, 98, 103});
    const unsigned fmode = s.range<unsigned>(0, 3);
    const unsigned feeseed = s.range<unsigned>(0, 255);
    std::vector<Spendable> sp = ms.Spendables();
    const Spendable* cb = nullptr;
    for (const auto& x : sp) if (!x.unconfirmed && !x.spent_by && x.coin.coinbase && ms.IsMatureAtNext(x.coin)) { cb = &x; break; }
    const Spendable* big = cb;
    if (!big) for (const auto& x : sp) if (!x.unconfirmed && !x.spent_by && x.coin.value > 50'000'000) { big = &x; break; }
    assert(big);
    TxPlan fan;
    fan.inputs = {*big};
    fan.fee = 20000;
    for (unsigned i = 0; i < nfan; ++i) fan.change_scripts.push_back(ms.sim().keys.Script(SpkType::ANYONE_P2WSH));
    CTransactionRef fantx = ms.Build(fan);
    auto mined = ms.MineTxs({fantx});
    assert(mined.became_tip && mined.dropped.empty());
    ms.Sync();
    // one pool transaction per output
    std::vector<Spendable> coins;
    for (uint32_t n = 0; n < fantx->vout.size(); ++n) coins.push_back(Spendable{COutPoint(fantx->GetHash(), n), RefCoin{fantx->vout[n].nValue, fantx->vout[n].scriptPubKey, ms.TipHeight(), false}, false, std::nullopt});
    std::vector<CTransactionRef> pooltx;
    for (const auto& c : coins) {
        TxPlan p;
        p.inputs = {c};
        p.fee = 200 + CAmount(((pooltx.size() + 1) * (feeseed | 1) >> 3) & 3) * 50;
        p.change_scripts = {ms.sim().keys.Script(SpkType::ANYONE_P2WSH)};
        CTransactionRef t = ms.Build(p);
        auto r = ms.Submit(t);
        assert(r.m_result_type == MempoolAcceptResult::ResultType::VALID);
        pooltx.push_back(t);
    }
    ms.Sync();
    if (merge) { // join the first two victims into one cluster
        TxPlan p;
        for (int k = 0; k < 2; ++k) p.inputs.push_back(Spendable{COutPoint(pooltx[k]->GetHash(), 0), RefCoin{pooltx[k]->vout[0].nValue, pooltx[k]->vout[0].scriptPubKey, -1, false}, true, std::nullopt});
        p.fee = 400;
        p.change_scripts = {ms.sim().keys.Script(SpkType::ANYONE_P2WSH)};
        auto oc = h.SubmitAndJudge({ms.Build(p)}, false, "merge child");
        assert(oc.any_entered);
    }
    const unsigned k = std::min<unsigned>(nfan, kpick);
    TxPlan cand;
    for (unsigned i = 0; i < k; ++i) { Spendable x = coins[i]; x.spent_by = pooltx[i]->GetHash(); cand.inputs.push_back(x); }
    cand.change_scripts = {ms.sim().keys.Script(SpkType::ANYONE_P2WSH)};
    std::set<Txid> victims;
    for (unsigned i = 0; i < k; ++i) victims.insert(pooltx[i]->GetHash());
    const std::set<Txid> D = Harness::ClosureOf(ms.Belief(), victims);
    CAmount evicted = 0;
    for (const auto& d : D) evicted += h.Facts(*ms.Belief().txs.at(d), 0, {}).modfee;
    cand.fee = 1000;
    CTransactionRef probe = ms.Build(cand);
    ms.known_txs.erase(probe->GetHash());
    const CAmount thr = evicted + (100 * VSizeOf(*probe) + 999) / 1000;
    cand.fee = fmode == 0 ? thr * 2 + 10000 : fmode == 1 ? thr : fmode == 2 ? thr + 1 : thr - 1;
    CTransactionRef tx = ms.Build(cand);
    const unsigned clusters = k - ((merge && k >= 2) ? 1 : 0);
    auto oc = h.SubmitAndJudge({tx}, false, strprintf("candidate conflicts with %d txs in %d clusters (merge=%d) fee mode %d thr=%d fee=%d", k, clusters, merge, fmode, thr, cand.fee));
    st.cls(strprintf("clusters=%d:%s", clusters, oc.any_entered ? "accepted" : "rejected"));
    if (clusters > 100) st.cls("clusters>100");
    if (clusters == 100) st.cls("clusters==100");
    if (clusters == 100 && k == 101) st.cls("101-conflicts-in-100-clusters");
    if (oc.any_entered) st.cls("accepted");
    st.nontrivial = clusters >= 99;
    st.mix(uint64_t(k)); st.mix(uint64_t(merge)); st.mix(uint64_t(fmode)); st.mix(uint64_t(oc.any_entered));
    st.mix(uint64_t(nfan));
}
