# C65: stage list (what ./check C65 quick|thorough runs) and manifest text. Helpers gen()/enum()/hyp()/custom() come from props.py.
SPEC = {'level': 'exploration',
 'assumptions': ['mock clock (NodeClock via SetMockTime) is the only clock in the verdict; after each mock advance the harness notifies the tip condition variable (a permitted spurious wake-up) '
                 'so that the waiter re-evaluates at once instead of after its 1 s real-time tick',
                 'stamp intervals are conservative: an event counts as possibly inside the wait window unless the global sequence stamps prove otherwise',
                 '"otherwise returns nothing" is read as: nothing is returned only if neither return condition holds; checked only under conditions that are stable from before the wait started',
                 'all pool transactions are independent, final and above the block minimum fee, so a template holds the whole pool (cross-checked with a fresh template before use)',
                 'regtest (test chain: the 20-minute rule is active); a 60 s real-time watchdog only marks a round inconclusive'],
 'stages': [gen('vh_c65', 'c65_waitnext', 400, 12000, min_cases_quick=120, replays_needed=2, replays_total=5,
                floors={'ret:new-tip': 0.2, 'ret:null-interrupt': 0.05, 'ret:same-tip-fees': 0.05, 'ret:same-tip-20min': 0.05, 'event-inside-wait-window': 0.15, 'tip-differed-at-start': 0.1,
                        'fees-cross-2^31-up': 0.03, 'fees-cross-2^31-down': 0.03},
                rule='waiter thread vs driver events under a mock clock; non-trivial = an event provably inside a wait window and >=2 conclusive rounds'),
            gen('vh_c65', 'c65_waitnext_tsan', 24, 2400, cfg='tsan', workers_quick=4, workers_thorough=8, min_cases_quick=8, replays_needed=2, replays_total=5,
                rule='same target in the ThreadSanitizer build (any TSan / lock-order report is a failure)')]}

# ThreadSanitizer stages: they need the tsan tree (build/tsan). bin/setup.sh builds only the san tree and check.py configures/builds a stage's tree on
# demand through its 'cfg' - a cold tsan tree costs 10+ minutes, which a quick tier cannot afford. So the tsan stages run in the THOROUGH tier;
# `VERIF_TSAN_QUICK=1 ./check CNN quick` runs them in the quick tier as well (sized for it: few cases, 4 workers). check.py builds the tree of every
# listed stage whatever its tier, hence the stages are removed from the list (not just tier-tagged) for a plain quick run.
# VERIF_NO_TSAN=1 drops them always (sensitivity runs of mutants that only the differential/log oracle can see).
import os as _os
import sys as _sys
_tier = _sys.argv[2] if len(_sys.argv) > 2 else ''
if _os.environ.get('VERIF_NO_TSAN') or (_tier == 'quick' and not _os.environ.get('VERIF_TSAN_QUICK')):
    SPEC['stages'] = [_st for _st in SPEC['stages'] if _st.get('cfg') != 'tsan']
elif not _os.environ.get('VERIF_TSAN_QUICK'):
    for _st in SPEC['stages']:
        if _st.get('cfg') == 'tsan':
            _st['tiers'] = ('thorough',)

META = {'level_text': 'A waiter thread calls BlockTemplate::waitNext with generated timeouts and fee thresholds on a real in-process regtest node while a driver thread connects blocks, '
               'adds fee-bearing transactions (below / exactly at / above the threshold), interrupts and advances the mock clock in generated orders with seeded gaps. All events '
               'and the wait window are stamped with a global sequence counter; the verdict is a predicate over that log written from the statement (fresh parent, justified same-tip '
               'return, justified null, and non-null under conditions that were stable before the wait started). The same target runs in a ThreadSanitizer build.',
 'technique': 'concurrent property-based testing with an event-log (history) oracle over harness-owned schedules and a mock clock; ThreadSanitizer as monitor',
 'level_note': 'Exploration only: interleavings are sampled through seeded gaps/yields, not enumerated; the OS scheduler is not controlled. Timing never decides a verdict (conservative '
               'stamp intervals, mock clock); real-time tick behaviour without mock time is not covered. Absence of races is evidence from ThreadSanitizer on the executed runs, not a guarantee.'}
