// C32 — Peer transports deliver exactly the messages sent, or detect tampering.
//
// c32_bidirectional : two real transports (v1<->v1, v2<->v2, v1 initiator -> v2 responder fallback) exchange generated
//                     message sequences in both directions; the wire bytes are cut into generated fragments and the two
//                     directions interleaved. Oracle (round trip against the harness' own copy of what was handed to
//                     SetMessageToSend): received (type, payload) sequence == sent sequence, nothing extra, nothing rejected;
//                     v2<->v2: both sides report the same session id.
// c32_tamper        : (v2) a hand-built BIP324 sender (own packet framing / own message-type encoding from the BIP's short-id
//                     table, decoy packets, garbage, version-packet contents) produces a wire stream with a known byte layout;
//                     one byte of it is altered at a generated position class; the stream is fed in fragments to a V2Transport.
//                     Oracle: delivered sequence == exactly the application messages of the packets before the altered one
//                     (a prefix of what was sent; never a different message), session id equal on both ends once the version
//                     packet passed.  (v1) a V1Transport-produced stream with one altered byte is fed to a V1Transport (or a v2
//                     responder in v1 fallback); an own frame walker (24-byte header: magic, type, LE length, checksum) with an
//                     own SHA-256 decides per frame: payload whose double-SHA256 does not start with the header's checksum
//                     must be flagged (reject_message) and every delivered message equals the frame on the wire.
// c32_bulk          : payloads at the 4,000,000-byte protocol limit through v1 and v2 (few cases; big allocations).
//
// Left out (see corpus/C32/SENSITIVITY.md): ciphertext equality with the Python BIP324 implementation (separate E2 check),
// v2 initiator talking to a v1-only responder (reconnect logic, not a delivery claim), insertion/deletion of wire bytes.
#include <engine/verif.h>

#include <bip324.h>
#include <chainparams.h>
#include <key.h>
#include <net.h>
#include <protocol.h>
#include <pubkey.h>
#include <span.h>
#include <util/chaintype.h>

#include <array>
#include <cstring>
#include <deque>
#include <memory>
#include <string>
#include <vector>

namespace {

// ---------------------------------------------------------------- small deterministic PRNG (seeded from the case bytes)
struct Rng {
    uint64_t x;
    explicit Rng(uint64_t seed) : x(seed ^ 0x9e3779b97f4a7c15ULL) {}
    uint64_t next() { uint64_t z = (x += 0x9e3779b97f4a7c15ULL); z = (z ^ (z >> 30)) * 0xbf58476d1ce4e5b9ULL; z = (z ^ (z >> 27)) * 0x94d049bb133111ebULL; return z ^ (z >> 31); }
    uint64_t below(uint64_t n) { return n ? next() % n : 0; }
    void fill(std::vector<uint8_t>& v) { for (size_t i = 0; i < v.size(); i += 8) { uint64_t r = next(); memcpy(v.data() + i, &r, std::min<size_t>(8, v.size() - i)); } }
    std::vector<uint8_t> bytes(size_t n) { std::vector<uint8_t> v(n); fill(v); return v; }
};

// ---------------------------------------------------------------- own SHA-256 (FIPS 180-4), for the v1 checksum reference
struct RefSha256 {
    static uint32_t rotr(uint32_t x, int n) { return (x >> n) | (x << (32 - n)); }
    static std::array<uint8_t, 32> hash(const uint8_t* data, size_t len)
    {
        static const uint32_t K[64] = {
            0x428a2f98, 0x71374491, 0xb5c0fbcf, 0xe9b5dba5, 0x3956c25b, 0x59f111f1, 0x923f82a4, 0xab1c5ed5, 0xd807aa98, 0x12835b01, 0x243185be, 0x550c7dc3,
            0x72be5d74, 0x80deb1fe, 0x9bdc06a7, 0xc19bf174, 0xe49b69c1, 0xefbe4786, 0x0fc19dc6, 0x240ca1cc, 0x2de92c6f, 0x4a7484aa, 0x5cb0a9dc, 0x76f988da,
            0x983e5152, 0xa831c66d, 0xb00327c8, 0xbf597fc7, 0xc6e00bf3, 0xd5a79147, 0x06ca6351, 0x14292967, 0x27b70a85, 0x2e1b2138, 0x4d2c6dfc, 0x53380d13,
            0x650a7354, 0x766a0abb, 0x81c2c92e, 0x92722c85, 0xa2bfe8a1, 0xa81a664b, 0xc24b8b70, 0xc76c51a3, 0xd192e819, 0xd6990624, 0xf40e3585, 0x106aa070,
            0x19a4c116, 0x1e376c08, 0x2748774c, 0x34b0bcb5, 0x391c0cb3, 0x4ed8aa4a, 0x5b9cca4f, 0x682e6ff3, 0x748f82ee, 0x78a5636f, 0x84c87814, 0x8cc70208,
            0x90befffa, 0xa4506ceb, 0xbef9a3f7, 0xc67178f2};
        uint32_t h[8] = {0x6a09e667, 0xbb67ae85, 0x3c6ef372, 0xa54ff53a, 0x510e527f, 0x9b05688c, 0x1f83d9ab, 0x5be0cd19};
        std::vector<uint8_t> m(data, data + len);
        m.push_back(0x80);
        while (m.size() % 64 != 56) m.push_back(0);
        uint64_t bits = uint64_t(len) * 8;
        for (int i = 7; i >= 0; --i) m.push_back(uint8_t(bits >> (8 * i)));
        for (size_t off = 0; off < m.size(); off += 64) {
            uint32_t w[64];
            for (int i = 0; i < 16; ++i) w[i] = (uint32_t(m[off + 4 * i]) << 24) | (uint32_t(m[off + 4 * i + 1]) << 16) | (uint32_t(m[off + 4 * i + 2]) << 8) | m[off + 4 * i + 3];
            for (int i = 16; i < 64; ++i) {
                uint32_t s0 = rotr(w[i - 15], 7) ^ rotr(w[i - 15], 18) ^ (w[i - 15] >> 3);
                uint32_t s1 = rotr(w[i - 2], 17) ^ rotr(w[i - 2], 19) ^ (w[i - 2] >> 10);
                w[i] = w[i - 16] + s0 + w[i - 7] + s1;
            }
            uint32_t a = h[0], b = h[1], c = h[2], d = h[3], e = h[4], f = h[5], g = h[6], hh = h[7];
            for (int i = 0; i < 64; ++i) {
                uint32_t S1 = rotr(e, 6) ^ rotr(e, 11) ^ rotr(e, 25);
                uint32_t ch = (e & f) ^ (~e & g);
                uint32_t t1 = hh + S1 + ch + K[i] + w[i];
                uint32_t S0 = rotr(a, 2) ^ rotr(a, 13) ^ rotr(a, 22);
                uint32_t mj = (a & b) ^ (a & c) ^ (b & c);
                uint32_t t2 = S0 + mj;
                hh = g; g = f; f = e; e = d + t1; d = c; c = b; b = a; a = t1 + t2;
            }
            h[0] += a; h[1] += b; h[2] += c; h[3] += d; h[4] += e; h[5] += f; h[6] += g; h[7] += hh;
        }
        std::array<uint8_t, 32> out;
        for (int i = 0; i < 8; ++i) { out[4 * i] = uint8_t(h[i] >> 24); out[4 * i + 1] = uint8_t(h[i] >> 16); out[4 * i + 2] = uint8_t(h[i] >> 8); out[4 * i + 3] = uint8_t(h[i]); }
        return out;
    }
    /** first 4 bytes of SHA256(SHA256(payload)): the v1 P2P checksum */
    static std::array<uint8_t, 4> checksum(const uint8_t* data, size_t len)
    {
        auto h1 = hash(data, len);
        auto h2 = hash(h1.data(), 32);
        return {h2[0], h2[1], h2[2], h2[3]};
    }
};

// ---------------------------------------------------------------- messages
struct Msg { std::string type; std::vector<uint8_t> data; };
struct Got { std::string type; std::vector<uint8_t> data; bool reject; };

// BIP324 short message type ids 1..28, from the BIP's table (own copy, not the repo's array)
const char* const BIP324_SHORT[29] = {nullptr, "addr", "block", "blocktxn", "cmpctblock", "feefilter", "filteradd", "filterclear", "filterload",
                                      "getblocks", "getblocktxn", "getdata", "getheaders", "headers", "inv", "mempool", "merkleblock", "notfound",
                                      "ping", "pong", "sendcmpct", "tx", "getcfilters", "cfilter", "getcfheaders", "cfheaders", "getcfcheckpt",
                                      "cfcheckpt", "addrv2"};
const char* const OTHER_TYPES[] = {"version", "verack", "sendheaders", "getaddr", "wtxidrelay", "sendaddrv2", "sendtxrcncl", "reject", "alert"};

int short_id_of(const std::string& t)
{
    for (int i = 1; i <= 28; ++i) if (t == BIP324_SHORT[i]) return i;
    return 0;
}

void init_c32()
{
    static ECC_Context ecc;
    SelectParams(ChainType::REGTEST);
}

std::string gen_type(verif::Src& s, Rng& r, verif::Stats& st)
{
    switch (s.range<unsigned>(0, 7)) {
    case 0: case 1: case 2: { st.cls("type-shortid"); return BIP324_SHORT[1 + s.index(28)]; }
    case 3: case 4: { st.cls("type-known-long"); return OTHER_TYPES[s.index(std::size(OTHER_TYPES))]; }
    case 5: { // random printable, 1..12 chars
        size_t n = 1 + s.index(12);
        std::string t;
        for (size_t i = 0; i < n; ++i) t.push_back(char(0x21 + r.below(0x7e - 0x21 + 1)));
        st.cls("type-random");
        return t;
    }
    case 6: { std::string t; for (int i = 0; i < 12; ++i) t.push_back(char('a' + r.below(26))); st.cls("type-12char"); return t; }
    default: if (s.chance(64)) { st.cls("type-empty"); return ""; } st.cls("type-shortid"); return "ping";
    }
}

size_t gen_size(verif::Src& s, verif::Stats& st)
{
    unsigned c = s.range<unsigned>(0, 15);
    if (c < 4) { st.cls("size-0"); return 0; }
    if (c < 8) { st.cls("size-small"); return 1 + s.index(40); }
    if (c < 13) { st.cls("size-medium"); return 41 + s.index(2000); }
    if (c < 15) { st.cls("size-4k-20k"); return 2041 + s.index(20000); }
    // rare: large sizes incl. the 64 KiB and the 256 KiB reserve-ahead boundaries
    if (s.chance(40)) { st.cls("size-256k-boundary"); return 262144 - 40 + s.index(80); }
    st.cls("size-large");
    return s.pick<size_t>({65535, 65536, 65537, 40000, 75000, 16777215 % 70000, 65535 - 13, 65536 - 17});
}

Msg gen_msg(verif::Src& s, Rng& r, verif::Stats& st, bool first, bool tiny)
{
    Msg m;
    m.type = first ? "version" : gen_type(s, r, st);
    size_t n = tiny ? s.index(4) : gen_size(s, st);
    m.data = r.bytes(n);
    return m;
}

CKey gen_key(Rng& r)
{
    for (;;) {
        auto b = r.bytes(32);
        CKey k;
        k.Set(b.begin(), b.end(), true);
        if (k.IsValid()) return k;
    }
}

size_t gen_garbage_len(verif::Src& s, verif::Stats& st, const char* who)
{
    unsigned c = s.range<unsigned>(0, 7);
    size_t n;
    if (c < 2) n = 0;
    else if (c < 5) n = 1 + s.index(64);
    else if (c < 6) n = 65 + s.index(3900);
    else n = s.pick<size_t>({4095, 4094, 4080, 4079, 16, 15, 17});
    st.cls(std::string(who) + (n == 0 ? "-garbage-0" : n >= 4079 ? "-garbage-max" : "-garbage-some"));
    return n;
}

std::unique_ptr<Transport> make_v2(NodeId id, bool initiating, Rng& r, size_t garbage_len)
{
    CKey key = gen_key(r);
    auto ent = r.bytes(32);
    auto garb = r.bytes(garbage_len);
    return std::make_unique<V2Transport>(id, initiating, key, MakeByteSpan(ent), std::move(garb));
}

/** fragment size chooser: 0 all, 1 single bytes, 2 1..3, 3 1..24, 4 uniform, 5 all-but-one */
size_t choose_n(unsigned policy, size_t avail, Rng& r)
{
    if (avail == 0) return 0;
    switch (policy % 6) {
    case 0: return avail;
    case 1: return 1;
    case 2: return 1 + r.below(std::min<size_t>(avail, 3));
    case 3: return 1 + r.below(std::min<size_t>(avail, 24));
    case 4: return 1 + r.below(avail);
    default: return avail > 1 ? avail - 1 : 1;
    }
}
const char* const POLICY_NAME[6] = {"all", "1byte", "1-3", "1-24", "uniform", "all-but-1"};

/** Feed one fragment; append completed messages; false = transport reported failure (unusable afterwards). */
bool feed(Transport& t, std::span<const uint8_t> chunk, std::vector<Got>& out)
{
    while (!chunk.empty()) {
        size_t before = chunk.size();
        if (!t.ReceivedBytes(chunk)) return false;
        bool progress = chunk.size() < before;
        if (t.ReceivedMessageComplete()) {
            bool rej = false;
            CNetMessage m = t.GetReceivedMessage(NodeClock::time_point{}, rej);
            Got g;
            g.type = m.m_type;
            g.reject = rej;
            g.data.resize(m.m_recv.size());
            if (!g.data.empty()) memcpy(g.data.data(), m.m_recv.data(), g.data.size());
            out.push_back(std::move(g));
            progress = true;
        }
        VCHECK(progress, "c32.recv-progress", "ReceivedBytes consumed nothing and no message became available");
    }
    return true;
}

// ================================================================================================ c32_bidirectional
struct Side {
    std::unique_ptr<Transport> t;
    std::vector<Msg> plan;        // messages this side sends, in order
    size_t queued{0};             // how many were accepted by SetMessageToSend
    std::vector<uint8_t> inflight; // bytes sent by this side, not yet received by the other
    size_t wire_total{0};
    size_t received{0};           // messages of the *other* side's plan received by this side
    unsigned chunks_since_msg{0};
    unsigned fragmented_msgs{0};
};

struct Bidi {
    Side side[2];
    verif::Stats& st;
    Rng& rng;
    Bidi(verif::Stats& st_, Rng& r) : st(st_), rng(r) {}

    bool enqueue(int i)
    {
        Side& a = side[i];
        if (a.queued >= a.plan.size()) return false;
        // big messages: do not copy the payload just to be refused (a refusal is certain while bytes are pending)
        if (a.plan[a.queued].data.size() > 4096 && !std::get<0>(a.t->GetBytesToSend(false)).empty()) return false;
        CSerializedNetMsg m;
        m.m_type = a.plan[a.queued].type;
        m.data = a.plan[a.queued].data;
        if (!a.t->SetMessageToSend(m)) return false;
        a.queued++;
        return true;
    }
    bool send(int i, unsigned policy, unsigned reps)
    {
        Side& a = side[i];
        bool any = false;
        for (unsigned k = 0; k < reps; ++k) {
            const auto& [bytes, more, type] = a.t->GetBytesToSend(a.queued < a.plan.size());
            if (bytes.empty()) break;
            size_t n = choose_n(policy, bytes.size(), rng);
            a.inflight.insert(a.inflight.end(), bytes.begin(), bytes.begin() + n);
            a.wire_total += n;
            a.t->MarkBytesSent(n);
            any = true;
        }
        return any;
    }
    /** side i receives bytes sent by side !i */
    bool recv(int i, unsigned policy, unsigned reps)
    {
        Side& me = side[i];
        Side& peer = side[!i];
        bool any = false;
        size_t pos = 0;
        for (unsigned k = 0; k < reps && pos < peer.inflight.size(); ++k) {
            size_t n = choose_n(policy, peer.inflight.size() - pos, rng);
            std::vector<Got> got;
            me.chunks_since_msg++;
            bool ok = feed(*me.t, std::span<const uint8_t>(peer.inflight.data() + pos, n), got);
            st.steps++;
            VCHECK(ok, "c32.bidi-recv-accepts", "transport rejected untampered bytes; receiver side", i, "after msgs", me.received);
            pos += n;
            any = true;
            for (auto& g : got) {
                VCHECK(me.received < peer.queued, "c32.bidi-extra-message", "receiver side", i, "got a message nobody sent: type", g.type, "len", g.data.size());
                const Msg& exp = peer.plan[me.received];
                st.steps++;
                VCHECK(!g.reject, "c32.bidi-sequence", "message flagged as rejected; idx", me.received, "type", exp.type);
                VCHECK(g.type == exp.type, "c32.bidi-sequence", "type differs; idx", me.received, "sent", exp.type, "got", g.type);
                VCHECK(g.data == exp.data, "c32.bidi-sequence", "payload differs; idx", me.received, "type", exp.type, "sent_len", exp.data.size(), "got_len", g.data.size());
                me.received++;
                if (me.chunks_since_msg >= 2) me.fragmented_msgs++;
                me.chunks_since_msg = 0;
            }
        }
        peer.inflight.erase(peer.inflight.begin(), peer.inflight.begin() + pos);
        return any;
    }
};

VERIF_TARGET(c32_bidirectional, init_c32, 8, 420,
             "two real transports (v1<->v1, v2<->v2, v1->v2 fallback) exchange generated message plans (all BIP324 short-id types, other/unknown/12-char/"
             "empty types; sizes 0..75 KB plus 256 KiB boundary; runs of >224 packets to cross rekeying); wire fragmented by generated policies and the "
             "two directions interleaved; non-trivial = both directions delivered >=1 message, >=3 messages in total and >=1 message was split over >=2 "
             "reads; distinct = mode, plan lengths, type/size sequence prefix, policies, garbage classes")
{
    unsigned mode = s.range<unsigned>(0, 2); // 0 v1<->v1, 1 v2<->v2, 2 v1 initiator -> v2 responder (fallback)
    uint64_t seed = s.ConsumeIntegral<uint64_t>();
    Rng rng(seed);
    Bidi b(st, rng);
    unsigned tail_policy = s.range<unsigned>(0, 5);
    static const char* const MODE[3] = {"v1v1", "v2v2", "v1v2-fallback"};
    st.cls(std::string("mode-") + MODE[mode]);
    st.mix(mode);
    st.mix(tail_policy);

    size_t g0 = 0, g1 = 0;
    if (mode == 1) { g0 = gen_garbage_len(s, st, "init"); g1 = gen_garbage_len(s, st, "resp"); }
    if (mode == 2) { g1 = gen_garbage_len(s, st, "resp"); }
    if (mode == 0) { b.side[0].t = std::make_unique<V1Transport>(NodeId{0}); b.side[1].t = std::make_unique<V1Transport>(NodeId{1}); }
    if (mode == 1) { b.side[0].t = make_v2(0, true, rng, g0); b.side[1].t = make_v2(1, false, rng, g1); }
    if (mode == 2) { b.side[0].t = std::make_unique<V1Transport>(NodeId{0}); b.side[1].t = make_v2(1, false, rng, g1); }
    st.mix(uint64_t(g0 == 0 ? 0 : g0 >= 4079 ? 2 : 1) * 3 + (g1 == 0 ? 0 : g1 >= 4079 ? 2 : 1));

    // plans
    bool long_run = s.chance(40);
    for (int i = 0; i < 2; ++i) {
        size_t n = s.range<size_t>(0, 7);
        bool tiny = false;
        if (long_run && (i == 0 || s.boolean())) { n = 222 + s.index(40); tiny = true; }
        for (size_t k = 0; k < n; ++k) b.side[i].plan.push_back(gen_msg(s, rng, st, k == 0, tiny && k > 0));
    }
    // the v2 responder can only detect a v1 peer from its "version" message: the v1 side always opens with it (protocol rule)
    if (mode == 2 && b.side[0].plan.empty()) b.side[0].plan.push_back(gen_msg(s, rng, st, true, false));
    if (long_run) st.cls("long-run>=222");
    for (int i = 0; i < 2; ++i) {
        st.mix(b.side[i].plan.size());
        for (size_t k = 0; k < std::min<size_t>(b.side[i].plan.size(), 8); ++k) { st.mix(b.side[i].plan[k].type); st.mix(uint64_t(b.side[i].plan[k].data.size())); }
        if (st.want_sample) {
            std::ostringstream os;
            os << "side" << i << " plan(" << b.side[i].plan.size() << "):";
            for (size_t k = 0; k < std::min<size_t>(b.side[i].plan.size(), 10); ++k) os << " " << (b.side[i].plan[k].type.empty() ? "\"\"" : b.side[i].plan[k].type) << "/" << b.side[i].plan[k].data.size();
            st.note(os.str());
        }
    }
    st.note("mode=", MODE[mode], " garbage=", g0, "/", g1, " tail_policy=", POLICY_NAME[tail_policy]);

    // generated schedule
    unsigned nops = 0;
    bool interleaved = false;
    while (!s.exhausted() && nops < 400) {
        unsigned op = s.range<unsigned>(0, 5);
        unsigned pol = s.range<unsigned>(0, 5);
        unsigned reps = 1 + s.range<unsigned>(0, 15);
        nops++;
        bool did = false;
        switch (op) {
        case 0: did = b.enqueue(0); break;
        case 1: did = b.enqueue(1); break;
        case 2: did = b.send(0, pol, reps); break;
        case 3: did = b.send(1, pol, reps); break;
        case 4: did = b.recv(0, pol, reps); break;
        default: did = b.recv(1, pol, reps); break;
        }
        if (did) { st.mix(op * 8 + pol); if (nops <= 40) st.note("op", op, "/", POLICY_NAME[pol], "x", reps); }
        if (did && op >= 4 && !b.side[0].inflight.empty() && !b.side[1].inflight.empty()) interleaved = true;
    }
    // flush: everything planned gets queued, sent and received
    for (unsigned round = 0;; ++round) {
        bool any = false;
        for (int i = 0; i < 2; ++i) {
            if (b.enqueue(i)) any = true;
            if (b.send(i, tail_policy, tail_policy == 1 ? 64 : 8)) any = true;
        }
        for (int i = 0; i < 2; ++i) if (b.recv(i, tail_policy, 1u << 30)) any = true;
        if (!any) break;
        VCHECK(round < 4000000, "c32.bidi-terminates", "flush does not terminate");
    }
    for (int i = 0; i < 2; ++i) {
        st.steps++;
        VCHECK(b.side[i].queued == b.side[i].plan.size(), "c32.bidi-all-sent", "side", i, "could queue only", b.side[i].queued, "of", b.side[i].plan.size());
        VCHECK(b.side[i].inflight.empty(), "c32.bidi-all-sent", "bytes left in flight from side", i);
        VCHECK(b.side[!i].received == b.side[i].plan.size(), "c32.bidi-sequence", "side", !i, "received", b.side[!i].received, "of", b.side[i].plan.size(), "messages");
    }
    auto i0 = b.side[0].t->GetInfo(), i1 = b.side[1].t->GetInfo();
    st.steps++;
    if (mode == 1) {
        VCHECK(i0.session_id.has_value() && i1.session_id.has_value(), "c32.session-id", "v2 session without session id after completed handshake");
        VCHECK(*i0.session_id == *i1.session_id, "c32.session-id", "session ids differ");
        VCHECK(i0.transport_type == TransportProtocolType::V2 && i1.transport_type == TransportProtocolType::V2, "c32.session-id", "transport type not v2");
    } else {
        VCHECK(!i0.session_id.has_value() && !i1.session_id.has_value(), "c32.session-id", "v1 session reports a session id");
        VCHECK(i1.transport_type == TransportProtocolType::V1, "c32.session-id", "responder did not fall back to v1");
    }
    size_t total = b.side[0].plan.size() + b.side[1].plan.size();
    unsigned frag = b.side[0].fragmented_msgs + b.side[1].fragmented_msgs;
    if (frag) st.cls("fragmented-message");
    if (interleaved) st.cls("interleaved-directions");
    if (mode != 0) for (int i = 0; i < 2; ++i) if (b.side[i].plan.size() + 1 > 224 && (mode == 1 || i == 1)) st.cls("rekey-crossed");
    if (!b.side[0].plan.empty() && !b.side[1].plan.empty()) st.cls("both-directions");
    st.cls(std::string("tail-") + POLICY_NAME[tail_policy]);
    st.note("delivered ", b.side[1].received, "+", b.side[0].received, " msgs, wire ", b.side[0].wire_total, "+", b.side[1].wire_total, " bytes, fragmented msgs ", frag);
    st.nontrivial = !b.side[0].plan.empty() && !b.side[1].plan.empty() && total >= 3 && frag >= 1;
}

// ================================================================================================ c32_tamper
enum class SegKind : uint8_t { KEY, GARBAGE, TERMINATOR, PACKET };
struct Seg { size_t start, len; SegKind kind; int packet; bool decoy; bool version; int app_index; };

/** Own encoder of a BIP324 packet's contents: short id byte, or 0x00 + 12-byte NUL-padded type, then payload. */
std::vector<uint8_t> encode_contents(const Msg& m, bool force_long)
{
    std::vector<uint8_t> c;
    int sid = short_id_of(m.type);
    if (sid && !force_long) {
        c.push_back(uint8_t(sid));
    } else {
        c.push_back(0);
        for (size_t i = 0; i < 12; ++i) c.push_back(i < m.type.size() ? uint8_t(m.type[i]) : 0);
    }
    c.insert(c.end(), m.data.begin(), m.data.end());
    return c;
}

void tamper_v2(verif::Src& s, verif::Stats& st, Rng& rng)
{
    // all alteration choices first (so that short buffers still alter something; 15 = leave the stream intact)
    unsigned tclass = s.range<unsigned>(0, 15);
    unsigned sub = s.range<unsigned>(0, 3);
    size_t seg_sel = s.ConsumeIntegral<uint16_t>(), off_sel = s.ConsumeIntegral<uint16_t>();
    unsigned alt = s.range<unsigned>(0, 255), alt_mode = s.range<unsigned>(0, 3);
    unsigned policy = s.range<unsigned>(0, 5);
    bool drain = s.boolean();
    bool recv_initiates = s.boolean();
    size_t g_m = gen_garbage_len(s, st, "sender");
    size_t g_r = s.chance(200) ? 0 : s.index(40);
    // receiver under test (deterministic keys) and a probe cipher to learn its public key up front
    CKey rkey = gen_key(rng);
    auto rent = rng.bytes(32);
    V2Transport R(NodeId{7}, recv_initiates, rkey, MakeByteSpan(rent), rng.bytes(g_r));
    BIP324Cipher probe(rkey, MakeByteSpan(rent));
    // manual sender
    CKey mkey = gen_key(rng);
    auto ment = rng.bytes(32);
    BIP324Cipher M(mkey, MakeByteSpan(ment));
    M.Initialize(probe.GetOurPubKey(), /*initiator=*/!recv_initiates);

    std::vector<uint8_t> wire;
    std::vector<Seg> segs;
    std::vector<Msg> sent; // application messages in order
    auto add_seg = [&](SegKind k, const uint8_t* p, size_t n, int packet, bool decoy, bool version, int app) {
        segs.push_back({wire.size(), n, k, packet, decoy, version, app});
        wire.insert(wire.end(), p, p + n);
    };
    add_seg(SegKind::KEY, UCharCast(M.GetOurPubKey().data()), 64, -1, false, false, -1);
    auto garbage = rng.bytes(g_m);
    if (g_m) add_seg(SegKind::GARBAGE, garbage.data(), g_m, -1, false, false, -1);
    add_seg(SegKind::TERMINATOR, UCharCast(M.GetSendGarbageTerminator().data()), 16, -1, false, false, -1);
    int npackets = 0;
    bool aad_pending = true;
    auto add_packet = [&](const std::vector<uint8_t>& contents, bool decoy, bool version, int app) {
        std::vector<uint8_t> out(contents.size() + BIP324Cipher::EXPANSION);
        std::span<const std::byte> aad;
        if (aad_pending) aad = MakeByteSpan(garbage);
        aad_pending = false;
        M.Encrypt(MakeByteSpan(contents), aad, decoy, MakeWritableByteSpan(out));
        add_seg(SegKind::PACKET, out.data(), out.size(), npackets++, decoy, version, app);
    };
    auto add_decoys = [&](unsigned n) {
        for (unsigned i = 0; i < n; ++i) { add_packet(rng.bytes(s.index(48)), true, false, -1); st.cls("decoy-packet"); }
    };
    add_decoys(s.chance(60) ? 1 + s.index(3) : 0);                       // decoys before the version packet (first one carries the AAD)
    add_packet(rng.bytes(s.chance(40) ? 1 + s.index(32) : 0), false, true, -1); // version packet; contents must be ignored by the receiver
    size_t nmsgs = s.range<size_t>(0, 6);
    bool long_run = s.chance(20);
    if (long_run) { nmsgs = 215 + s.index(60); st.cls("long-run>=215"); }
    for (size_t k = 0; k < nmsgs; ++k) {
        if (!long_run || s.chance(16)) add_decoys(s.chance(50) ? 1 + s.index(2) : 0);
        Msg m = gen_msg(s, rng, st, false, long_run);
        bool force_long = short_id_of(m.type) && s.chance(40);
        if (force_long) st.cls("shortid-type-sent-long");
        add_packet(encode_contents(m, force_long), false, false, int(sent.size()));
        sent.push_back(std::move(m));
    }
    if (s.chance(40)) add_decoys(1);

    // choose what to alter
    int tampered_seg = -1;
    size_t toff = 0;
    const char* tname = "none";
    auto pick_seg = [&](SegKind k) -> int {
        std::vector<int> c;
        for (size_t i = 0; i < segs.size(); ++i) if (segs[i].kind == k) c.push_back(int(i));
        if (c.empty()) return -1;
        // long runs: half of the time alter one of the last packets (behind the rekey boundary)
        if (long_run && k == SegKind::PACKET && (off_sel & 0x100)) return c[c.size() - 1 - seg_sel % std::min<size_t>(40, c.size())];
        return c[seg_sel % c.size()];
    };
    if (tclass == 15) {
        tname = "none";
    } else if (tclass == 1) { tampered_seg = pick_seg(SegKind::KEY); tname = "key";
    } else if (tclass == 2) { tampered_seg = pick_seg(SegKind::GARBAGE); tname = "garbage"; if (tampered_seg < 0) { tampered_seg = pick_seg(SegKind::TERMINATOR); tname = "terminator"; }
    } else if (tclass == 3) { tampered_seg = pick_seg(SegKind::TERMINATOR); tname = "terminator";
    } else { tampered_seg = pick_seg(SegKind::PACKET); }
    if (tampered_seg >= 0) {
        const Seg& g = segs[tampered_seg];
        if (g.kind == SegKind::PACKET) {
            size_t body = g.len - 3 - 16; // header byte + contents
            if (sub == 1) { toff = off_sel % 3; tname = "pkt-length"; }
            else if (sub == 2) { toff = g.len - 16 + off_sel % 16; tname = "pkt-tag"; }
            else if (sub == 3) { toff = 3; tname = "pkt-header"; }
            else { toff = 3 + off_sel % body; tname = toff == 3 ? "pkt-header" : "pkt-ciphertext"; }
        } else {
            toff = off_sel % g.len;
        }
        size_t pos = g.start + toff;
        if (alt_mode != 3) {
            wire[pos] ^= uint8_t(1u << (alt % 8));
            st.cls("alter-bitflip");
        } else {
            uint8_t nv = uint8_t(alt);
            if (nv == wire[pos]) nv ^= 0x01;
            wire[pos] = nv;
            st.cls("alter-byte");
        }
    }
    // expected: exactly the application messages carried by packets before the altered one
    size_t expect = sent.size();
    bool version_passes = true;
    const char* pkind = "";
    if (tampered_seg >= 0) {
        const Seg& g = segs[tampered_seg];
        if (g.kind != SegKind::PACKET) { expect = 0; version_passes = false; }
        else {
            expect = 0;
            version_passes = false;
            for (const Seg& q : segs) if (q.kind == SegKind::PACKET && q.packet < g.packet) { if (q.app_index >= 0) expect++; if (q.version) version_passes = true; }
            pkind = g.decoy ? "decoy" : g.version ? "version" : "app";
        }
    }
    st.cls(std::string("v2-tamper-") + tname);
    if (*pkind) st.cls(std::string("v2-tampered-packet-") + pkind);
    st.cls(recv_initiates ? "receiver-initiator" : "receiver-responder");
    st.mix(std::string(tname)); st.mix(std::string(pkind)); st.mix(uint64_t(recv_initiates)); st.mix(policy); st.mix(sent.size()); st.mix(expect);
    st.mix(uint64_t(g_m == 0 ? 0 : g_m >= 4079 ? 2 : 1)); st.mix(uint64_t(npackets));
    for (size_t k = 0; k < std::min<size_t>(sent.size(), 6); ++k) { st.mix(sent[k].type); st.mix(uint64_t(sent[k].data.size())); }
    st.note("v2 manual sender -> V2Transport(", recv_initiates ? "initiator" : "responder", "): garbage=", g_m, " packets=", npackets, " app msgs=", sent.size(),
            " alter=", tname, (*pkind ? "/" : ""), pkind, " at wire offset ", (tampered_seg >= 0 ? segs[tampered_seg].start + toff : 0), " of ", wire.size(),
            " expect delivered=", expect, " policy=", POLICY_NAME[policy]);

    // feed
    std::vector<Got> got;
    size_t pos = 0;
    bool alive = true;
    while (pos < wire.size()) {
        size_t n = choose_n(policy, wire.size() - pos, rng);
        alive = feed(R, std::span<const uint8_t>(wire.data() + pos, n), got);
        pos += n;
        if (!alive) break;
        if (drain) { const auto& [bytes, more, type] = R.GetBytesToSend(false); if (!bytes.empty()) R.MarkBytesSent(choose_n(policy, bytes.size(), rng)); }
    }
    // oracle
    std::vector<const Got*> delivered;
    for (auto& g : got) if (!g.reject) delivered.push_back(&g);
    st.steps++;
    for (size_t i = 0; i < delivered.size(); ++i) {
        VCHECK(i < sent.size(), "c32.v2-tamper-prefix", "more messages delivered than sent:", delivered.size(), ">", sent.size());
        VCHECK(delivered[i]->type == sent[i].type && delivered[i]->data == sent[i].data, "c32.v2-tamper-prefix", "delivered message", i, "differs from the one sent: type",
               delivered[i]->type, "vs", sent[i].type, "len", delivered[i]->data.size(), "vs", sent[i].data.size(), "alter", tname);
    }
    VCHECK(delivered.size() >= expect, "c32.v2-untampered-prefix-delivered", "messages before the altered packet were not all delivered:", delivered.size(), "<", expect, "alter", tname);
    VCHECK(delivered.size() <= expect, "c32.v2-tamper-detected", "messages at/after the altered packet were delivered:", delivered.size(), ">", expect, "alter", tname, pkind);
    VCHECK(got.size() == delivered.size(), "c32.v2-untampered-prefix-delivered", "well-formed message flagged as rejected");
    if (tampered_seg < 0) VCHECK(alive, "c32.v2-untampered-prefix-delivered", "untampered stream made the transport fail");
    if (version_passes) {
        auto info = R.GetInfo();
        st.steps++;
        VCHECK(info.session_id.has_value(), "c32.session-id", "no session id although the version packet was received");
        VCHECK(std::memcmp(info.session_id->begin(), M.GetSessionID().data(), 32) == 0, "c32.session-id", "receiver session id differs from the sender's");
    }
    if (!alive) st.cls("v2-transport-failed"); else if (tampered_seg >= 0) st.cls("v2-transport-stalled");
    bool crossed = false;
    if (tampered_seg >= 0 && segs[tampered_seg].kind == SegKind::PACKET && segs[tampered_seg].packet >= 224) { st.cls("v2-tamper-after-rekey"); crossed = true; }
    if (tampered_seg < 0 && npackets > 224) st.cls("v2-clean-rekey-crossed");
    st.note("delivered=", delivered.size(), alive ? " transport alive" : " transport failed");
    st.nontrivial = tampered_seg >= 0 && ((expect >= 1 && expect < sent.size()) || (segs[tampered_seg].kind != SegKind::PACKET && !sent.empty()) || crossed);
}

void tamper_v1(verif::Src& s, verif::Stats& st, Rng& rng)
{
    unsigned tclass = s.range<unsigned>(0, 7);
    size_t f_sel = s.ConsumeIntegral<uint8_t>(), off_sel = s.ConsumeIntegral<uint16_t>();
    unsigned alt = s.range<unsigned>(0, 255), alt_mode = s.range<unsigned>(0, 3);
    unsigned policy = s.range<unsigned>(0, 5);
    bool want_v2_responder = s.chance(64);
    // sender: a real V1Transport; its output is framed by construction (24 + payload per message)
    size_t nmsgs = 1 + s.index(6);
    std::vector<Msg> sent;
    std::vector<uint8_t> wire;
    std::vector<size_t> frame_start;
    V1Transport sender(NodeId{3});
    for (size_t k = 0; k < nmsgs; ++k) {
        Msg m = gen_msg(s, rng, st, k == 0, false);
        if (m.data.size() > 30000) m.data.resize(30000 + m.data.size() % 7);
        CSerializedNetMsg sm;
        sm.m_type = m.type;
        sm.data = m.data;
        bool ok = sender.SetMessageToSend(sm);
        VCHECK(ok, "c32.bidi-all-sent", "v1 sender refused a message");
        frame_start.push_back(wire.size());
        for (;;) {
            const auto& [bytes, more, type] = sender.GetBytesToSend(false);
            if (bytes.empty()) break;
            wire.insert(wire.end(), bytes.begin(), bytes.end());
            sender.MarkBytesSent(bytes.size());
        }
        VCHECK(wire.size() - frame_start.back() == 24 + m.data.size(), "c32.v1-wire-format", "v1 frame is not 24-byte header + payload");
        sent.push_back(std::move(m));
    }
    // alter one byte
    size_t f = f_sel % nmsgs;
    size_t off;
    const char* tname;
    switch (tclass) {
    case 1: off = off_sel % 4; tname = "magic"; break;
    case 2: off = 4 + off_sel % 12; tname = "type"; break;
    case 3: off = 16 + off_sel % 4; tname = "length"; break;
    case 4: off = 20 + off_sel % 4; tname = "checksum"; break;
    case 5: off = 23; tname = "checksum"; break;
    default:
        if (sent[f].data.empty()) { off = 20 + off_sel % 4; tname = "checksum"; }
        else { off = 24 + off_sel % sent[f].data.size(); tname = "payload"; }
    }
    size_t tpos = frame_start[f] + off;
    bool use_v2_responder = want_v2_responder && tpos >= 16;
    if (alt_mode != 3) { wire[tpos] ^= uint8_t(1u << (alt % 8)); st.cls("alter-bitflip"); }
    else { uint8_t nv = uint8_t(alt); if (nv == wire[tpos]) nv ^= 0x01; wire[tpos] = nv; st.cls("alter-byte"); }
    st.cls(std::string("v1-tamper-") + tname);
    if (off == 23) st.cls("v1-tamper-checksum-last-byte");
    st.mix(std::string("v1")); st.mix(std::string(tname)); st.mix(f); st.mix(nmsgs); st.mix(policy); st.mix(uint64_t(use_v2_responder)); st.mix(off < 24 ? off : 24);
    for (auto& m : sent) { st.mix(m.type); st.mix(uint64_t(m.data.size())); }
    st.note("v1 stream of ", nmsgs, " msgs, alter ", tname, " (header offset ", off, ") of frame ", f, " policy=", POLICY_NAME[policy], use_v2_responder ? " receiver=v2 responder (v1 fallback)" : " receiver=V1Transport");

    std::unique_ptr<Transport> R;
    if (use_v2_responder) { R = make_v2(9, false, rng, s.index(30)); st.cls("v1-receiver-v2-fallback"); } else R = std::make_unique<V1Transport>(NodeId{9});
    std::vector<Got> got;
    size_t pos = 0;
    bool alive = true;
    while (pos < wire.size()) {
        size_t n = choose_n(policy, wire.size() - pos, rng);
        alive = feed(*R, std::span<const uint8_t>(wire.data() + pos, n), got);
        pos += n;
        if (!alive) break;
    }
    // own frame walk over the altered wire
    size_t o = 0, idx = 0;
    unsigned flagged = 0, delivered_n = 0;
    for (; idx < got.size(); ++idx) {
        VCHECK(wire.size() - o >= 24, "c32.v1-framing", "message", idx, "returned although no complete header is left on the wire");
        const uint8_t* h = wire.data() + o;
        uint32_t len = uint32_t(h[16]) | (uint32_t(h[17]) << 8) | (uint32_t(h[18]) << 16) | (uint32_t(h[19]) << 24);
        VCHECK(uint64_t(wire.size() - o - 24) >= len, "c32.v1-framing", "message", idx, "returned before its payload arrived; header length", len);
        const uint8_t* payload = h + 24;
        auto ck = RefSha256::checksum(payload, len);
        bool ck_ok = std::memcmp(ck.data(), h + 20, 4) == 0;
        size_t tl = 0;
        while (tl < 12 && h[4 + tl] != 0) ++tl;
        std::string wtype(reinterpret_cast<const char*>(h + 4), tl);
        const Got& g = got[idx];
        st.steps++;
        if (!ck_ok) VCHECK(g.reject, "c32.v1-checksum", "message", idx, "delivered although its payload does not match the header checksum; type", g.type, "len", len);
        if (!g.reject) {
            VCHECK(ck_ok, "c32.v1-checksum", "message delivered with bad checksum");
            VCHECK(g.type == wtype, "c32.v1-framing", "delivered type", g.type, "differs from the wire", wtype);
            VCHECK(g.data.size() == len && (len == 0 || std::memcmp(g.data.data(), payload, len) == 0), "c32.v1-framing", "delivered payload differs from the frame on the wire");
            delivered_n++;
        } else flagged++;
        // frames entirely before the altered byte are untouched: they must be delivered as sent
        if (o + 24 + len <= tpos) {
            VCHECK(idx < sent.size() && !g.reject && g.type == sent[idx].type && g.data == sent[idx].data, "c32.v1-untampered-prefix-delivered", "untouched frame", idx, "not delivered as sent");
        }
        o += 24 + size_t(len);
    }
    st.steps++;
    VCHECK(got.size() >= f, "c32.v1-untampered-prefix-delivered", "only", got.size(), "messages returned but", f, "frames precede the altered byte");
    if (flagged) st.cls("v1-flagged-message");
    if (!alive) st.cls("v1-transport-failed");
    st.note("returned=", got.size(), " delivered=", delivered_n, " flagged=", flagged, alive ? "" : " transport failed");
    st.nontrivial = (flagged >= 1 || !alive) && nmsgs >= 2;
}

VERIF_TARGET(c32_tamper, init_c32, 8, 300,
             "v2: hand-built BIP324 sender stream (own framing, decoys, garbage, version contents) with one altered byte (key/garbage/terminator/packet "
             "length/header/ciphertext/tag; decoy, version or application packet; before/after rekey) fed in fragments to a V2Transport (initiator or "
             "responder); v1: V1Transport stream with one altered header/payload byte checked by an own frame walker + own SHA-256; non-trivial = v2: "
             ">=1 message before and >=1 after the altered packet (or handshake bytes altered with messages pending, or altered after rekey); v1: >=2 "
             "frames and the alteration was flagged or failed the connection; distinct = alter class, packet kind, counts, types/sizes, policy")
{
    unsigned kind = s.range<unsigned>(0, 3);
    Rng rng(s.ConsumeIntegral<uint64_t>());
    if (kind == 3) tamper_v1(s, st, rng); else tamper_v2(s, st, rng);
}

// ================================================================================================ c32_bulk
VERIF_TARGET(c32_bulk, init_c32, 20, 40,
             "one or two messages with payloads at the protocol limit (3,999,999 / 4,000,000 bytes; 4,000,001 may only be refused, never altered) sent "
             "through v1<->v1 or v2<->v2 in large fragments; all cases non-trivial; distinct = mode, size, policy")
{
    unsigned mode = s.range<unsigned>(0, 1);
    Rng rng(s.ConsumeIntegral<uint64_t>());
    size_t size = s.pick<size_t>({4000000, 3999999, 4000001, 4000000 - 13});
    unsigned chunk_class = s.range<unsigned>(0, 3);
    size_t chunk = std::array<size_t, 4>{1u << 30, 65536, 262144 + 7, 1000003}[chunk_class];
    std::unique_ptr<Transport> A, B;
    if (mode == 0) { A = std::make_unique<V1Transport>(NodeId{0}); B = std::make_unique<V1Transport>(NodeId{1}); }
    else { A = make_v2(0, true, rng, s.index(100)); B = make_v2(1, false, rng, s.index(100)); }
    st.cls(mode == 0 ? "bulk-v1" : "bulk-v2");
    st.cls(size > 4000000 ? "bulk-over-limit" : "bulk-within-limit");
    st.mix(mode); st.mix(size); st.mix(chunk_class);
    st.note("bulk ", mode == 0 ? "v1" : "v2", " payload ", size, " chunk ", chunk);
    Msg big;
    big.type = s.boolean() ? "block" : "unknowntype1";
    big.data = rng.bytes(size);
    std::vector<Msg> plan;
    plan.push_back({"version", rng.bytes(s.index(100))});
    plan.push_back(std::move(big));
    plan.push_back({"ping", rng.bytes(8)});
    // A -> B only; B's handshake bytes flow back to A
    std::vector<Got> got, back;
    size_t queued = 0;
    bool alive = true;
    for (unsigned round = 0; round < 100000 && alive; ++round) {
        bool any = false;
        if (queued < plan.size()) {
            CSerializedNetMsg m; m.m_type = plan[queued].type; m.data = plan[queued].data;
            if (A->SetMessageToSend(m)) { queued++; any = true; }
        }
        for (;;) {
            const auto& [bytes, more, type] = A->GetBytesToSend(false);
            if (bytes.empty()) break;
            size_t n = std::min(bytes.size(), chunk);
            std::vector<uint8_t> copy(bytes.begin(), bytes.begin() + n);
            A->MarkBytesSent(n);
            any = true;
            alive = feed(*B, copy, got);
            if (!alive) break;
        }
        for (;;) {
            const auto& [bytes, more, type] = B->GetBytesToSend(false);
            if (bytes.empty()) break;
            std::vector<uint8_t> copy(bytes.begin(), bytes.end());
            B->MarkBytesSent(copy.size());
            any = true;
            bool ok = feed(*A, copy, back);
            VCHECK(ok, "c32.bidi-recv-accepts", "initiator rejected responder handshake bytes");
        }
        if (!any) break;
    }
    st.steps++;
    for (size_t i = 0; i < got.size(); ++i) {
        VCHECK(i < plan.size() && !got[i].reject && got[i].type == plan[i].type && got[i].data == plan[i].data, "c32.bidi-sequence", "bulk message", i, "not delivered as sent");
    }
    if (size <= 4000000) {
        VCHECK(alive, "c32.bidi-recv-accepts", "transport failed on a payload within the 4,000,000-byte limit; size", size);
        VCHECK(got.size() == plan.size(), "c32.bidi-sequence", "received", got.size(), "of", plan.size());
    }
    st.note("delivered ", got.size(), alive ? "" : " (transport refused)");
    st.nontrivial = true;
}

} // namespace
