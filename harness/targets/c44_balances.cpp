// C44 — Wallet balances match the chain and mempool.
// Oracle: after every step of a generated history (receives, sends, mixed-input spends, blocks, double spends confirmed in blocks
// and on competing branches, reorgs, RBF replacements, coinbase maturation, invalidate/reconsider) the wallet's
// {trusted, untrusted_pending, immature} balances and AvailableCoins() must equal WalletSim's independent ledger: RefLedger replay
// of the active chain from genesis + node mempool, restricted to the scripts of the harness' own descriptor expansion.
#include <engine/verif.h>
#include <kits/walletsim.h>

#include <addresstype.h>
#include <policy/feerate.h>
#include <test/util/script.h>
#include <util/time.h>
#include <wallet/coincontrol.h>
#include <wallet/spend.h>

#include <algorithm>
#include <map>
#include <set>

using namespace verif;

namespace {

constexpr int64_t REGTEST_GENESIS_TIME = 1296688602;
constexpr CAmount FEE = 5000;
constexpr CAmount MIN_OUT = 20000;

const OutputType TYPES[] = {OutputType::BECH32, OutputType::LEGACY, OutputType::P2SH_SEGWIT, OutputType::BECH32M};

/** chain view of the last comparison with the node mempool applied on top */
struct View {
    RefUtxo utxo; //!< mempool-created coins have height -1
};

View MakeView(const WsLedger& L)
{
    return View{WsUtxoWithMempool(L)};
}

} // namespace

VERIF_TARGET(c44_balances, nullptr, 96, 1100,
             "histories (<=24 ops) on a regtest node whose base chain pays three coinbases (100/99/98 confirmations) to a descriptor wallet (4 output types); ops: "
             "receive from a foreign coin (1-2 wallet outputs), wallet spend with change (all inputs ours, also of unconfirmed coins), mixed-input spend, "
             "wallet-created send (CreateTransaction+Commit), RBF replacement, mine a block from a subset of the mempool (optionally coinbase to the wallet), "
             "mine a block confirming a double spend of a mempool transaction, overtake the tip from 1-3 blocks back with a branch that re-mines / drops / "
             "double-spends the disconnected transactions, double conflict (a 3-input wallet spend double-spent at two heights, then only the newer / both conflicting blocks disconnected), 1-3 empty blocks (maturity), invalidate+reconsider the tip; transactions that end up neither "
             "confirmed, in the mempool nor conflicted are abandoned (user operation) before a comparison. After every op: balances + AvailableCoins vs the "
             "independent ledger. non-trivial = a reorg disconnected a block holding a wallet transaction AND some wallet transaction was conflicted by the "
             "active chain at a comparison; distinct = op-kind sequence + reorg depths + conflict counts")
{
    SetMockTime(REGTEST_GENESIS_TIME + 3600);
    ChainSimOpts o;
    o.immediate_signals = false; // wallet callbacks on the scheduler thread, as in production (see kits/walletsim.h)
    auto simp = std::make_unique<ChainSim>(o);
    ChainSim& sim = *simp;
    const bool attach_late = s.chance(128);
    std::unique_ptr<WalletSim> wsp;
    WalletSimOpts wo;
    if (!attach_late) wsp = std::make_unique<WalletSim>(sim, wo); // sees every block as a notification
    LoadWalletBase(sim, 104);
    if (attach_late) { wsp = std::make_unique<WalletSim>(sim, wo); st.cls("attached-by-rescan"); }
    WalletSim& ws = *wsp;
    st.mix(uint64_t(attach_late));

    std::map<COutPoint, RefCoin> coin_info; // every output the harness has seen created (for rebuilding conflicting spends)
    auto remember = [&](const CTransactionRef& tx) {
        for (uint32_t i = 0; i < tx->vout.size(); ++i) coin_info[COutPoint(tx->GetHash(), i)] = RefCoin{tx->vout[i].nValue, tx->vout[i].scriptPubKey, -1, false};
    };
    for (const uint256& h : sim.ledger.Path(sim.TipHash())) for (auto& tx : sim.ledger.At(h).vtx) {
        for (uint32_t i = 0; i < tx->vout.size(); ++i) coin_info[COutPoint(tx->GetHash(), i)] = RefCoin{tx->vout[i].nValue, tx->vout[i].scriptPubKey, sim.ledger.At(h).height, tx->IsCoinBase()};
    }
    std::set<Txid> wallet_related; // transactions paying to or spending from wallet scripts
    auto relates = [&](const CTransactionRef& tx) {
        for (auto& out : tx->vout) if (ws.ModelIsMine(out.scriptPubKey)) return true;
        for (auto& in : tx->vin) { auto it = coin_info.find(in.prevout); if (it != coin_info.end() && ws.ModelIsMine(it->second.spk)) return true; }
        return false;
    };

    bool f_reorg_wallet = false, f_dead = false, f_maturity = false, f_untrusted = false, f_trusted_pending = false, f_immature = false;
    int reorgs = 0, maxdepth = 0, checks = 0, deadmax = 0;
    WsLedger last; // ledger at the last comparison (the node does not change between a comparison and the next op)
    auto checkpoint = [&](const char* where) {
        auto fl = ws.FloatingTxs();
        int dead_held = 0;
        { LOCK(ws.w->cs_wallet); for (auto& id : fl.dead) if (ws.w->GetWalletTx(id) && !ws.Tracked().at(id)->IsCoinBase()) dead_held++; }
        if (dead_held) { f_dead = true; deadmax = std::max(deadmax, dead_held); }
        int ab = ws.AbandonFloating(fl);
        if (ab) st.cls("abandoned-floating-tx");
        last = ws.Ledger();
        const WsLedger& L = last;
        VCHECK(L.ok, "c44.harness", "ledger replay failed", L.why);
        std::string diff = ws.CompareWithLedger(L);
        st.steps++;
        checks++;
        VCHECK(diff.empty(), "c44.balance-vs-ledger", where, diff, "tip-height", L.tip_height, "mempool", L.mempool.size(), "ledger: trusted", L.trusted, "pending", L.untrusted_pending,
               "immature", L.immature, "dead-floating", fl.dead.size(), "abandoned", ab, "| history:", st.sample);
        if (L.untrusted_pending > 0) f_untrusted = true;
        if (L.immature > 0) f_immature = true;
        for (auto& [op, c] : L.coins) if (c.depth == 0 && c.trusted) f_trusted_pending = true;
        st.note(where, ": h=", L.tip_height, " mp=", L.mempool.size(), " trusted=", L.trusted, " pending=", L.untrusted_pending, " immature=", L.immature, " dead=", dead_held);
    };
    auto new_wallet_script = [&](bool internal) { return ws.NewScript(TYPES[s.index(std::size(TYPES))], internal); };
    auto foreign_coins = [&](const View& v, int next_height) {
        std::vector<std::pair<COutPoint, RefCoin>> out;
        for (auto& [op, c] : v.utxo) {
            if (!(c.spk == P2WSH_OP_TRUE)) continue;
            if (c.coinbase && next_height - c.height < 100) continue;
            if (c.value < 4 * MIN_OUT) continue;
            out.emplace_back(op, c);
        }
        return out;
    };
    auto wallet_coins = [&](const View& v, int next_height) {
        std::vector<std::pair<COutPoint, RefCoin>> out;
        for (auto& [op, c] : v.utxo) {
            if (!ws.ModelIsMine(c.spk)) continue;
            if (c.coinbase && next_height - c.height < 100) continue;
            if (c.value < 3 * MIN_OUT) continue;
            out.emplace_back(op, c);
        }
        return out;
    };
    auto submit = [&](const CMutableTransaction& mtx, const char* what) -> CTransactionRef {
        CTransactionRef tx = MakeTransactionRef(mtx);
        remember(tx);
        if (relates(tx)) wallet_related.insert(tx->GetHash());
        auto res = ws.Submit(tx);
        bool ok = res.m_result_type == MempoolAcceptResult::ResultType::VALID;
        st.note(what, ok ? " accepted " : " REJECTED ", tx->GetHash().ToString().substr(0, 8), ok ? "" : res.m_state.ToString());
        if (!ok) st.cls("submit-rejected");
        return ok ? tx : nullptr;
    };
    auto note_reorg = [&](const uint256& old_tip, const uint256& new_tip) {
        if (new_tip == old_tip || sim.ledger.IsAncestor(old_tip, new_tip)) return;
        uint256 a = old_tip;
        int depth = 0;
        bool held_wallet_tx = false;
        while (!sim.ledger.IsAncestor(a, new_tip)) {
            for (auto& tx : sim.ledger.At(a).vtx) if (wallet_related.count(tx->GetHash()) || (tx->IsCoinBase() && relates(tx))) held_wallet_tx = true;
            a = sim.ledger.At(a).prev;
            depth++;
        }
        reorgs++;
        maxdepth = std::max(maxdepth, depth);
        if (held_wallet_tx) f_reorg_wallet = true;
        st.cls("reorg");
        if (depth >= 2) st.cls("reorg-depth>=2");
        if (held_wallet_tx) st.cls("reorg-disconnects-wallet-tx");
        st.mix(uint64_t(100 + depth));
        st.note("reorg depth=", depth, held_wallet_tx ? " (wallet tx disconnected)" : "");
    };
    /** build + deliver one block on `parent` from candidates; returns the block hash (null if nothing was built) */
    auto mine_on = [&](const uint256& parent, const std::vector<CTransactionRef>& candidates, bool pay_wallet, uint32_t nonce) -> uint256 {
        RefUtxo base;
        if (last.ok && last.tip == parent && !last.chain_utxo.empty()) base = last.chain_utxo;
        else { RefReplay pr = sim.ledger.Replay(parent); VCHECK(pr.ok, "c44.harness", "parent replay failed", pr.why); base = std::move(pr.utxo); }
        int height = sim.ledger.At(parent).height + 1;
        auto [txs, fees] = WsSelectValid(base, height, candidates);
        BlockSpec spec;
        spec.prev = parent;
        spec.txs = txs;
        spec.fees = fees;
        spec.extra_nonce = nonce;
        if (pay_wallet) spec.coinbase_spk = new_wallet_script(false);
        auto blk = sim.Build(spec);
        for (auto& tx : blk->vtx) { remember(tx); }
        for (uint32_t i = 0; i < blk->vtx[0]->vout.size(); ++i) coin_info[COutPoint(blk->vtx[0]->GetHash(), i)] = RefCoin{blk->vtx[0]->vout[i].nValue, blk->vtx[0]->vout[i].scriptPubKey, height, true};
        uint256 old_tip = sim.TipHash();
        auto d = ws.Deliver(blk);
        VCHECK(d.processed && (!d.verdict || d.verdict->IsValid()), "c44.harness", "model-valid block rejected", d.verdict ? StateStr(*d.verdict) : "no verdict");
        note_reorg(old_tip, sim.TipHash());
        st.note("block h=", height, " txs=", txs.size(), pay_wallet ? " cb->wallet" : "", sim.TipHash() == blk->GetHash() ? " ->tip" : " (side)");
        return blk->GetHash();
    };
    /** a spend of the first input of `t` (which must be confirmed in / below `base_view`) paying somewhere else */
    auto double_spend_of = [&](const CTransactionRef& t, const RefUtxo& base_view) -> CTransactionRef {
        for (auto& in : t->vin) {
            auto it = base_view.find(in.prevout);
            if (it == base_view.end() || it->second.value < 3 * MIN_OUT) continue;
            std::vector<CTxOut> outs;
            CAmount rest = it->second.value - FEE - 7; // differs from the original
            if (s.chance(128)) { CAmount v = std::max<CAmount>(MIN_OUT, rest / 3); outs.emplace_back(v, new_wallet_script(false)); rest -= v; }
            outs.emplace_back(rest, P2WSH_OP_TRUE);
            auto mtx = ws.MakeTx({{in.prevout, it->second}}, outs);
            if (!mtx) continue;
            CTransactionRef tx = MakeTransactionRef(*mtx);
            if (tx->GetHash() == t->GetHash()) continue;
            remember(tx);
            if (relates(tx)) wallet_related.insert(tx->GetHash());
            ws.Track(tx);
            return tx;
        }
        return nullptr;
    };

    checkpoint("start");
    unsigned nops = s.range<unsigned>(3, 24);
    for (unsigned op = 0; op < nops && !s.exhausted(); ++op) {
        unsigned kind = s.range<unsigned>(0, 13);
        View v = MakeView(last);
        const int next_height = sim.TipHeight() + 1;
        st.mix(uint64_t(kind));
        if (kind == 0 || kind == 1) {
            // receive: a foreign coin pays 1-2 wallet scripts
            auto fc = foreign_coins(v, next_height);
            if (fc.empty()) continue;
            auto coin = fc[s.index(fc.size())];
            unsigned nw = s.range<unsigned>(1, 2);
            std::vector<CTxOut> outs;
            CAmount rest = coin.second.value - FEE;
            for (unsigned k = 0; k < nw; ++k) {
                CAmount val = s.pick<CAmount>({100000, 1000000, MIN_OUT, 50000000, 300000000});
                val = std::min(val, rest / 4);
                outs.emplace_back(val, new_wallet_script(false));
                rest -= val;
            }
            outs.emplace_back(rest, P2WSH_OP_TRUE);
            auto mtx = ws.MakeTx({coin}, outs);
            VCHECK(mtx.has_value(), "c44.harness", "cannot sign foreign spend");
            submit(*mtx, "receive");
            st.cls("receive");
        } else if (kind == 2 || kind == 3 || kind == 4) {
            // spend wallet coins (kind 4: plus a foreign input => not "from the wallet only")
            auto wc = wallet_coins(v, next_height);
            if (wc.empty()) continue;
            std::vector<std::pair<COutPoint, RefCoin>> ins;
            unsigned nin = s.range<unsigned>(1, 2);
            CAmount in = 0;
            for (unsigned k = 0; k < nin && !wc.empty(); ++k) { size_t j = s.index(wc.size()); ins.push_back(wc[j]); in += wc[j].second.value; wc.erase(wc.begin() + j); }
            if (kind == 4) {
                auto fc = foreign_coins(v, next_height);
                if (fc.empty()) continue;
                auto c = fc[s.index(fc.size())];
                ins.push_back(c);
                in += c.second.value;
            }
            std::vector<CTxOut> outs;
            CAmount rest = in - FEE;
            bool change = s.chance(180);
            CAmount pay = std::max<CAmount>(MIN_OUT, change ? rest / s.range<int>(2, 5) : rest);
            if (change && rest - pay >= MIN_OUT) { outs.emplace_back(pay, P2WSH_OP_TRUE); outs.emplace_back(rest - pay, new_wallet_script(true)); }
            else outs.emplace_back(rest, kind == 4 ? new_wallet_script(false) : CScript(P2WSH_OP_TRUE));
            auto mtx = ws.MakeTx(ins, outs);
            VCHECK(mtx.has_value(), "c44.harness", "wallet could not sign its own coins");
            submit(*mtx, kind == 4 ? "mixed-spend" : "spend");
            st.cls(kind == 4 ? "mixed-input-spend" : "wallet-spend");
        } else if (kind == 5) {
            // wallet-created send
            wallet::CCoinControl cc;
            cc.m_feerate = CFeeRate{s.pick<CAmount>({20000, 5000, 100000})};
            CTxDestination dest;
            ExtractDestination(P2WSH_OP_TRUE, dest);
            if (last.trusted < 10 * MIN_OUT) continue;
            CAmount amount = std::max<CAmount>(MIN_OUT, last.trusted / s.range<int>(2, 50));
            std::vector<wallet::CRecipient> rcp{{dest, amount, s.chance(60)}};
            auto res = wallet::CreateTransaction(*ws.w, rcp, std::nullopt, cc, /*sign=*/true);
            if (!res) { st.cls("createtx-failed"); st.note("createtx failed: ", util::ErrorString(res).original); continue; }
            remember(res->tx);
            wallet_related.insert(res->tx->GetHash());
            ws.w->CommitTransaction(res->tx);
            auto r2 = ws.Submit(res->tx);
            st.note("wallet-send ", res->tx->GetHash().ToString().substr(0, 8), r2.m_result_type == MempoolAcceptResult::ResultType::VALID ? " accepted" : " REJECTED " + r2.m_state.ToString());
            st.cls("wallet-created-send");
        } else if (kind == 6) {
            // RBF: replace a wallet-related mempool transaction by a higher-paying spend of the same inputs
            std::vector<CTransactionRef> cands;
            for (auto& tx : ws.MempoolTxs()) if (wallet_related.count(tx->GetHash())) cands.push_back(tx);
            if (cands.empty()) continue;
            CTransactionRef t = cands[s.index(cands.size())];
            std::vector<std::pair<COutPoint, RefCoin>> ins;
            CAmount in = 0;
            bool known = true;
            for (auto& i : t->vin) { auto it = coin_info.find(i.prevout); if (it == coin_info.end()) { known = false; break; } ins.emplace_back(i.prevout, it->second); in += it->second.value; }
            if (!known) continue;
            CAmount outv = 0;
            for (auto& o2 : t->vout) outv += o2.nValue;
            CAmount newfee = (in - outv) + FEE * s.range<int>(2, 4);
            if (in - newfee < MIN_OUT) continue;
            std::vector<CTxOut> outs;
            if (s.boolean()) outs.emplace_back(in - newfee, new_wallet_script(false)); else outs.emplace_back(in - newfee, P2WSH_OP_TRUE);
            auto mtx = ws.MakeTx(ins, outs);
            if (!mtx) continue;
            if (submit(*mtx, "rbf-replacement")) st.cls("rbf-replacement");
        } else if (kind == 7) {
            // mine a block from a subset of the mempool
            std::vector<CTransactionRef> cands;
            for (auto& tx : ws.MempoolTxs()) if (s.chance(210)) cands.push_back(tx);
            mine_on(sim.TipHash(), cands, s.chance(50), op);
            st.cls("mine");
        } else if (kind == 8) {
            // confirm a double spend of a wallet-related mempool transaction
            std::vector<CTransactionRef> cands;
            for (auto& tx : ws.MempoolTxs()) if (wallet_related.count(tx->GetHash())) cands.push_back(tx);
            if (cands.empty()) continue;
            CTransactionRef t = cands[s.index(cands.size())];
            CTransactionRef ds = double_spend_of(t, last.chain_utxo);
            if (!ds) continue;
            std::vector<CTransactionRef> blocktxs{ds};
            for (auto& tx : ws.MempoolTxs()) if (s.chance(128)) blocktxs.push_back(tx); // those still valid next to `ds` get in
            mine_on(sim.TipHash(), blocktxs, false, op);
            st.cls("double-spend-confirmed");
            st.note("double spend of ", t->GetHash().ToString().substr(0, 8), " by ", ds->GetHash().ToString().substr(0, 8));
        } else if (kind == 9) {
            // overtake the tip from 1-3 blocks back
            uint256 tip = sim.TipHash();
            int th = sim.ledger.At(tip).height;
            int back = std::min(s.range<int>(1, 3), th - 104);
            if (back < 1) continue;
            uint256 fork = sim.ledger.AncestorAt(tip, th - back);
            std::vector<CTransactionRef> pool; // disconnected transactions + mempool
            std::vector<CTransactionRef> disconnected;
            for (uint256 a = tip; a != fork; a = sim.ledger.At(a).prev) for (auto& tx : sim.ledger.At(a).vtx) if (!tx->IsCoinBase()) disconnected.push_back(tx);
            RefReplay fr = sim.ledger.Replay(fork);
            std::vector<CTransactionRef> first;
            if (!disconnected.empty() && s.chance(150)) {
                // double-spend one of the transactions confirmed on the old branch
                std::vector<CTransactionRef> rel;
                for (auto& tx : disconnected) if (wallet_related.count(tx->GetHash())) rel.push_back(tx);
                if (!rel.empty()) {
                    CTransactionRef ds = double_spend_of(rel[s.index(rel.size())], fr.utxo);
                    if (ds) { first.push_back(ds); st.cls("reorg-confirms-double-spend"); }
                }
            }
            for (auto& tx : disconnected) if (s.chance(128)) pool.push_back(tx);
            for (auto& tx : ws.MempoolTxs()) if (s.chance(100)) pool.push_back(tx);
            uint256 parent = fork;
            for (int b = 0; b <= back; ++b) {
                std::vector<CTransactionRef> cands = (b == 0) ? first : std::vector<CTransactionRef>{};
                for (auto& tx : pool) if (b == back || s.chance(128)) cands.push_back(tx);
                parent = mine_on(parent, cands, s.chance(30), 1000 + op * 8 + b);
            }
            st.cls("overtake");
        } else if (kind == 10) {
            // empty blocks: coinbase maturation (base coinbases cross 99 -> 100 -> 101 confirmations within the first three)
            int nb = s.range<int>(1, 3);
            for (int b = 0; b < nb; ++b) {
                const CAmount immature_before = last.immature;
                mine_on(sim.TipHash(), {}, false, 2000 + op * 8 + b);
                checkpoint("after-empty-block");
                if (last.immature < immature_before) { f_maturity = true; st.cls("coinbase-matured"); }
            }
            st.cls("empty-blocks");
            continue;
        } else if (kind >= 12) {
            // double conflict: an unconfirmed wallet transaction B with three wallet inputs X, Y, Z is double-spent twice, by X' (spends X) confirmed at
            // h1 and by Y' (spends Y and a foreign coin F) confirmed at h2 > h1; then only the newer block goes away (a competing branch from h2-1 whose
            // first block spends F, so that Y' can neither stay confirmed nor return to the mempool), or the tip is invalidated, or both blocks go.
            // B stays conflicted by the h1 block: Z (and Y) must be spendable again.
            std::vector<std::pair<COutPoint, RefCoin>> conf, any;
            for (auto& c : wallet_coins(v, next_height)) (c.second.height > 0 ? conf : any).push_back(c);
            std::vector<std::pair<COutPoint, RefCoin>> fc;
            for (auto& c : foreign_coins(v, next_height)) if (c.second.height > 0) fc.push_back(c);
            if (conf.size() < 2 || conf.size() + any.size() < 3 || fc.empty()) continue;
            size_t rot = s.index(conf.size());
            std::rotate(conf.begin(), conf.begin() + rot, conf.end());
            auto X = conf[0], Y = conf[1];
            auto Z = conf.size() >= 3 ? conf[2] : any[s.index(any.size())];
            auto F = fc[s.index(fc.size())];
            CAmount total = X.second.value + Y.second.value + Z.second.value;
            auto b = ws.MakeTx({X, Y, Z}, {CTxOut(total / 3, P2WSH_OP_TRUE), CTxOut(total - total / 3 - FEE, new_wallet_script(true))});
            VCHECK(b.has_value(), "c44.harness", "wallet could not sign its own coins");
            CTransactionRef B = submit(*b, "multi-input-spend");
            if (!B) continue;
            auto offchain = [&](const std::optional<CMutableTransaction>& m) -> CTransactionRef {
                if (!m) return nullptr;
                CTransactionRef tx = MakeTransactionRef(*m);
                remember(tx);
                if (relates(tx)) wallet_related.insert(tx->GetHash());
                ws.Track(tx);
                return tx;
            };
            CTransactionRef Xp = offchain(ws.MakeTx({X}, {CTxOut(X.second.value - FEE - 11, P2WSH_OP_TRUE)}));
            CTransactionRef Yp = offchain(ws.MakeTx({Y, F}, {CTxOut(Y.second.value + F.second.value - FEE - 13, P2WSH_OP_TRUE)}));
            CTransactionRef W = offchain(ws.MakeTx({F}, {CTxOut(F.second.value - FEE - 17, P2WSH_OP_TRUE)}));
            if (!Xp || !Yp || !W) continue;
            uint256 b1 = mine_on(sim.TipHash(), {Xp}, false, 3000 + op * 8);
            checkpoint("after-first-conflict");
            if (s.chance(100)) { mine_on(sim.TipHash(), {}, false, 3001 + op * 8); checkpoint("between-conflicts"); }
            const uint256 before_b2 = sim.TipHash();
            uint256 b2 = mine_on(sim.TipHash(), {Yp}, false, 3002 + op * 8);
            checkpoint("after-second-conflict");
            if (sim.TipHash() != b2) continue;
            st.cls("double-conflict");
            unsigned variant = s.range<unsigned>(0, 3);
            if (variant <= 1) {
                // only the newer conflicting block is replaced (depth-1 reorg); the competing block spends F
                uint256 c1 = mine_on(before_b2, {W}, false, 3003 + op * 8);
                mine_on(c1, {}, false, 3004 + op * 8);
                st.cls("double-conflict-newer-block-disconnected");
            } else if (variant == 2) {
                CBlockIndex* pi;
                { LOCK(cs_main); pi = sim.chainman().m_blockman.LookupBlockIndex(b2); }
                BlockValidationState state;
                sim.chainstate().InvalidateBlock(state, pi);
                sim.SyncSignals();
                note_reorg(b2, sim.TipHash());
                st.cls("double-conflict-newer-block-invalidated");
            } else {
                // both conflicting blocks go: empty competing branch from below the first one
                uint256 parent = sim.ledger.At(b1).prev;
                int need = sim.ledger.At(b2).height - sim.ledger.At(parent).height + 1;
                for (int k = 0; k < need; ++k) parent = mine_on(parent, {}, false, 3005 + op * 8 + k);
                st.cls("double-conflict-both-blocks-disconnected");
            }
        } else {
            // invalidate the tip, compare, reconsider, compare
            uint256 tip = sim.TipHash();
            if (sim.ledger.At(tip).height <= 104) continue;
            CBlockIndex* pi;
            { LOCK(cs_main); pi = sim.chainman().m_blockman.LookupBlockIndex(tip); }
            BlockValidationState state;
            sim.chainstate().InvalidateBlock(state, pi);
            sim.SyncSignals();
            note_reorg(tip, sim.TipHash());
            st.cls("invalidate");
            checkpoint("after-invalidate");
            { LOCK(cs_main); sim.chainstate().ResetBlockFailureFlags(pi); sim.chainman().RecalculateBestHeader(); }
            sim.chainstate().ActivateBestChain(state);
            sim.SyncSignals();
        }
        checkpoint("after-op");
    }
    st.nontrivial = f_reorg_wallet && f_dead;
    if (f_dead) st.cls("chain-conflicted-wallet-tx");
    if (f_untrusted) st.cls("untrusted-pending>0");
    if (f_trusted_pending) st.cls("trusted-unconfirmed>0");
    if (f_immature) st.cls("immature>0");
    if (f_maturity) st.cls("maturity-crossed");
    st.mix(uint64_t(reorgs)); st.mix(uint64_t(maxdepth)); st.mix(uint64_t(deadmax));
    st.note("reorgs=", reorgs, " maxdepth=", maxdepth, " checks=", checks);
    wsp.reset();
    simp.reset();
    SetMockTime(0);
}
