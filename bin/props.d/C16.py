# C16: crash-image enumeration (engine E3). Worker: bin/crashsim/c16_worker.py (strace recorder + image builder + recovery oracle).
SPEC = {
    'level': 'fault_enumeration',
    'assumptions': [
        'fault model exactly as the statement: process kill = every recorded file operation before the cut applied; power loss = an ordered suffix of the not-yet-fsynced data writes dropped (optionally the first dropped write torn at a 512-byte boundary)',
        'metadata operations (create/truncate/extend/rename/unlink) are durable in order (ordered-journal assumption); hardware that violates fsync is out of scope',
        'crash points at system-call granularity of the recorded workloads (regtest-size data, 64 KiB block files, coins-DB batches of 150-2000 bytes)',
        'recorder validated on every workload: replaying the full trace must reproduce the real final datadir byte for byte, else the run is reported broken',
    ],
    'stages': [
        custom('bin/crashsim/c16_worker.py', 320, 6400, name='c16_crash_images', needs=[('san', 'vh_c16')],
               min_cases_quick=40, floors={'cut-inside-flush': 0.1, 'mode:power': 0.06, 'cut-after-coins-batch': 0.1, 'mode:double-crash': 0.03},
               hard_timeout_quick=3600, max_seconds_quick=900, max_seconds_thorough=5400,
               rule='one generated workload per worker (quick; 3 in thorough) recorded under strace; cut points = file operations after start-up, two thirds '
                    'drawn from windows of interest (inside a state flush, at a change of file class, before a rename/unlink), each as a kill image plus a '
                    'power-loss image (suffix of unsynced writes dropped, sometimes torn); non-trivial = cut inside a flush or at a file-class boundary or a '
                    'power-loss variant or a second crash during recovery; per workload one first-level image taken right after a coins-DB partial batch is additionally '
                    'recovered under the recorder with small coins batches and cut again inside that recovery (fault sequences: kill + kill during ReplayBlocks flush); '
                    'distinct = (workload, cut index, mode[, second cut])'),
    ],
}

META = {
    'engine': 'E3 crash-image enumeration (strace recorder + image builder) driving the E1 recovery target',
    'level_text': 'Fault enumeration: generated node workloads (connect, flush modes, reorg, invalidate, manual prune) are recorded at system-call level; crash images '
                  'are materialised for sampled (quick) cut points under kill and dropped-unsynced-suffix semantics, and each image is opened through '
                  'LoadChainstate/VerifyLoadedChainstate/ActivateBestChain without reindex and judged against an independent ledger: start succeeds, recovered tip was '
                  'connected before the cut, coins DB == replay of that tip, work after resuming >= last completed flush. Not exhaustive over workloads.',
    'technique': 'fault injection by crash-image enumeration over recorded write/fsync/rename traces, recovery invariant vs independent ledger model',
    'level_note': 'ordered-metadata journal assumption; syscall-granularity cuts; regtest-scale data; strace-based recorder self-checked per workload',
}
