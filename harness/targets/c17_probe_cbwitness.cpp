// C17 probe (NOT registered in props.d/C17.py): the one transaction-byte region that the connect clause of c17_blockstore excludes.
// A never-connected fork block gets one bit flipped inside its stored coinbase witness item (the BIP141 "witness reserved value"); the
// fork is then given the most work. The txid merkle root does not cover witness data and the witness commitment is only checked when a
// block is accepted (ContextualCheckBlock), not when it is connected from disk, so this is where "a block whose stored transaction bytes
// were corrupted is never connected" can fail.   build/san/vh/vh_c17 --target c17_probe_cbwitness --replay <any file>
#include <engine/verif.h>
#include <kits/chainsim.h>

#include <node/blockstorage.h>
#include <streams.h>

#include <cstdio>
#include <filesystem>

using namespace verif;

VERIF_TARGET(c17_probe_cbwitness, nullptr, 1, 8,
             "probe: flip bit (byte % 32, bit) of the stored coinbase witness reserved value of a never-connected fork block, extend the fork to most work; "
             "the block must not be connected (c17.corrupt-cbwitness-connected). Not part of the registered check.")
{
    unsigned which = s.range<unsigned>(0, 31), bit = s.range<unsigned>(0, 7);
    ChainSimOpts o;
    o.fast_prune = true;
    ChainSim sim(o);
    auto base = sim.LoadBase(104);
    const std::filesystem::path dir = sim.m_args.GetBlocksDirPath();
    // fork block: sibling of the tip
    BlockSpec sp; sp.prev = base[102]; sp.extra_nonce = 1717;
    auto f = sim.Build(sp);
    auto d0 = sim.Deliver(f);
    VCHECK(d0.processed && sim.TipHash() == base[103], "c17.setup", "fork block not stored as a side block");
    CBlockIndex* pi = WITH_LOCK(cs_main, return sim.chainman().m_blockman.LookupBlockIndex(f->GetHash()));
    FlatFilePos bp = WITH_LOCK(cs_main, return pi->GetBlockPos());
    DataStream cbs; cbs << TX_WITH_WITNESS(*f->vtx[0]);
    size_t off = 80 + 1 + cbs.size() - 4 - 32 + which; // inside the 32-byte witness item of the coinbase
    char name[32]; snprintf(name, sizeof name, "blk%05u.dat", unsigned(bp.nFile));
    std::string path = (dir / name).string();
    FILE* fp = fopen(path.c_str(), "r+b");
    VCHECK(fp != nullptr, "c17.setup", "cannot open", path);
    unsigned char c = 0;
    fseek(fp, long(bp.nPos + off), SEEK_SET); size_t n = fread(&c, 1, 1, fp); c ^= uint8_t(1u << bit);
    fseek(fp, long(bp.nPos + off), SEEK_SET); n += fwrite(&c, 1, 1, fp); fclose(fp);
    VCHECK(n == 2, "c17.setup", "poke failed");
    // what is on disk now?
    CBlock rb;
    bool ok = sim.chainman().m_blockman.ReadBlock(rb, *pi);
    bool differs = ok && rb.vtx[0]->vin[0].scriptWitness.stack != f->vtx[0]->vin[0].scriptWitness.stack;
    st.note("ReadBlock ok=", ok, " coinbase witness differs from the original=", differs, " same block hash=", ok && rb.GetHash() == f->GetHash());
    VCHECK(ok && differs && rb.GetHash() == f->GetHash(), "c17.setup", "the fault did not land in the coinbase witness");
    // give the fork the most work
    BlockSpec c1; c1.prev = f->GetHash(); c1.extra_nonce = 1718;
    auto child = sim.Build(c1);
    sim.Deliver(child);
    bool in_chain = false;
    for (uint256 h = sim.TipHash(); sim.ledger.At(h).height > 0; h = sim.ledger.At(h).prev) if (h == f->GetHash()) in_chain = true;
    st.steps++;
    st.note("after extending the fork: tip h=", sim.TipHeight(), " corrupted block in active chain=", in_chain);
    st.nontrivial = true;
    VCHECK(!in_chain, "c17.corrupt-cbwitness-connected", "a fork block whose stored coinbase witness was bit-flipped (byte", which, "bit", bit, ") was connected to the active chain; tip h", sim.TipHeight());
}
